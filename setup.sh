#!/bin/sh
# Offline setup: build every harness test binary from files on disk only.
set -e
cd "$(dirname "$0")"
export GOFLAGS=-mod=mod GOPROXY=off GOSUMDB=off GOTOOLCHAIN=local
mkdir -p bin .work replays evidence
exec ./check build
