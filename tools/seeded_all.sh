#!/bin/bash
export VERIF_EVIDENCE_DIR=/tmp/verif-changed-tree-evidence   # evidence of runs against a changed tree must not land in /verif/evidence
# seeded_all.sh [id...] : run every kept seeded change (or the named ones) against the current checks and
# write one line per change to /verif/seeded/RESULTS.txt ("caught by <prop> <signature>" or "MISSED").
cd /verif || exit 2
ids="$*"; [ -z "$ids" ] && ids=$(ls seeded | grep -E '^C[0-9]+-m')
out=/verif/seeded/RESULTS.txt; tmp=$(mktemp /tmp/seeded_all.XXXXXX)
for id in $ids; do
  d=/verif/seeded/$id; prop=${id%%-*}
  git -C /repo diff --quiet || { echo "/repo not clean"; exit 2; }
  if ! git -C /repo apply --check $d/patch.diff 2>/dev/null; then
    echo "$id: patch no longer applies to /repo HEAD (a later fix touches the same lines)" | tee -a $tmp; continue
  fi
  git -C /repo apply $d/patch.diff
  props=$(python3 -c "
import json
m=json.load(open('$d/meta.json'))
print(' '.join(m.get('caught_by') or ['$prop']))" 2>/dev/null || echo $prop)
  res="MISSED"
  for p in $props; do
    ./check $p > /tmp/seeded_all.log 2>&1; x=$?
    if [ $x -eq 1 ]; then res="caught by $p ($(grep -m1 -o 'signature=[^ ]*' /tmp/seeded_all.log))"; break; fi
    if [ $x -eq 2 ]; then res="exit 2 from $p: $(grep -m1 'HARNESS\|BUILD' /tmp/seeded_all.log | cut -c1-120)"; fi
  done
  git -C /repo checkout -- .
  echo "$id: $res" | tee -a $tmp
done
if [ -z "$*" ]; then mv $tmp $out; else cat $tmp; rm -f $tmp; fi
