#!/usr/bin/env python3
"""Render the table of seeded changes from /verif/seeded/*/meta.json into DESIGN.md (between markers)."""
import json, glob, os, re
rows = []
for d in sorted(glob.glob('/verif/seeded/*/')):
    mp = os.path.join(d, 'meta.json')
    if not os.path.exists(mp):
        continue
    m = json.load(open(mp))
    name = os.path.basename(d.rstrip('/'))
    title = (m.get('title') or '').replace('|', '/').strip()
    needs = (m.get('needs_to_manifest') or '').replace('|', '/').replace('\n', ' ').strip()
    if len(needs) > 230:
        needs = needs[:227] + '...'
    res = (m.get('result') or '').replace('|', '/')
    rows.append(f"| `{name}` | {title} | {needs} | {res} |")
table = "| seeded change | what it is | needs to manifest | result |\n|---|---|---|---|\n" + "\n".join(rows)
p = '/verif/DESIGN.md'
s = open(p).read()
if 'SEEDED_TABLE_PLACEHOLDER' in s:
    s = s.replace('SEEDED_TABLE_PLACEHOLDER', '<!-- seeded-table-begin -->\n' + table + '\n<!-- seeded-table-end -->')
else:
    s = re.sub(r'<!-- seeded-table-begin -->.*?<!-- seeded-table-end -->', lambda _: '<!-- seeded-table-begin -->\n' + table + '\n<!-- seeded-table-end -->', s, flags=re.S)
open(p, 'w').write(s)
print(len(rows), 'rows')
