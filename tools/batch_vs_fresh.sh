#!/bin/sh
# usage: batch_vs_fresh.sh <pkg> <spec> <count> <every>   -- digests of runs in one batch process vs one fresh process per run
pkg=$1; spec=$2; count=$3; every=$4
d=$(mktemp -d /tmp/bvf.XXXXXX)
E="GOMAXPROCS=1 GODEBUG=asyncpreemptoff=1 VERIF_PROP=$spec VERIF_SEED=1 VERIF_RUN_DIGESTS=1 VERIF_MAX_VIOLATIONS=0"
env $E VERIF_FIRST=0 VERIF_COUNT=$count VERIF_OUT=$d/a.json /verif/bin/$pkg.test -test.run '^TestRun$' -test.timeout 0 > $d/a.log 2>&1
bad=0; n=0
r=0
while [ $r -lt $count ]; do
  env $E VERIF_FIRST=$r VERIF_COUNT=1 VERIF_OUT=$d/s.json /verif/bin/$pkg.test -test.run '^TestRun$' -test.timeout 0 > $d/s.log 2>&1
  ok=$(python3 -c "
import json
a=json.load(open('$d/a.json'))['run_digests']; s=json.load(open('$d/s.json'))['run_digests']
print('same' if a[$r]==s[0] else 'DIFF %s %s'%(a[$r],s[0]))")
  n=$((n+1))
  case "$ok" in same) ;; *) bad=$((bad+1)); echo "run $r: $ok";; esac
  r=$((r+every))
done
echo "$pkg/$spec: $bad of $n sampled runs differ between batch and fresh process"
rm -rf $d
