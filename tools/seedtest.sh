#!/bin/bash
export VERIF_EVIDENCE_DIR=/tmp/verif-changed-tree-evidence   # evidence of runs against a changed tree must not land in /verif/evidence
# seedtest.sh <patch.diff> <prop> [prop...] : apply a seeded change to /repo, run the quick checks, undo. Prints exit codes.
P=$1; shift
cd /repo && git diff --quiet || { echo "/repo not clean"; exit 2; }
git -C /repo apply $P || { echo "patch does not apply to /repo"; exit 2; }
for prop in "$@"; do
  (cd /verif && ./check $prop > /tmp/seedtest-$prop.log 2>&1; echo "check $prop exit=$?"; grep -E "^VIOLATION|violation: oracle" /tmp/seedtest-$prop.log | head -4 | cut -c1-220)
done
git -C /repo checkout -- .
git -C /repo status --short | head -3
