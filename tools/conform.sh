#!/bin/sh
# conform.sh: run the conformance scenarios (/verif/conform) against the real dragonboat and against the
# stand-in, and compare the contract-level facts each run prints. Exit 0 = identical.
cd /verif/conform || exit 2
export GOFLAGS=-mod=mod GOPROXY=off GOSUMDB=off GOTOOLCHAIN=local
d=$(mktemp -d /tmp/conform.XXXXXX)
cp /repo/go.sum go.sum
sed 's#^module .*#module verif/conform#' /repo/go.mod > go.mod
CONFORM_OUT=$d/real.txt go test -vet=off -count=1 -run TestConform . > $d/real.log 2>&1 || { echo "real flavour failed"; tail -20 $d/real.log; exit 2; }
echo 'replace github.com/lni/dragonboat/v4 => ../simdragonboat' >> go.mod
CONFORM_OUT=$d/sim.txt go test -tags simdb -vet=off -count=1 -run TestConform . > $d/sim.log 2>&1 || { echo "stand-in flavour failed"; tail -20 $d/sim.log; exit 2; }
rm -f go.mod go.sum
if diff $d/real.txt $d/sim.txt > $d/diff.txt; then
  echo "conform: $(wc -l < $d/real.txt) facts, identical for the real library and the stand-in"; cp $d/real.txt /verif/conform/FACTS.txt; rm -rf $d; exit 0
fi
echo "conform: facts differ (< real, > stand-in)"; cat $d/diff.txt; rm -rf $d; exit 1
