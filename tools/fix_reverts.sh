#!/bin/sh
export VERIF_EVIDENCE_DIR=/tmp/verif-changed-tree-evidence   # evidence of runs against a changed tree must not land in /verif/evidence
# For every defect recorded as fixed in known_findings.json: take the fix out of /repo's working tree again
# (reverse patch of the fix: commit, non-test files only), run the property's quick check, expect it to
# report the violation again (exit 1), and restore the tree. "A fixed entry suppresses nothing."
# usage: tools/fix_reverts.sh [seed ...]      (default seeds: 1)
cd /verif || exit 2
seeds="${*:-1}"
python3 - <<'PY' > /tmp/fix_reverts.list
import json
for f in json.load(open('/verif/known_findings.json'))['findings']:
    if f.get('status') == 'fixed':
        print(f['property'], f['commit'])
PY
rc=0
while read prop commit; do
  git -C /repo diff --quiet || { echo "fix_reverts: /repo working tree not clean"; exit 2; }
  if [ -f "/verif/seeded/fixreverts/$commit.diff" ]; then
    # later fixes touch the same lines: a hand-made patch that takes just this fix out of the current tree
    git -C /repo apply "/verif/seeded/fixreverts/$commit.diff" || { echo "$prop $commit: stored revert does not apply"; rc=1; continue; }
  else
    git -C /repo show "$commit" -- . ':(exclude)*_test.go' > /tmp/fix_revert.diff
    if ! git -C /repo apply -R --check /tmp/fix_revert.diff 2>/dev/null; then
      echo "$prop $commit: reverse patch does not apply to the current tree (later fixes touch the same lines) - needs seeded/fixreverts/$commit.diff"
      rc=1
      continue
    fi
    git -C /repo apply -R /tmp/fix_revert.diff
  fi
  caught=no
  for sd in $seeds; do
    ./check "$prop" --seed "$sd" > /tmp/fix_revert.out 2>&1
    x=$?
    if [ $x -eq 1 ]; then caught="yes (seed $sd: $(grep -m1 -o 'signature=[^ ]*' /tmp/fix_revert.out))"; break; fi
    if [ $x -eq 2 ]; then caught="HARNESS FAILURE (exit 2) at seed $sd"; break; fi
  done
  git -C /repo checkout -- .
  echo "$prop $commit: violation reported again with the fix taken out: $caught"
  case "$caught" in yes*) ;; *) rc=1;; esac
done < /tmp/fix_reverts.list
rm -f /tmp/fix_revert.diff /tmp/fix_revert.out /tmp/fix_reverts.list
exit $rc
