#!/bin/bash
# verify_mutant.sh <worktree> <mutant-dir> : confirm build, demo fails with patch, passes without. Prints PASS/FAIL lines.
WT=$1; M=$2
cd $WT || exit 2
git checkout -q -- . 2>/dev/null
RUNCMD=$(grep -E "go test" $M/DEMO.txt | head -1 | sed 's/^.*go test/go test/; s/`//g')
DEMO_DIR=$(echo "$RUNCMD" | grep -oE ' \./[A-Za-z0-9_/]+' | tail -1 | sed 's/^ \.\///')
[ -z "$DEMO_DIR" ] && { echo "no demo dir found in DEMO.txt"; exit 2; }
cp $M/demo_test.go $DEMO_DIR/zz_demo_test.go
echo "demo dir: $DEMO_DIR ; cmd: $RUNCMD"
git apply $M/patch.diff || { echo "PATCH DOES NOT APPLY"; rm -f $DEMO_DIR/zz_demo_test.go; exit 2; }
go build ./... >/dev/null 2>&1 && echo "BUILD ok" || echo "BUILD FAIL"
if (eval "$RUNCMD" >/tmp/demo_with.log 2>&1); then echo "WITH PATCH: demo PASSES (bad)"; else echo "WITH PATCH: demo fails (good)"; fi
git apply -R $M/patch.diff
if (eval "$RUNCMD" >/tmp/demo_without.log 2>&1); then echo "WITHOUT PATCH: demo passes (good)"; else echo "WITHOUT PATCH: demo FAILS (bad)"; tail -5 /tmp/demo_without.log; fi
rm -f $DEMO_DIR/zz_demo_test.go
git checkout -q -- go.mod go.sum 2>/dev/null
