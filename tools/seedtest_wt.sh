#!/bin/bash
# seedtest_wt.sh <worktree> <patch.diff> <prop> [prop...] : like seedtest.sh but against a scratch worktree of /repo
# (VP_RUN_REPO) from a private copy of /verif, so that several seeded changes can be tried at the same time and
# /repo itself is never touched. The worktree is left clean.
WT=$1; P=$2; shift 2
SLOT=$(basename $WT)
export VERIF_EVIDENCE_DIR=/tmp/verif-changed-tree-evidence-$SLOT
git -C $WT checkout -q -- . ; git -C $WT apply $P || { echo "patch does not apply"; exit 2; }
rsync -a --delete --exclude .work --exclude replays --exclude .git --exclude evidence /verif/ /tmp/verif-$SLOT/
for prop in "$@"; do
  (cd /tmp/verif-$SLOT && VP_RUN_REPO=$WT ./check $prop > /tmp/seedtest-$SLOT-$prop.log 2>&1; echo "$SLOT check $prop exit=$?"; grep -E "^VIOLATION|violation: oracle" /tmp/seedtest-$SLOT-$prop.log | head -4 | cut -c1-220)
done
git -C $WT checkout -q -- .
rm -rf /tmp/verif-$SLOT $VERIF_EVIDENCE_DIR
