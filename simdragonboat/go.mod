module github.com/lni/dragonboat/v4

go 1.22

require (
	github.com/cockroachdb/errors v1.11.1
	github.com/cockroachdb/pebble v0.0.0-20221207173255-0f086d933dac
	github.com/gogo/protobuf v1.3.2
	github.com/google/uuid v1.6.0
	github.com/lni/goutils v1.4.0
	github.com/lni/vfs v0.2.1-0.20220616104132-8852fd867376
)
