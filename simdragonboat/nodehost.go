package dragonboat

import (
	"bytes"
	"context"
	"fmt"
	"sort"
	"sync"
	"time"

	"github.com/lni/dragonboat/v4/client"
	"github.com/lni/dragonboat/v4/config"
	"github.com/lni/dragonboat/v4/raftio"
	pb "github.com/lni/dragonboat/v4/raftpb"
	sm "github.com/lni/dragonboat/v4/statemachine"
)

// NodeHost is the stand-in for dragonboat.NodeHost: the 16 methods regatta's non-test code calls.
type NodeHost struct {
	u           *Universe
	cfg         config.NodeHostConfig
	addr        string
	cluster     string
	id          string
	closed      bool
	partitioned bool
	store       *hostStore
	replicas    map[uint64]*Replica // running or stopped replicas hosted here, by shard id

	// events are delivered by a per-host goroutine outside any simulator lock, FIFO
	evMu    sync.Mutex
	evCond  *sync.Cond
	evQueue []func()
	evDone  bool
}

// NewNodeHost creates a NodeHost inside the current Universe. A NodeHost created for a
// RaftAddress that was used before is that node restarted: its bootstrap records survive.
func NewNodeHost(nhConfig config.NodeHostConfig) (*NodeHost, error) {
	u := current.Load()
	if u == nil {
		return nil, fmt.Errorf("simdragonboat: no Universe installed")
	}
	if err := nhConfig.Validate(); err != nil {
		return nil, err
	}
	u.mu.Lock()
	defer u.mu.Unlock()
	addr := nhConfig.RaftAddress
	if old := u.hosts[addr]; old != nil && !old.closed {
		return nil, fmt.Errorf("simdragonboat: a NodeHost is already running at %s", addr)
	}
	st := u.stores[addr]
	if st == nil {
		st = &hostStore{nodeInfo: map[raftio.NodeInfo]bool{}, nhid: fmt.Sprintf("nhid-%016x", u.keyed("nhid", strHash(addr)))}
		u.stores[addr] = st
	}
	nh := &NodeHost{u: u, cfg: nhConfig, addr: addr, cluster: u.ClusterOf(addr), id: st.nhid, store: st, replicas: map[uint64]*Replica{}}
	nh.evCond = sync.NewCond(&nh.evMu)
	go nh.deliverEvents()
	u.hosts[addr] = nh
	u.event("nodehost up %s", addr)
	return nh, nil
}

func (nh *NodeHost) deliverEvents() {
	for {
		nh.evMu.Lock()
		for len(nh.evQueue) == 0 && !nh.evDone {
			nh.evCond.Wait()
		}
		if len(nh.evQueue) == 0 && nh.evDone {
			nh.evMu.Unlock()
			return
		}
		f := nh.evQueue[0]
		nh.evQueue = nh.evQueue[1:]
		nh.evMu.Unlock()
		f()
	}
}

func (nh *NodeHost) post(f func()) {
	nh.evMu.Lock()
	if !nh.evDone {
		nh.evQueue = append(nh.evQueue, f)
	}
	nh.evMu.Unlock()
	nh.evCond.Signal()
}

func (nh *NodeHost) postLeaderUpdated(info raftio.LeaderInfo) {
	if l := nh.cfg.RaftEventListener; l != nil {
		nh.post(func() { l.LeaderUpdated(info) })
	}
}

func (nh *NodeHost) postSys(f func(raftio.ISystemEventListener)) {
	if l := nh.cfg.SystemEventListener; l != nil {
		nh.post(func() { f(l) })
	}
}

// Close stops all shards managed by the NodeHost instance.
func (nh *NodeHost) Close() {
	u := nh.u
	u.mu.Lock()
	if nh.closed {
		u.mu.Unlock()
		return
	}
	nh.postSys(func(l raftio.ISystemEventListener) { l.NodeHostShuttingDown() })
	ids := nh.sortedShardIDs()
	for _, id := range ids {
		nh.stopReplicaLocked(nh.replicas[id], true)
	}
	nh.closed = true
	for _, s := range u.sortedShards() {
		u.ensureLeaderLocked(s)
	}
	u.event("nodehost down %s", nh.addr)
	u.mu.Unlock()
	nh.evMu.Lock()
	nh.evDone = true
	nh.evMu.Unlock()
	nh.evCond.Signal()
}

// Kill is a crash: the NodeHost disappears without closing its state machines. Harness only.
func (nh *NodeHost) Kill() {
	u := nh.u
	u.mu.Lock()
	for _, id := range nh.sortedShardIDs() {
		r := nh.replicas[id]
		r.running = false
		r.host = nil
		close(r.stopc)
	}
	nh.closed = true
	for _, s := range u.sortedShards() {
		u.ensureLeaderLocked(s)
	}
	u.event("nodehost killed %s", nh.addr)
	u.mu.Unlock()
	nh.evMu.Lock()
	nh.evDone = true
	nh.evQueue = nil
	nh.evMu.Unlock()
	nh.evCond.Signal()
}

func (nh *NodeHost) sortedShardIDs() []uint64 {
	ids := make([]uint64, 0, len(nh.replicas))
	for id := range nh.replicas {
		ids = append(ids, id)
	}
	sort.Slice(ids, func(i, j int) bool { return ids[i] < ids[j] })
	return ids
}

func (nh *NodeHost) stopReplicaLocked(r *Replica, closeSM bool) {
	if r == nil || !r.running {
		return
	}
	r.running = false
	close(r.stopc)
	if closeSM && !r.halted {
		_ = guard(func() {
			if r.disk != nil {
				_ = r.disk.Close()
			} else {
				_ = r.conc.Close()
			}
		})
	}
	sid, rid := r.shard.Key.ShardID, r.ID
	nh.postSys(func(l raftio.ISystemEventListener) { l.NodeUnloaded(raftio.NodeInfo{ShardID: sid, ReplicaID: rid}) })
	r.host = nil
	delete(nh.replicas, sid)
}

func (nh *NodeHost) ID() string { return nh.id }

func (nh *NodeHost) NodeHostConfig() config.NodeHostConfig { return nh.cfg }

func (nh *NodeHost) RaftAddress() string { return nh.addr }

// GetNodeHostInfo returns a NodeHostInfo instance that contains all details of the NodeHost.
func (nh *NodeHost) GetNodeHostInfo(opt NodeHostInfoOption) *NodeHostInfo {
	u := nh.u
	u.mu.Lock()
	defer u.mu.Unlock()
	if nh.closed {
		return nil
	}
	info := &NodeHostInfo{NodeHostID: nh.id, RaftAddress: nh.addr}
	for _, id := range nh.sortedShardIDs() {
		r := nh.replicas[id]
		if !r.running {
			continue
		}
		s := r.shard
		si := ShardInfo{ShardID: id, ReplicaID: r.ID, ConfigChangeIndex: r.ccIndex, StateMachineType: s.smType,
			LeaderID: s.leader, Term: s.term} // IsLeader stays false: the real library (this version) never sets it (conformance fact)
		if r.ccIndex == 0 {
			si.Pending = true
		} else {
			si.Replicas = map[uint64]string{}
			for k, v := range s.members {
				si.Replicas[k] = v
			}
		}
		info.ShardInfoList = append(info.ShardInfoList, si)
	}
	if !opt.SkipLogInfo {
		var li []raftio.NodeInfo
		for k := range nh.store.nodeInfo {
			li = append(li, k)
		}
		sort.Slice(li, func(i, j int) bool {
			if li[i].ShardID != li[j].ShardID {
				return li[i].ShardID < li[j].ShardID
			}
			return li[i].ReplicaID < li[j].ReplicaID
		})
		info.LogInfo = li
	}
	return info
}

// HasNodeInfo returns whether the bootstrap record of the specified replica exists on this host.
func (nh *NodeHost) HasNodeInfo(shardID uint64, replicaID uint64) bool {
	nh.u.mu.Lock()
	defer nh.u.mu.Unlock()
	return nh.store.nodeInfo[raftio.NodeInfo{ShardID: shardID, ReplicaID: replicaID}]
}

func (nh *NodeHost) startReplica(initialMembers map[uint64]Target, join bool, disk sm.CreateOnDiskStateMachineFunc, conc sm.CreateConcurrentStateMachineFunc, cfg config.Config) error {
	u := nh.u
	u.mu.Lock()
	defer u.mu.Unlock()
	if nh.closed {
		return ErrClosed
	}
	if err := cfg.Validate(); err != nil {
		return err
	}
	if _, ok := nh.replicas[cfg.ShardID]; ok {
		return ErrShardAlreadyExist
	}
	key := ShardKey{nh.cluster, cfg.ShardID}
	ni := raftio.NodeInfo{ShardID: cfg.ShardID, ReplicaID: cfg.ReplicaID}
	bootstrapped := nh.store.nodeInfo[ni]
	if !bootstrapped && !join && len(initialMembers) == 0 {
		return ErrShardNotBootstrapped
	}
	s := u.shards[key]
	if s == nil {
		s = &Shard{Key: key, members: map[uint64]string{}, replicas: map[uint64]*Replica{}}
		if disk != nil {
			s.smType = sm.OnDiskStateMachine
		} else {
			s.smType = sm.ConcurrentStateMachine
		}
		u.shards[key] = s
	}
	if len(s.members) == 0 && len(initialMembers) > 0 {
		// initial membership: one config-change entry per member
		ids := make([]uint64, 0, len(initialMembers))
		for id := range initialMembers {
			ids = append(ids, id)
		}
		sort.Slice(ids, func(i, j int) bool { return ids[i] < ids[j] })
		for _, id := range ids {
			s.members[id] = initialMembers[id]
			s.entries = append(s.entries, pb.Entry{Index: s.last() + 1, Term: s.term, Type: pb.ConfigChangeEntry, Cmd: []byte{byte(id)}})
		}
	}
	nh.store.nodeInfo[ni] = true
	r := s.replicas[cfg.ReplicaID]
	if r == nil {
		r = &Replica{shard: s, ID: cfg.ReplicaID}
		s.replicas[cfg.ReplicaID] = r
	}
	if r.running {
		return ErrShardAlreadyExist
	}
	r.addr, r.host, r.cfg, r.running, r.halted = nh.addr, nh, cfg, true, false
	r.stopc = make(chan struct{})
	r.results = map[uint64]sm.Result{}
	r.disk, r.conc = nil, nil
	if disk != nil {
		r.disk = disk(cfg.ShardID, cfg.ReplicaID)
		var idx uint64
		var err error
		if pv := u.guard(func() { idx, err = r.disk.Open(r.stopc) }); pv != nil || err != nil {
			r.running = false
			r.host = nil
			u.fatals = append(u.fatals, fmt.Sprintf("%s replica %d: Open failed: %v %v", key, r.ID, err, pv))
			return fmt.Errorf("simdragonboat: OpenOnDiskStateMachine failed: %v %v", err, pv)
		}
		if idx > s.last() {
			r.running = false
			r.host = nil
			u.fatals = append(u.fatals, fmt.Sprintf("%s replica %d: Open returned index %d beyond the log end %d", key, r.ID, idx, s.last()))
			return fmt.Errorf("simdragonboat: on-disk index %d beyond log %d", idx, s.last())
		}
		r.applied = idx
		// membership as of idx
		r.ccIndex = 0
		for _, e := range s.entries {
			if e.Index > idx {
				break
			}
			if e.Type == pb.ConfigChangeEntry {
				r.ccIndex = e.Index
			}
		}
	} else {
		r.conc = conc(cfg.ShardID, cfg.ReplicaID)
		r.applied, r.ccIndex = 0, 0
		if r.snap != nil {
			var err error
			data := append([]byte(nil), r.snap.data...)
			if pv := u.guard(func() { err = r.conc.RecoverFromSnapshot(bytes.NewReader(data), nil, r.stopc) }); pv != nil || err != nil {
				u.fatal(r, "RecoverFromSnapshot at start failed", fmt.Sprint(err, pv))
				return fmt.Errorf("simdragonboat: recover failed: %v %v", err, pv)
			}
			r.applied = r.snap.index
			for _, e := range s.entries {
				if e.Index > r.applied {
					break
				}
				if e.Type == pb.ConfigChangeEntry {
					r.ccIndex = e.Index
				}
			}
		}
	}
	r.sinceSnapshot = 0
	nh.replicas[cfg.ShardID] = r
	u.event("replica start %s r%d applied=%d", key, r.ID, r.applied)
	sid, rid := cfg.ShardID, cfg.ReplicaID
	nh.postSys(func(l raftio.ISystemEventListener) { l.NodeReady(raftio.NodeInfo{ShardID: sid, ReplicaID: rid}) })
	u.ensureLeaderLocked(s)
	if s.leader != 0 {
		nh.postLeaderUpdated(raftio.LeaderInfo{ShardID: sid, ReplicaID: rid, Term: s.term, LeaderID: s.leader})
	}
	if !r.Lagging && !r.Stalled {
		_ = u.applyLocked(r, s.last())
	}
	return nil
}

func (nh *NodeHost) StartOnDiskReplica(initialMembers map[uint64]Target, join bool, create sm.CreateOnDiskStateMachineFunc, cfg config.Config) error {
	return nh.startReplica(initialMembers, join, create, nil, cfg)
}

func (nh *NodeHost) StartConcurrentReplica(initialMembers map[uint64]Target, join bool, create sm.CreateConcurrentStateMachineFunc, cfg config.Config) error {
	return nh.startReplica(initialMembers, join, nil, create, cfg)
}

// StopShard stops the local replica of the specified shard.
func (nh *NodeHost) StopShard(shardID uint64) error {
	u := nh.u
	u.mu.Lock()
	defer u.mu.Unlock()
	if nh.closed {
		return ErrClosed
	}
	r := nh.replicas[shardID]
	if r == nil || !r.running {
		return ErrShardNotFound
	}
	s := r.shard
	nh.stopReplicaLocked(r, true)
	u.event("replica stop %s r%d", s.Key, r.ID)
	u.ensureLeaderLocked(s)
	return nil
}

// SyncRemoveData removes all data of a stopped replica.
func (nh *NodeHost) SyncRemoveData(ctx context.Context, shardID uint64, replicaID uint64) error {
	u := nh.u
	u.mu.Lock()
	defer u.mu.Unlock()
	if nh.closed {
		return ErrClosed
	}
	if _, ok := ctx.Deadline(); !ok {
		return ErrDeadlineNotSet
	}
	if r := nh.replicas[shardID]; r != nil && r.running {
		return ErrShardNotStopped
	}
	delete(nh.store.nodeInfo, raftio.NodeInfo{ShardID: shardID, ReplicaID: replicaID})
	if s := u.shards[ShardKey{nh.cluster, shardID}]; s != nil {
		if r := s.replicas[replicaID]; r != nil && !r.running {
			r.snap = nil
			r.applied = 0
			r.marker = 0
		}
	}
	nh.postSys(func(l raftio.ISystemEventListener) {
		l.NodeDeleted(raftio.NodeInfo{ShardID: shardID, ReplicaID: replicaID})
	})
	return nil
}

func (nh *NodeHost) GetNoOPSession(shardID uint64) *client.Session {
	return &client.Session{ShardID: shardID, ClientID: 1000 + shardID, SeriesID: client.NoOPSeriesID}
}

func (nh *NodeHost) local(shardID uint64) (*Replica, error) {
	if nh.closed {
		return nil, ErrClosed
	}
	r := nh.replicas[shardID]
	if r == nil || !r.running {
		return nil, ErrShardNotFound
	}
	if r.halted {
		return nil, ErrShardClosed
	}
	return r, nil
}

func (u *Universe) proposalFault(s *Shard) ProposalFault {
	s.nprop++
	if s.Key.ShardID <= u.FaultMinShard {
		return FaultNone
	}
	x := u.keyed("propfault", strHash(s.Key.String()), s.nprop) % 1000
	for _, f := range []struct {
		p uint64
		k ProposalFault
	}{{u.BusyPermille, FaultBusy}, {u.DropPermille, FaultDropped}, {u.TimeoutLostPermille, FaultTimeoutLost}, {u.TimeoutAppliedPermille, FaultTimeoutApplied}, {u.TimeoutLatePermille, FaultTimeoutLate}} {
		if x < f.p {
			return f.k
		}
		x -= f.p
	}
	return FaultNone
}

// SyncPropose makes a synchronous proposal: it completes when the proposing node's own replica
// has applied the entry.
func (nh *NodeHost) SyncPropose(ctx context.Context, session *client.Session, cmd []byte) (sm.Result, error) {
	u := nh.u
	if y := u.Yield; y != nil {
		y()
	}
	if g := u.Gate; g != nil && session != nil {
		g("propose", nh.addr, session.ShardID, cmd)
	}
	u.mu.Lock()
	defer u.mu.Unlock()
	if _, ok := ctx.Deadline(); !ok {
		return sm.Result{}, ErrDeadlineNotSet
	}
	if err := ctx.Err(); err != nil {
		return sm.Result{}, ErrTimeout
	}
	if session == nil {
		return sm.Result{}, ErrInvalidSession
	}
	r, err := nh.local(session.ShardID)
	if err != nil {
		return sm.Result{}, err
	}
	s := r.shard
	u.ensureLeaderLocked(s)
	if nh.partitioned || s.leader == 0 || !s.hasQuorum() {
		u.stat("proposal-no-leader")
		return sm.Result{}, ErrShardNotReady
	}
	pf := u.proposalFault(s)
	if u.OnEvent != nil {
		u.event("propose %s from %s len=%d fault=%d last=%d", s.Key, nh.addr, len(cmd), pf, s.last())
	}
	switch pf {
	case FaultBusy:
		u.stat("proposal-busy")
		return sm.Result{}, ErrSystemBusy
	case FaultDropped:
		u.stat("proposal-dropped")
		return sm.Result{}, ErrShardNotReady
	case FaultTimeoutLost:
		u.stat("proposal-timeout-lost")
		return sm.Result{}, ErrTimeout
	case FaultTimeoutLate:
		// slow apply: the entry is committed at its place in the log and the other replicas apply it, but
		// the proposing node's state machine is behind for a while (a long snapshot save, a compaction
		// stall), so the caller's deadline passes first. The replica applies, in log order, when the
		// keyed delay is over. Until then it behaves like a stalled replica (reads are stale, further
		// proposals time out the same way).
		u.stat("proposal-timeout-late")
		max := u.TimeoutLateMaxMs
		if max == 0 {
			max = 3000
		}
		d := time.Duration(1+u.keyed("latedelay", strHash(s.Key.String()), s.nprop)%max) * time.Millisecond
		s.entries = append(s.entries, newEntry(s, cmd))
		u.followersCatchUpLocked(s, r)
		if !r.Stalled {
			r.Stalled = true
			r.slowUntil++
			tok := r.slowUntil
			time.AfterFunc(d, func() {
				u.mu.Lock()
				defer u.mu.Unlock()
				if r.slowUntil != tok || !r.Stalled {
					return
				}
				r.Stalled = false
				u.stat("late-proposal-applied")
				u.event("slow replica %s r%d resumes", s.Key, r.ID)
				if r.up() && !r.Lagging {
					_ = u.applyLocked(r, s.last())
				}
			})
		}
		return sm.Result{}, ErrTimeout
	case FaultTimeoutApplied:
		u.stat("proposal-timeout-applied")
		e := newEntry(s, cmd)
		s.entries = append(s.entries, e)
		u.followersCatchUpLocked(s, nil)
		return sm.Result{}, ErrTimeout
	}
	e := newEntry(s, cmd)
	s.entries = append(s.entries, e)
	u.stat("proposal")
	if r.Stalled {
		// committed by the others, but this node never applies it: the caller times out
		u.followersCatchUpLocked(s, r)
		u.stat("proposal-on-stalled-replica")
		return sm.Result{}, ErrTimeout
	}
	r.wantResult = e.Index
	if err := u.applyLocked(r, e.Index); err != nil {
		r.wantResult = 0
		return sm.Result{}, err
	}
	res := r.results[e.Index]
	delete(r.results, e.Index)
	r.wantResult = 0
	u.followersCatchUpLocked(s, r)
	return res, nil
}

func newEntry(s *Shard, cmd []byte) pb.Entry {
	e := pb.Entry{Index: s.last() + 1, Term: s.term}
	if len(cmd) == 0 {
		e.Type = pb.ApplicationEntry
	} else {
		e.Type = pb.EncodedEntry
		e.Cmd = make([]byte, len(cmd)+1) // one-byte header: version 0, no compression
		copy(e.Cmd[1:], cmd)
	}
	return e
}

// SyncRead performs a linearizable read: everything committed at call time is applied locally first.
func (nh *NodeHost) SyncRead(ctx context.Context, shardID uint64, query interface{}) (interface{}, error) {
	u := nh.u
	if y := u.Yield; y != nil {
		y()
	}
	if g := u.Gate; g != nil {
		g("syncread", nh.addr, shardID, query)
	}
	u.mu.Lock()
	defer u.mu.Unlock()
	if _, ok := ctx.Deadline(); !ok {
		return nil, ErrDeadlineNotSet
	}
	if err := ctx.Err(); err != nil {
		return nil, ErrTimeout
	}
	r, err := nh.local(shardID)
	if err != nil {
		return nil, err
	}
	s := r.shard
	u.ensureLeaderLocked(s)
	if nh.partitioned || s.leader == 0 || !s.hasQuorum() {
		u.stat("read-no-leader")
		return nil, ErrShardNotReady
	}
	if r.Stalled {
		u.stat("read-on-stalled-replica")
		return nil, ErrTimeout
	}
	u.nreads++
	if u.ReadBusyPermille > 0 && s.Key.ShardID > u.FaultMinShard && u.keyed("readbusy", strHash(s.Key.String()), u.nreads)%1000 < u.ReadBusyPermille {
		u.stat("read-busy")
		return nil, ErrSystemBusy
	}
	if r.applied < s.last() {
		u.stat("linearizable-read-on-lagging-replica")
	}
	if err := u.applyLocked(r, s.last()); err != nil {
		return nil, err
	}
	return lookup(r, query)
}

func lookup(r *Replica, query interface{}) (res interface{}, err error) {
	if r.disk != nil {
		return r.disk.Lookup(query)
	}
	return r.conc.Lookup(query)
}

// StaleRead queries the local replica directly.
func (nh *NodeHost) StaleRead(shardID uint64, query interface{}) (interface{}, error) {
	u := nh.u
	if y := u.Yield; y != nil {
		y()
	}
	if g := u.Gate; g != nil {
		g("staleread", nh.addr, shardID, query)
	}
	if u.nested() {
		// called from inside a state machine callback the simulator itself is running: the lock is ours
		r, err := nh.local(shardID)
		if err != nil {
			return nil, err
		}
		return lookup(r, query)
	}
	u.mu.Lock()
	defer u.mu.Unlock()
	r, err := nh.local(shardID)
	if err != nil {
		return nil, err
	}
	return lookup(r, query)
}

// GetLeaderID returns the leader replica ID of the specified shard based on local information.
func (nh *NodeHost) GetLeaderID(shardID uint64) (uint64, uint64, bool, error) {
	u := nh.u
	u.mu.Lock()
	defer u.mu.Unlock()
	r, err := nh.local(shardID)
	if err != nil {
		return 0, 0, false, err
	}
	s := r.shard
	u.ensureLeaderLocked(s)
	if nh.partitioned {
		return 0, s.term, false, nil
	}
	return s.leader, s.term, s.leader != 0, nil
}

// GetLogReader returns a read-only view of the local replica's Raft log.
func (nh *NodeHost) GetLogReader(shardID uint64) (ReadonlyLogReader, error) {
	u := nh.u
	u.mu.Lock()
	defer u.mu.Unlock()
	if nh.closed {
		return nil, ErrLogDBNotCreatedOrClosed
	}
	r := nh.replicas[shardID]
	if r == nil || !r.running {
		return nil, ErrLogDBNotCreatedOrClosed
	}
	return &logReader{u: u, r: r}, nil
}

// logReader follows internal/logdb LogReader: GetRange = (marker+1, last); Entries errors for
// low <= marker (compacted) and high > last+1 (unavailable); entries until the cumulative size
// exceeds maxSize, dropping the last one if more than one (always at least one).
type logReader struct {
	u *Universe
	r *Replica
}

func (l *logReader) lastLocked() uint64 {
	// a lagging replica may not have persisted more than it applied; others hold the whole log
	if l.r.Lagging || l.r.Stalled {
		return l.r.applied
	}
	return l.r.shard.last()
}

func (l *logReader) GetRange() (uint64, uint64) {
	l.u.mu.Lock()
	defer l.u.mu.Unlock()
	return l.r.marker + 1, l.lastLocked()
}

func (l *logReader) NodeState() (pb.State, pb.Membership) {
	l.u.mu.Lock()
	defer l.u.mu.Unlock()
	m := pb.Membership{Addresses: map[uint64]string{}, ConfigChangeId: l.r.ccIndex}
	for k, v := range l.r.shard.members {
		m.Addresses[k] = v
	}
	return pb.State{Term: l.r.shard.term, Commit: l.r.shard.last()}, m
}

func (l *logReader) Term(index uint64) (uint64, error) {
	l.u.mu.Lock()
	defer l.u.mu.Unlock()
	if index < l.r.marker {
		return 0, ErrCompacted
	}
	if index > l.lastLocked() || index == 0 {
		return 0, ErrUnavailable
	}
	return l.r.shard.entries[index-1].Term, nil
}

func (l *logReader) Snapshot() pb.Snapshot { return pb.Snapshot{} }

func (l *logReader) Entries(low uint64, high uint64, maxSize uint64) ([]pb.Entry, error) {
	l.u.mu.Lock()
	defer l.u.mu.Unlock()
	if low > high {
		return nil, fmt.Errorf("high (%d) < low (%d)", high, low)
	}
	if low <= l.r.marker {
		return nil, ErrCompacted
	}
	if high > l.lastLocked()+1 {
		return nil, ErrUnavailable
	}
	var out []pb.Entry
	size := uint64(0)
	for i := low; i < high; i++ {
		e := l.r.shard.entries[i-1]
		e.Cmd = append([]byte(nil), e.Cmd...)
		out = append(out, e)
		size += uint64(e.SizeUpperLimit())
		if size > maxSize {
			break
		}
	}
	if size > maxSize && len(out) > 1 {
		out = out[:len(out)-1]
	}
	return out, nil
}
