// Copyright 2017-2019 Lei Ni (nilei81@gmail.com) and other contributors.
//
// Licensed under the Apache License, Version 2.0 (the "License");
// you may not use this file except in compliance with the License.
// You may obtain a copy of the License at
//
//     http://www.apache.org/licenses/LICENSE-2.0
//
// Unless required by applicable law or agreed to in writing, software
// distributed under the License is distributed on an "AS IS" BASIS,
// WITHOUT WARRANTIES OR CONDITIONS OF ANY KIND, either express or implied.
// See the License for the specific language governing permissions and
// limitations under the License.

package raftio

const (
	// LogDBBinVersion is the current logdb binary compatibility version
	// implemented in Dragonboat.
	// For v1.4  BinVersion = 100
	//     v2.0  BinVersion = 210
	LogDBBinVersion uint32 = 210
	// PlainLogDBBinVersion is the logdb binary compatibility version value when
	// plain entries are used in ILogDB.
	PlainLogDBBinVersion uint32 = 100
	// TransportBinVersion is the transport binary compatibility version implemented in
	// Dragonboat.
	// For v1.4  TransportBinLog = 100
	//     v2.0  TransportBinLog = 210
	TransportBinVersion uint32 = 210
)
