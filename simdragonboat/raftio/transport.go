// Copyright 2017-2021 Lei Ni (nilei81@gmail.com) and other contributors.
//
// Licensed under the Apache License, Version 2.0 (the "License");
// you may not use this file except in compliance with the License.
// You may obtain a copy of the License at
//
//     http://www.apache.org/licenses/LICENSE-2.0
//
// Unless required by applicable law or agreed to in writing, software
// distributed under the License is distributed on an "AS IS" BASIS,
// WITHOUT WARRANTIES OR CONDITIONS OF ANY KIND, either express or implied.
// See the License for the specific language governing permissions and
// limitations under the License.

/*
Package raftio contains structs, interfaces and function definitions required
to build custom persistent Raft log storage and transport modules.

Structs, interfaces and functions defined in the raftio package are only
required when building your custom persistent Raft log storage or transport
modules. Skip this package if you plan to use the default built-in LogDB and
transport modules provided by Dragonboat.

Structs, interfaces and functions defined in the raftio package are not
considered as a part of Dragonboat's public APIs. Breaking changes might
happen in the coming minor releases.
*/
package raftio

import (
	"context"

	pb "github.com/lni/dragonboat/v4/raftpb"
)

// MessageHandler is the handler function type for handling received message
// batches. Received message batches should be passed to the message handler to
// be processed.
type MessageHandler func(pb.MessageBatch)

// ChunkHandler is the handler function type for handling received snapshot
// chunks. It adds the new snapshot chunk to the snapshot chunk sink. Chunks
// from the same snapshot are combined into the snapshot image and then
// be passed to dragonboat.
//
// ChunkHandler returns a boolean value indicating whether the snapshot
// connection is still valid for accepting future snapshot chunks.
type ChunkHandler func(pb.Chunk) bool

// IConnection is the interface used by the transport module for sending Raft
// messages. Each IConnection works for a specified target NodeHost instance,
// it is possible for a target to have multiple concurrent IConnection
// instances in use.
type IConnection interface {
	// Close closes the IConnection instance.
	Close()
	// SendMessageBatch sends the specified message batch to the target. It is
	// recommended to deliver the message batch to the target in order to enjoy
	// the best possible performance, but out of order delivery is allowed at the
	// cost of reduced performance.
	SendMessageBatch(batch pb.MessageBatch) error
}

// ISnapshotConnection is the interface used by the transport module for sending
// snapshot chunks. Each ISnapshotConnection works for a specified target
// NodeHost instance.
type ISnapshotConnection interface {
	// Close closes the ISnapshotConnection instance.
	Close()
	// SendChunk sends the snapshot chunk to the target. It is
	// recommended to have the snapshot chunk delivered in order for the best
	// performance, but out of order delivery is allowed at the cost of reduced
	// performance.
	SendChunk(chunk pb.Chunk) error
}

// ITransport is the interface to be implemented by a customized transport
// module. A transport module is responsible for exchanging Raft messages,
// snapshots and other metadata between NodeHost instances.
type ITransport interface {
	// Name returns the type name of the ITransport instance.
	Name() string
	// Start launches the transport module and make it ready to start sending and
	// receiving Raft messages. If necessary, ITransport may take this opportunity
	// to start listening for incoming data.
	Start() error
	// Close closes the transport module.
	Close() error
	// GetConnection returns an IConnection instance used for sending messages
	// to the specified target NodeHost instance.
	GetConnection(ctx context.Context, target string) (IConnection, error)
	// GetSnapshotConnection returns an ISnapshotConnection instance used for
	// sending snapshot chunks to the specified target NodeHost instance.
	GetSnapshotConnection(ctx context.Context,
		target string) (ISnapshotConnection, error)
}
