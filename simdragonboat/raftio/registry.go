// Copyright 2017-2021 Lei Ni (nilei81@gmail.com) and other contributors.
//
// Licensed under the Apache License, Version 2.0 (the "License");
// you may not use this file except in compliance with the License.
// You may obtain a copy of the License at
//
//     http://www.apache.org/licenses/LICENSE-2.0
//
// Unless required by applicable law or agreed to in writing, software
// distributed under the License is distributed on an "AS IS" BASIS,
// WITHOUT WARRANTIES OR CONDITIONS OF ANY KIND, either express or implied.
// See the License for the specific language governing permissions and
// limitations under the License.

/*
Package raftio contains structs, interfaces and function definitions required
to build custom persistent Raft log storage and transport modules.

Structs, interfaces and functions defined in the raftio package are only
required when building your custom persistent Raft log storage or transport
modules. Skip this package if you plan to use the default built-in LogDB and
transport modules provided by Dragonboat.

Structs, interfaces and functions defined in the raftio package are not
considered as a part of Dragonboat's public APIs. Breaking changes might
happen in the coming minor releases.
*/
package raftio

// INodeRegistry is the registry interface used to resolve all known
// NodeHosts and their shards and replicas in the system.
type INodeRegistry interface {
	Close() error
	Add(shardID uint64, replicaID uint64, url string)
	Remove(shardID uint64, replicaID uint64)
	RemoveShard(shardID uint64)
	Resolve(shardID uint64, replicaID uint64) (string, string, error)
}
