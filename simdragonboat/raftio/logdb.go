// Copyright 2017-2021 Lei Ni (nilei81@gmail.com) and other contributors.
//
// Licensed under the Apache License, Version 2.0 (the "License");
// you may not use this file except in compliance with the License.
// You may obtain a copy of the License at
//
//     http://www.apache.org/licenses/LICENSE-2.0
//
// Unless required by applicable law or agreed to in writing, software
// distributed under the License is distributed on an "AS IS" BASIS,
// WITHOUT WARRANTIES OR CONDITIONS OF ANY KIND, either express or implied.
// See the License for the specific language governing permissions and
// limitations under the License.

package raftio

import (
	"github.com/cockroachdb/errors"

	pb "github.com/lni/dragonboat/v4/raftpb"
)

var (
	// ErrNoSavedLog indicates no saved log.
	ErrNoSavedLog = errors.New("no saved log")
	// ErrNoBootstrapInfo indicates that there is no saved bootstrap info.
	ErrNoBootstrapInfo = errors.New("no bootstrap info")
)

// Metrics is the metrics of the LogDB.
type Metrics struct {
	// Busy indicates whether the LogDB is busy and not suitable for saving new
	// data into the store.
	Busy bool
}

// NodeInfo is used to identify a Raft node.
type NodeInfo struct {
	ShardID   uint64
	ReplicaID uint64
}

// RaftState is the persistent Raft state found in the Log DB.
type RaftState struct {
	// State is the Raft state persistent to the disk
	State pb.State
	// FirstIndex is the index of the first entry to iterate
	FirstIndex uint64
	// EntryCount is the number of entries to iterate
	EntryCount uint64
}

// GetNodeInfo returns a NodeInfo instance with the specified shard ID
// and replica ID.
func GetNodeInfo(shardID uint64, replicaID uint64) NodeInfo {
	return NodeInfo{ShardID: shardID, ReplicaID: replicaID}
}

// ILogDB is the interface implemented by the log DB for persistently store
// Raft states, log entries and other Raft metadata.
type ILogDB interface {
	// Name returns the type name of the ILogDB instance.
	Name() string
	// Close closes the ILogDB instance.
	Close() error
	// BinaryFormat returns an constant uint32 value representing the binary
	// format version compatible with the ILogDB instance.
	BinaryFormat() uint32
	// ListNodeInfo lists all available NodeInfo found in the log DB.
	ListNodeInfo() ([]NodeInfo, error)
	// SaveBootstrapInfo saves the specified bootstrap info to the log DB.
	SaveBootstrapInfo(shardID uint64,
		replicaID uint64, bootstrap pb.Bootstrap) error
	// GetBootstrapInfo returns saved bootstrap info from log DB. It returns
	// ErrNoBootstrapInfo when there is no previously saved bootstrap info for
	// the specified node.
	GetBootstrapInfo(shardID uint64, replicaID uint64) (pb.Bootstrap, error)
	// SaveRaftState atomically saves the Raft states, log entries and snapshots
	// metadata found in the pb.Update list to the log DB. shardID is a 1-based
	// ID of the worker invoking the SaveRaftState method, as each worker
	// accesses the log DB from its own thread, SaveRaftState will never be
	// concurrently called with the same shardID.
	SaveRaftState(updates []pb.Update, shardID uint64) error
	// IterateEntries returns the continuous Raft log entries of the specified
	// Raft node between the index value range of [low, high) up to a max size
	// limit of maxSize bytes. It returns the located log entries, their total
	// size in bytes and the occurred error.
	IterateEntries(ents []pb.Entry,
		size uint64, shardID uint64, replicaID uint64, low uint64,
		high uint64, maxSize uint64) ([]pb.Entry, uint64, error)
	// ReadRaftState returns the persistented raft state found in Log DB.
	ReadRaftState(shardID uint64,
		replicaID uint64, lastIndex uint64) (RaftState, error)
	// RemoveEntriesTo removes entries with indexes between (0, index].
	RemoveEntriesTo(shardID uint64, replicaID uint64, index uint64) error
	// CompactEntriesTo reclaims underlying storage space used for storing
	// entries up to the specified index.
	CompactEntriesTo(shardID uint64,
		replicaID uint64, index uint64) (<-chan struct{}, error)
	// SaveSnapshots saves all snapshot metadata found in the pb.Update list.
	SaveSnapshots([]pb.Update) error
	// GetSnapshot returns the most recent snapshot associated with the specified
	// shard.
	GetSnapshot(shardID uint64, replicaID uint64) (pb.Snapshot, error)
	// RemoveNodeData removes all data associated with the specified node.
	RemoveNodeData(shardID uint64, replicaID uint64) error
	// ImportSnapshot imports the specified snapshot by creating all required
	// metadata in the logdb.
	ImportSnapshot(snapshot pb.Snapshot, replicaID uint64) error
}
