// Copyright 2017-2021 Lei Ni (nilei81@gmail.com) and other contributors.
//
// Licensed under the Apache License, Version 2.0 (the "License");
// you may not use this file except in compliance with the License.
// You may obtain a copy of the License at
//
//     http://www.apache.org/licenses/LICENSE-2.0
//
// Unless required by applicable law or agreed to in writing, software
// distributed under the License is distributed on an "AS IS" BASIS,
// WITHOUT WARRANTIES OR CONDITIONS OF ANY KIND, either express or implied.
// See the License for the specific language governing permissions and
// limitations under the License.

package raftio

const (
	// NoLeader is a special leader ID value to indicate that there is currently
	// no leader or leader ID is unknown.
	NoLeader uint64 = 0
)

// LeaderInfo contains info on Raft leader.
type LeaderInfo struct {
	ShardID   uint64
	ReplicaID uint64
	Term      uint64
	LeaderID  uint64
}

// IRaftEventListener is the interface to allow users to get notified for
// certain Raft events.
type IRaftEventListener interface {
	LeaderUpdated(info LeaderInfo)
}

// EntryInfo contains info on log entries.
type EntryInfo struct {
	ShardID   uint64
	ReplicaID uint64
	Index     uint64
}

// SnapshotInfo contains info of the snapshot.
type SnapshotInfo struct {
	ShardID   uint64
	ReplicaID uint64
	From      uint64
	Index     uint64
}

// ConnectionInfo contains info of the connection.
type ConnectionInfo struct {
	Address            string
	SnapshotConnection bool
}

// ISystemEventListener is the system event listener used by the NodeHost.
type ISystemEventListener interface {
	NodeHostShuttingDown()
	NodeUnloaded(info NodeInfo)
	NodeDeleted(info NodeInfo)
	NodeReady(info NodeInfo)
	MembershipChanged(info NodeInfo)
	ConnectionEstablished(info ConnectionInfo)
	ConnectionFailed(info ConnectionInfo)
	SendSnapshotStarted(info SnapshotInfo)
	SendSnapshotCompleted(info SnapshotInfo)
	SendSnapshotAborted(info SnapshotInfo)
	SnapshotReceived(info SnapshotInfo)
	SnapshotRecovered(info SnapshotInfo)
	SnapshotCreated(info SnapshotInfo)
	SnapshotCompacted(info SnapshotInfo)
	LogCompacted(info EntryInfo)
	LogDBCompacted(info EntryInfo)
}
