// Copyright 2017-2020 Lei Ni (nilei81@gmail.com) and other contributors.
//
// Licensed under the Apache License, Version 2.0 (the "License");
// you may not use this file except in compliance with the License.
// You may obtain a copy of the License at
//
//     http://www.apache.org/licenses/LICENSE-2.0
//
// Unless required by applicable law or agreed to in writing, software
// distributed under the License is distributed on an "AS IS" BASIS,
// WITHOUT WARRANTIES OR CONDITIONS OF ANY KIND, either express or implied.
// See the License for the specific language governing permissions and
// limitations under the License.

/*
Package config contains functions and types used for managing dragonboat's
configurations.
*/
package config

import (
	"crypto/tls"
	"net"
	"path/filepath"
	"reflect"
	"strconv"
	"time"

	"github.com/cockroachdb/errors"
	"github.com/lni/goutils/netutil"
	"github.com/lni/goutils/stringutil"

	"github.com/lni/dragonboat/v4/internal/fileutil"
	"github.com/lni/dragonboat/v4/internal/id"
	"github.com/lni/dragonboat/v4/internal/settings"
	"github.com/lni/dragonboat/v4/internal/vfs"
	"github.com/lni/dragonboat/v4/logger"
	"github.com/lni/dragonboat/v4/raftio"
	pb "github.com/lni/dragonboat/v4/raftpb"
)

var (
	plog = logger.GetLogger("config")
)

const (
	// don't change these, see the comments on ExpertConfig.
	defaultExecShards  uint64 = 16
	defaultLogDBShards uint64 = 16
)

// CompressionType is the type of the compression.
type CompressionType = pb.CompressionType

const (
	// NoCompression is the CompressionType value used to indicate not to use
	// any compression.
	NoCompression CompressionType = pb.NoCompression
	// Snappy is the CompressionType value used to indicate that google snappy
	// is used for data compression.
	Snappy CompressionType = pb.Snappy
)

// Config is used to configure Raft nodes.
type Config struct {
	// ReplicaID is a non-zero value used to identify a node within a Raft shard.
	ReplicaID uint64
	// ShardID is the unique value used to identify a Raft group that contains
	// multiple replicas.
	ShardID uint64
	// CheckQuorum specifies whether the leader node should periodically check
	// non-leader node status and step down to become a follower node when it no
	// longer has the quorum.
	CheckQuorum bool
	// Whether to use PreVote for this node. PreVote is described in the section
	// 9.7 of the raft thesis.
	PreVote bool
	// ElectionRTT is the minimum number of message RTT between elections. Message
	// RTT is defined by NodeHostConfig.RTTMillisecond. The Raft paper suggests it
	// to be a magnitude greater than HeartbeatRTT, which is the interval between
	// two heartbeats. In Raft, the actual interval between elections is
	// randomized to be between ElectionRTT and 2 * ElectionRTT.
	//
	// As an example, assuming NodeHostConfig.RTTMillisecond is 100 millisecond,
	// to set the election interval to be 1 second, then ElectionRTT should be set
	// to 10.
	//
	// When CheckQuorum is enabled, ElectionRTT also defines the interval for
	// checking leader quorum.
	ElectionRTT uint64
	// HeartbeatRTT is the number of message RTT between heartbeats. Message
	// RTT is defined by NodeHostConfig.RTTMillisecond. The Raft paper suggest the
	// heartbeat interval to be close to the average RTT between nodes.
	//
	// As an example, assuming NodeHostConfig.RTTMillisecond is 100 millisecond,
	// to set the heartbeat interval to be every 200 milliseconds, then
	// HeartbeatRTT should be set to 2.
	HeartbeatRTT uint64
	// SnapshotEntries defines how often the state machine should be snapshotted
	// automatically. It is defined in terms of the number of applied Raft log
	// entries. SnapshotEntries can be set to 0 to disable such automatic
	// snapshotting.
	//
	// When SnapshotEntries is set to N, it means a snapshot is created for
	// roughly every N applied Raft log entries (proposals). This also implies
	// that sending N log entries to a follower is more expensive than sending a
	// snapshot.
	//
	// Once a snapshot is generated, Raft log entries covered by the new snapshot
	// can be compacted. This involves two steps, redundant log entries are first
	// marked as deleted, then they are physically removed from the underlying
	// storage when a LogDB compaction is issued at a later stage. See the godoc
	// on CompactionOverhead for details on what log entries are actually removed
	// and compacted after generating a snapshot.
	//
	// Once automatic snapshotting is disabled by setting the SnapshotEntries
	// field to 0, users can still use NodeHost's RequestSnapshot or
	// SyncRequestSnapshot methods to manually request snapshots.
	SnapshotEntries uint64
	// CompactionOverhead defines the number of most recent entries to keep after
	// each Raft log compaction. Raft log compaction is performed automatically
	// every time a snapshot is created.
	//
	// For example, when a snapshot is created at let's say index 10,000, then all
	// Raft log entries with index <= 10,000 can be removed from that node as they
	// have already been covered by the created snapshot image. This frees up the
	// maximum storage space but comes at the cost that the full snapshot will
	// have to be sent to the follower if the follower requires any Raft log entry
	// at index <= 10,000. When CompactionOverhead is set to say 500, Dragonboat
	// then compacts the Raft log up to index 9,500 and keeps Raft log entries
	// between index (9,500, 10,000]. As a result, the node can still replicate
	// Raft log entries between index (9,500, 10,000] to other peers and only fall
	// back to stream the full snapshot if any Raft log entry with index <= 9,500
	// is required to be replicated.
	CompactionOverhead uint64
	// OrderedConfigChange determines whether Raft membership change is enforced
	// with ordered config change ID.
	//
	// When set to true, ConfigChangeIndex is required for membership change
	// requests. This behaves like an optimistic write lock forcing clients to
	// linearize membership change requests explicitly. (recommended)
	//
	// When set to false (default), ConfigChangeIndex is ignored for membership
	// change requests. This may cause a client to request a membership change
	// based on stale membership data.
	OrderedConfigChange bool
	// MaxInMemLogSize is the target size in bytes allowed for storing in memory
	// Raft logs on each Raft node. In memory Raft logs are the ones that have
	// not been applied yet.
	// MaxInMemLogSize is a target value implemented to prevent unbounded memory
	// growth, it is not for precisely limiting the exact memory usage.
	// When MaxInMemLogSize is 0, the target is set to math.MaxUint64. When
	// MaxInMemLogSize is set and the target is reached, error will be returned
	// when clients try to make new proposals.
	// MaxInMemLogSize is recommended to be significantly larger than the biggest
	// proposal you are going to use.
	MaxInMemLogSize uint64
	// SnapshotCompressionType is the compression type to use for compressing
	// generated snapshot data. No compression is used by default.
	SnapshotCompressionType CompressionType
	// EntryCompressionType is the compression type to use for compressing the
	// payload of user proposals. When Snappy is used, the maximum proposal
	// payload allowed is roughly limited to 3.42GBytes. No compression is used
	// by default.
	EntryCompressionType CompressionType
	// DisableAutoCompactions disables auto compaction used for reclaiming Raft
	// log entry storage spaces. By default, compaction request is issued every
	// time when a snapshot is created, this helps to reclaim disk spaces as
	// soon as possible at the cost of immediate higher IO overhead. Users can
	// disable such auto compactions and use NodeHost.RequestCompaction to
	// manually request such compactions when necessary.
	DisableAutoCompactions bool
	// IsNonVoting indicates whether this is a non-voting Raft node. Described as
	// non-voting members in the section 4.2.1 of Diego Ongaro's thesis, they are
	// used to allow a new node to join the shard and catch up with other
	// existing ndoes without impacting the availability. Extra non-voting nodes
	// can also be introduced to serve read-only requests.
	IsNonVoting bool
	// IsObserver indicates whether this is a non-voting Raft node without voting
	// power.
	//
	// Deprecated: use IsNonVoting instead.
	IsObserver bool
	// IsWitness indicates whether this is a witness Raft node without actual log
	// replication and do not have state machine. It is mentioned in the section
	// 11.7.2 of Diego Ongaro's thesis.
	//
	// Witness support is currently experimental.
	IsWitness bool
	// Quiesce specifies whether to let the Raft shard enter quiesce mode when
	// there is no shard activity. Shards in quiesce mode do not exchange
	// heartbeat messages to minimize bandwidth consumption.
	//
	// Quiesce support is currently experimental.
	Quiesce bool
	// WaitReady specifies whether to wait for the node to transition
	// from recovering to ready state before returning from StartReplica.
	WaitReady bool
}

// Validate validates the Config instance and return an error when any member
// field is considered as invalid.
func (c *Config) Validate() error {
	if c.ReplicaID == 0 {
		return errors.New("invalid ReplicaID, it must be >= 1")
	}
	if c.HeartbeatRTT == 0 {
		return errors.New("HeartbeatRTT must be > 0")
	}
	if c.ElectionRTT == 0 {
		return errors.New("ElectionRTT must be > 0")
	}
	if c.ElectionRTT <= 2*c.HeartbeatRTT {
		return errors.New("invalid election rtt")
	}
	if c.ElectionRTT < 10*c.HeartbeatRTT {
		plog.Warningf("ElectionRTT is not a magnitude larger than HeartbeatRTT")
	}
	if c.MaxInMemLogSize > 0 &&
		c.MaxInMemLogSize < settings.EntryNonCmdFieldsSize+1 {
		return errors.New("MaxInMemLogSize is too small")
	}
	if c.SnapshotCompressionType != Snappy &&
		c.SnapshotCompressionType != NoCompression {
		return errors.New("unknown compression type")
	}
	if c.EntryCompressionType != Snappy &&
		c.EntryCompressionType != NoCompression {
		return errors.New("unknown compression type")
	}
	if c.IsWitness && c.SnapshotEntries > 0 {
		return errors.New("witness node can not take snapshot")
	}
	if c.IsObserver {
		c.IsNonVoting = true
	}
	if c.IsWitness && c.IsNonVoting {
		return errors.New("witness node can not be a non-voting node")
	}
	return nil
}

// NodeHostConfig is the configuration used to configure NodeHost instances.
type NodeHostConfig struct {
	// DeploymentID is used to determine whether two NodeHost instances belong to
	// the same deployment and thus allowed to communicate with each other. This
	// helps to prvent accidentially misconfigured NodeHost instances to cause
	// data corruption errors by sending out of context messages to unrelated
	// Raft nodes.
	// For a particular dragonboat based application, you can set DeploymentID
	// to the same uint64 value on all production NodeHost instances, then use
	// different DeploymentID values on your staging and dev environment. It is
	// also recommended to use different DeploymentID values for different
	// dragonboat based applications.
	// When not set, the default value 0 will be used as the deployment ID and
	// thus allowing all NodeHost instances with deployment ID 0 to communicate
	// with each other.
	DeploymentID uint64
	// NodeHostID specifies what NodeHostID to use. By default, when NodeHostID
	// is empty, a random UUID will be generated and recorded by the system.
	// Specifying a concrete NodeHostID here will cause the specified NodeHostID
	// value to be used. NodeHostID is only used when DefaultNodeRegistryEnabled is
	// set to true.
	NodeHostID string
	// WALDir is the directory used for storing the WAL of Raft entries. It is
	// recommended to use low latency storage such as NVME SSD with power loss
	// protection to store such WAL data. Leave WALDir to have zero value will
	// have everything stored in NodeHostDir.
	WALDir string
	// NodeHostDir is where everything else is stored.
	NodeHostDir string
	// RTTMillisecond defines the average Round Trip Time (RTT) in milliseconds
	// between two NodeHost instances. Such a RTT interval is internally used as
	// a logical clock tick, Raft heartbeat and election intervals are both
	// defined in terms of how many such logical clock ticks (RTT intervals).
	// Note that RTTMillisecond is the combined delays between two NodeHost
	// instances including all delays caused by network transmission, delays
	// caused by NodeHost queuing and processing. As an example, when fully
	// loaded, the average Round Trip Time between two of our NodeHost instances
	// used for benchmarking purposes is up to 500 microseconds when the ping time
	// between them is 100 microseconds. Set RTTMillisecond to 1 when it is less
	// than 1 million in your environment.
	RTTMillisecond uint64
	// RaftAddress is a DNS name:port or IP:port address used by the transport
	// module for exchanging Raft messages, snapshots and metadata between
	// NodeHost instances. It should be set to the public address that can be
	// accessed from remote NodeHost instances.
	//
	// When the NodeHostConfig.ListenAddress field is empty, NodeHost listens on
	// RaftAddress for incoming Raft messages. When hostname or domain name is
	// used, it will be resolved to IPv4 addresses first and Dragonboat listens
	// to all resolved IPv4 addresses.
	//
	// By default, the RaftAddress value is not allowed to change between NodeHost
	// restarts. DefaultNodeRegistryEnabled should be set to true when the RaftAddress
	// value might change after restart.
	RaftAddress string
	// DefaultNodeRegistryEnabled indicates that NodeHost instances should be addressed
	// by their NodeHostID values. This feature is usually used when only dynamic
	// addresses are available. When enabled, NodeHostID values should be used
	// as the target parameter when calling NodeHost's StartReplica,
	// RequestAddReplica, RequestAddNonVoting and RequestAddWitness methods.
	//
	// Enabling DefaultNodeRegistryEnabled also enables the internal gossip service,
	// NodeHostConfig.Gossip must be configured to control the behaviors of the
	// gossip service.
	//
	// Note that once enabled, the DefaultNodeRegistryEnabled setting can not be later
	// disabled after restarts.
	//
	// Please see the godocs of the NodeHostConfig.Gossip field for a detailed
	// example on how DefaultNodeRegistryEnabled and gossip works.
	DefaultNodeRegistryEnabled bool
	// ListenAddress is an optional field in the hostname:port or IP:port address
	// form used by the transport module to listen on for Raft message and
	// snapshots. When the ListenAddress field is not set, The transport module
	// listens on RaftAddress. If 0.0.0.0 is specified as the IP of the
	// ListenAddress, Dragonboat listens to the specified port on all network
	// interfaces. When hostname or domain name is used, it will be resolved to
	// IPv4 addresses first and Dragonboat listens to all resolved IPv4 addresses.
	ListenAddress string
	// MutualTLS defines whether to use mutual TLS for authenticating servers
	// and clients. Insecure communication is used when MutualTLS is set to
	// False.
	// See https://github.com/lni/dragonboat/wiki/TLS-in-Dragonboat for more
	// details on how to use Mutual TLS.
	MutualTLS bool
	// CAFile is the path of the CA certificate file. This field is ignored when
	// MutualTLS is false.
	CAFile string
	// CertFile is the path of the node certificate file. This field is ignored
	// when MutualTLS is false.
	CertFile string
	// KeyFile is the path of the node key file. This field is ignored when
	// MutualTLS is false.
	KeyFile string
	// LogDBFactory is the factory function used for creating the Log DB instance
	// used by NodeHost. The default zero value causes the default built-in RocksDB
	// based Log DB implementation to be used.
	//
	// Deprecated: Use NodeHostConfig.Expert.LogDBFactory instead.
	LogDBFactory LogDBFactoryFunc
	// RaftRPCFactory is the factory function used for creating the transport
	// instance for exchanging Raft message between NodeHost instances. The default
	// zero value causes the built-in TCP based transport to be used.
	//
	// Deprecated: Use NodeHostConfig.Expert.TransportFactory instead.
	RaftRPCFactory RaftRPCFactoryFunc
	// EnableMetrics determines whether health metrics in Prometheus format should
	// be enabled.
	EnableMetrics bool
	// RaftEventListener is the listener for Raft events, such as Raft leadership
	// change, exposed to user space. NodeHost uses a single dedicated goroutine
	// to invoke all RaftEventListener methods one by one, CPU intensive or IO
	// related procedures that can cause long delays should be offloaded to worker
	// goroutines managed by users. See the raftio.IRaftEventListener definition
	// for more details.
	RaftEventListener raftio.IRaftEventListener
	// SystemEventsListener allows users to be notified for system events such
	// as snapshot creation, log compaction and snapshot streaming. It is usually
	// used for testing purposes or for other advanced usages, Dragonboat
	// applications are not required to explicitly set this field.
	SystemEventListener raftio.ISystemEventListener
	// MaxSendQueueSize is the maximum size in bytes of each send queue.
	// Once the maximum size is reached, further replication messages will be
	// dropped to restrict memory usage. When set to 0, it means the send queue
	// size is unlimited.
	MaxSendQueueSize uint64
	// MaxReceiveQueueSize is the maximum size in bytes of each receive queue.
	// Once the maximum size is reached, further replication messages will be
	// dropped to restrict memory usage. When set to 0, it means the queue size
	// is unlimited.
	MaxReceiveQueueSize uint64
	// NotifyCommit specifies whether clients should be notified when their
	// regular proposals and config change requests are committed. By default,
	// commits are not notified, clients are only notified when their proposals
	// are both committed and applied.
	NotifyCommit bool
	// Gossip contains configurations for the gossip service. When the
	// DefaultNodeRegistryEnabled field is set to true, each NodeHost instance will use
	// an internal gossip service to exchange knowledges of known NodeHost
	// instances including their RaftAddress and NodeHostID values. This Gossip
	// field contains configurations that controls how the gossip service works.
	//
	// As an detailed example on how to use the gossip service in the situation
	// where all available machines have dynamically assigned IPs on reboot -
	//
	// Consider that there are three NodeHost instances on three machines, each
	// of them has a dynamically assigned IP address which will change on reboot.
	// NodeHostConfig.RaftAddress should be set to the current address that can be
	// reached by remote NodeHost instance. In this example, we will assume they
	// are
	//
	// 10.0.0.100:24000
	// 10.0.0.200:24000
	// 10.0.0.300:24000
	//
	// To use these machines, first enable the NodeHostConfig.DefaultNodeRegistryEnabled
	// field and start the NodeHost instances. The NodeHostID value of each
	// NodeHost instance can be obtained by calling NodeHost.ID(). Let's say they
	// are
	//
	// "nhid-xxxxx",
	// "nhid-yyyyy",
	// "nhid-zzzzz".
	//
	// All these NodeHostID are fixed, they will never change after reboots.
	//
	// When starting Raft nodes or requesting new nodes to be added, use the above
	// mentioned NodeHostID values as the target parameters (which are of the
	// Target type). Let's say we want to start a Raft Node as a part of a three
	// replica Raft shard, the initialMembers parameter of the StartReplica
	// method can be set to
	//
	// initialMembers := map[uint64]Target {
	// 	 1: "nhid-xxxxx",
	//   2: "nhid-yyyyy",
	//   3: "nhid-zzzzz",
	// }
	//
	// This indicates that node 1 of the shard will be running on the NodeHost
	// instance identified by the NodeHostID value "nhid-xxxxx", node 2 of the
	// same shard will be running on the NodeHost instance identified by the
	// NodeHostID value of "nhid-yyyyy" and so on.
	//
	// The internal gossip service exchanges NodeHost details, including their
	// NodeHostID and RaftAddress values, with all other known NodeHost instances.
	// Thanks to the nature of gossip, it will eventually allow each NodeHost
	// instance to be aware of the current details of all NodeHost instances.
	// As a result, let's say when Raft node 1 wants to send a Raft message to
	// node 2, it first figures out that node 2 is running on the NodeHost
	// identified by the NodeHostID value "nhid-yyyyy", RaftAddress information
	// from the gossip service further shows that "nhid-yyyyy" maps to a machine
	// currently reachable at 10.0.0.200:24000. Raft messages can thus be
	// delivered.
	//
	// The Gossip field here is used to configure how the gossip service works.
	// In this example, let's say we choose to use the following configurations
	// for those three NodeHost instaces.
	//
	// GossipConfig {
	//   BindAddress: "10.0.0.100:24001",
	//   Seed: []string{10.0.0.200:24001},
	// }
	//
	// GossipConfig {
	//   BindAddress: "10.0.0.200:24001",
	//   Seed: []string{10.0.0.300:24001},
	// }
	//
	// GossipConfig {
	//   BindAddress: "10.0.0.300:24001",
	//   Seed: []string{10.0.0.100:24001},
	// }
	//
	// For those three machines, the gossip component listens on
	// "10.0.0.100:24001", "10.0.0.200:24001" and "10.0.0.300:24001" respectively
	// for incoming gossip messages. The Seed field is a list of known gossip end
	// points the local gossip service will try to talk to. The Seed field doesn't
	// need to include all gossip end points, a few well connected nodes in the
	// gossip network is enough.
	//
	// Alternatively, if you wish to use a custom registry but manage it yourself,
	// the Expert.NodeRegistryFactory field can be set to provide a registry that
	// implements the raftio.INodeRegistry interface. A registry is simply a common
	// channel shared between all nodes that allows them to identify each other.
	Gossip GossipConfig

	// Expert contains options for expert users who are familiar with the internals
	// of Dragonboat. Users are recommended not to use this field unless
	// absolutely necessary. It is important to note that any change to this field
	// may cause an existing instance unable to restart, it may also cause negative
	// performance impacts.
	Expert ExpertConfig
}

// IFS is the filesystem interface used by tests.
type IFS = vfs.IFS

// TargetValidator is the validtor used to validate user specified target values.
type TargetValidator func(string) bool

// RaftAddressValidator is the validator used to validate user specified
// RaftAddress values.
type RaftAddressValidator func(string) bool

// LogDBFactory is the interface used for creating custom logdb modules.
type LogDBFactory interface {
	// Create creates a logdb module.
	Create(NodeHostConfig,
		LogDBCallback, []string, []string) (raftio.ILogDB, error)
	// Name returns the type name of the logdb module.
	Name() string
}

// NodeRegistryFactory is the interface used for providing a custom node registry.
// For a short example of how to implement a custom node registry, please see
// TestExternalNodeRegistryFunction in nodehost_test.go.
type NodeRegistryFactory interface {
	Create(nhid string, streamConnections uint64, v TargetValidator) (raftio.INodeRegistry, error)
}

// TransportFactory is the interface used for creating custom transport modules.
type TransportFactory interface {
	// Create creates a transport module.
	Create(NodeHostConfig,
		raftio.MessageHandler, raftio.ChunkHandler) raftio.ITransport
	// Validate validates the RaftAddress of the NodeHost. When using a custom
	// transport module, users are granted full control on what address type to
	// use for the NodeHostConfig.RaftAddress field, it can be of the traditional
	// IP:Port format or any other form. The Validate method is used to validate
	// that a received address is of the valid form.
	Validate(string) bool
}

// LogDBInfo is the info provided when LogDBCallback is invoked.
type LogDBInfo struct {
	Shard uint64
	Busy  bool
}

// LogDBCallback is called by the LogDB layer whenever NodeHost is required to
// be notified for the status change of the LogDB.
type LogDBCallback func(LogDBInfo)

// RaftRPCFactoryFunc is the factory function that creates the transport module
// instance for exchanging Raft messages between NodeHosts.
//
// Deprecated: Use TransportFactory instead.
type RaftRPCFactoryFunc func(NodeHostConfig,
	raftio.MessageHandler, raftio.ChunkHandler) raftio.ITransport

// LogDBFactoryFunc is the factory function that creates NodeHost's persistent
// storage module known as Log DB.
//
// Deprecated: Use LogDBFactory instead.
type LogDBFactoryFunc func(NodeHostConfig,
	LogDBCallback, []string, []string) (raftio.ILogDB, error)

// Validate validates the NodeHostConfig instance and return an error when
// the configuration is considered as invalid.
func (c *NodeHostConfig) Validate() error {
	if c.RTTMillisecond == 0 {
		return errors.New("invalid RTTMillisecond")
	}
	if len(c.NodeHostDir) == 0 {
		return errors.New("NodeHostConfig.NodeHostDir is empty")
	}
	if !c.MutualTLS {
		plog.Warningf("mutual TLS disabled, communication is insecure")
		if len(c.CAFile) > 0 || len(c.CertFile) > 0 || len(c.KeyFile) > 0 {
			plog.Warningf("CAFile/CertFile/KeyFile specified when MutualTLS is disabled")
		}
	}
	if c.MutualTLS {
		if len(c.CAFile) == 0 {
			return errors.New("CA file not specified")
		}
		if len(c.CertFile) == 0 {
			return errors.New("cert file not specified")
		}
		if len(c.KeyFile) == 0 {
			return errors.New("key file not specified")
		}
	}
	if c.MaxSendQueueSize > 0 &&
		c.MaxSendQueueSize < settings.EntryNonCmdFieldsSize+1 {
		return errors.New("MaxSendQueueSize value is too small")
	}
	if c.MaxReceiveQueueSize > 0 &&
		c.MaxReceiveQueueSize < settings.EntryNonCmdFieldsSize+1 {
		return errors.New("MaxReceiveSize value is too small")
	}
	if c.RaftRPCFactory != nil && c.Expert.TransportFactory != nil {
		return errors.New("both TransportFactory and RaftRPCFactory specified")
	}
	if c.LogDBFactory != nil && c.Expert.LogDBFactory != nil {
		return errors.New("both LogDBFactory and Expert.LogDBFactory specified")
	}
	if c.DefaultNodeRegistryEnabled && c.Gossip.IsEmpty() {
		return errors.New("gossip service not configured")
	}
	validate := c.GetRaftAddressValidator()
	if !validate(c.RaftAddress) {
		return errors.New("invalid NodeHost address")
	}
	if len(c.ListenAddress) > 0 && !validate(c.ListenAddress) {
		return errors.New("invalid ListenAddress")
	}
	if !c.Gossip.IsEmpty() {
		if err := c.Gossip.Validate(); err != nil {
			return err
		}
	}
	if !c.Expert.Engine.IsEmpty() {
		if err := c.Expert.Engine.Validate(); err != nil {
			return err
		}
	}
	return nil
}

type defaultTransport struct {
	factory RaftRPCFactoryFunc
}

func (tm *defaultTransport) Create(nhConfig NodeHostConfig,
	handler raftio.MessageHandler,
	chunkHandler raftio.ChunkHandler) raftio.ITransport {
	return tm.factory(nhConfig, handler, chunkHandler)
}

func (tm *defaultTransport) Validate(addr string) bool {
	return stringutil.IsValidAddress(addr)
}

type defaultLogDB struct {
	factory LogDBFactoryFunc
}

func (l *defaultLogDB) Create(nhConfig NodeHostConfig,
	cb LogDBCallback, dirs []string, wals []string) (raftio.ILogDB, error) {
	return l.factory(nhConfig, cb, dirs, wals)
}

func (l *defaultLogDB) Name() string {
	fs := vfs.DefaultFS
	dir, err := fileutil.TempDir("", "dragonboat-logdb-test", fs)
	if err != nil {
		panic(err)
	}
	defer func() {
		if err := fs.RemoveAll(dir); err != nil {
			panic(err)
		}
	}()
	nhc := NodeHostConfig{
		Expert: ExpertConfig{
			LogDB: GetDefaultLogDBConfig(),
			FS:    fs,
		},
	}
	ldb, err := l.factory(nhc, nil, []string{dir}, []string{})
	if err != nil {
		plog.Panicf("failed to create ldb, %v", err)
	}
	defer func() {
		if err := ldb.Close(); err != nil {
			panic(err)
		}
	}()
	return ldb.Name()
}

// Prepare sets the default value for NodeHostConfig.
func (c *NodeHostConfig) Prepare() error {
	var err error
	c.NodeHostDir, err = filepath.Abs(c.NodeHostDir)
	if err != nil {
		return err
	}
	if len(c.WALDir) > 0 {
		c.WALDir, err = filepath.Abs(c.WALDir)
		if err != nil {
			return err
		}
	}
	if c.Expert.FS == nil {
		c.Expert.FS = vfs.DefaultFS
	}
	if c.Expert.Engine.IsEmpty() {
		plog.Infof("using default EngineConfig")
		c.Expert.Engine = GetDefaultEngineConfig()
	}
	if c.Expert.LogDB.IsEmpty() {
		plog.Infof("using default LogDBConfig")
		c.Expert.LogDB = GetDefaultLogDBConfig()
	}
	if c.RaftRPCFactory != nil && c.Expert.TransportFactory == nil {
		c.Expert.TransportFactory = &defaultTransport{factory: c.RaftRPCFactory}
		c.RaftRPCFactory = nil
	}
	if c.LogDBFactory != nil && c.Expert.LogDBFactory == nil {
		c.Expert.LogDBFactory = &defaultLogDB{factory: c.LogDBFactory}
		c.LogDBFactory = nil
	}
	return nil
}

// NodeRegistryEnabled returns a bool indicating if any node registry is enabled.
func (c *NodeHostConfig) NodeRegistryEnabled() bool {
	return c.DefaultNodeRegistryEnabled || c.Expert.NodeRegistryFactory != nil
}

// GetListenAddress returns the actual address the transport module is going to
// listen on.
func (c *NodeHostConfig) GetListenAddress() string {
	if len(c.ListenAddress) > 0 {
		return c.ListenAddress
	}
	return c.RaftAddress
}

// GetServerTLSConfig returns the server tls.Config instance based on the
// TLS settings in NodeHostConfig.
func (c *NodeHostConfig) GetServerTLSConfig() (*tls.Config, error) {
	if c.MutualTLS {
		return netutil.GetServerTLSConfig(c.CAFile, c.CertFile, c.KeyFile)
	}
	return nil, nil
}

// GetClientTLSConfig returns the client tls.Config instance for the specified
// target based on the TLS settings in NodeHostConfig.
func (c *NodeHostConfig) GetClientTLSConfig(target string) (*tls.Config, error) {
	if c.MutualTLS {
		tlsConfig, err := netutil.GetClientTLSConfig("",
			c.CAFile, c.CertFile, c.KeyFile)
		if err != nil {
			return nil, err
		}
		host, err := netutil.GetHost(target)
		if err != nil {
			return nil, err
		}
		return &tls.Config{
			ServerName:   host,
			Certificates: tlsConfig.Certificates,
			RootCAs:      tlsConfig.RootCAs,
		}, nil
	}
	return nil, nil
}

// GetDeploymentID returns the deployment ID to be used.
func (c *NodeHostConfig) GetDeploymentID() uint64 {
	if c.DeploymentID == 0 {
		return settings.UnmanagedDeploymentID
	}
	return c.DeploymentID
}

// GetTargetValidator returns a TargetValidator based on the specified
// NodeHostConfig instance.
func (c *NodeHostConfig) GetTargetValidator() TargetValidator {
	if c.NodeRegistryEnabled() {
		return id.IsNodeHostID
	} else if c.Expert.TransportFactory != nil {
		return c.Expert.TransportFactory.Validate
	}
	return stringutil.IsValidAddress
}

// GetRaftAddressValidator creates a RaftAddressValidator based on the specified
// NodeHostConfig instance.
func (c *NodeHostConfig) GetRaftAddressValidator() RaftAddressValidator {
	if c.Expert.TransportFactory != nil {
		return c.Expert.TransportFactory.Validate
	}
	return stringutil.IsValidAddress
}

// IsValidAddress returns a boolean value indicating whether the input address
// is valid.
func IsValidAddress(addr string) bool {
	return stringutil.IsValidAddress(addr)
}

// LogDBConfig is the configuration object for the LogDB storage engine. This
// config option is only for advanced users when tuning the balance of I/O
// performance and memory consumption.
//
// All KV* fields in LogDBConfig had their names derived from RocksDB options,
// please check RocksDB Tuning Guide wiki for more details.
//
// KVWriteBufferSize and KVMaxWriteBufferNumber are two parameters that directly
// affect the upper bound of memory size used by the built-in LogDB storage
// engine.
type LogDBConfig struct {
	Shards                             uint64
	KVKeepLogFileNum                   uint64
	KVMaxBackgroundCompactions         uint64
	KVMaxBackgroundFlushes             uint64
	KVLRUCacheSize                     uint64
	KVWriteBufferSize                  uint64
	KVMaxWriteBufferNumber             uint64
	KVLevel0FileNumCompactionTrigger   uint64
	KVLevel0SlowdownWritesTrigger      uint64
	KVLevel0StopWritesTrigger          uint64
	KVMaxBytesForLevelBase             uint64
	KVMaxBytesForLevelMultiplier       uint64
	KVTargetFileSizeBase               uint64
	KVTargetFileSizeMultiplier         uint64
	KVLevelCompactionDynamicLevelBytes uint64
	KVRecycleLogFileNum                uint64
	KVNumOfLevels                      uint64
	KVBlockSize                        uint64
	SaveBufferSize                     uint64
	MaxSaveBufferSize                  uint64
}

// GetDefaultLogDBConfig returns the default configurations for the LogDB
// storage engine. The default LogDB configuration use up to 8GBytes memory.
func GetDefaultLogDBConfig() LogDBConfig {
	return GetLargeMemLogDBConfig()
}

// GetTinyMemLogDBConfig returns a LogDB config aimed for minimizing memory
// size. When using the returned config, LogDB takes up to 256MBytes memory.
func GetTinyMemLogDBConfig() LogDBConfig {
	cfg := getDefaultLogDBConfig()
	cfg.KVWriteBufferSize = 4 * 1024 * 1024
	cfg.KVMaxWriteBufferNumber = 4
	return cfg
}

// GetSmallMemLogDBConfig returns a LogDB config aimed to keep memory size at
// low level. When using the returned config, LogDB takes up to 1GBytes memory.
func GetSmallMemLogDBConfig() LogDBConfig {
	cfg := getDefaultLogDBConfig()
	cfg.KVWriteBufferSize = 16 * 1024 * 1024
	cfg.KVMaxWriteBufferNumber = 4
	return cfg
}

// GetMediumMemLogDBConfig returns a LogDB config aimed to keep memory size at
// medium level. When using the returned config, LogDB takes up to 4GBytes
// memory.
func GetMediumMemLogDBConfig() LogDBConfig {
	cfg := getDefaultLogDBConfig()
	cfg.KVWriteBufferSize = 64 * 1024 * 1024
	cfg.KVMaxWriteBufferNumber = 4
	return cfg
}

// GetLargeMemLogDBConfig returns a LogDB config aimed to keep memory size to be
// large for good I/O performance. It is the default setting used by the system.
// When using the returned config, LogDB takes up to 8GBytes memory.
func GetLargeMemLogDBConfig() LogDBConfig {
	return getDefaultLogDBConfig()
}

func getDefaultLogDBConfig() LogDBConfig {
	return LogDBConfig{
		Shards:                             defaultLogDBShards,
		KVMaxBackgroundCompactions:         2,
		KVMaxBackgroundFlushes:             2,
		KVLRUCacheSize:                     0,
		KVKeepLogFileNum:                   16,
		KVWriteBufferSize:                  128 * 1024 * 1024,
		KVMaxWriteBufferNumber:             4,
		KVLevel0FileNumCompactionTrigger:   8,
		KVLevel0SlowdownWritesTrigger:      17,
		KVLevel0StopWritesTrigger:          24,
		KVMaxBytesForLevelBase:             4 * 1024 * 1024 * 1024,
		KVMaxBytesForLevelMultiplier:       2,
		KVTargetFileSizeBase:               16 * 1024 * 1024,
		KVTargetFileSizeMultiplier:         2,
		KVLevelCompactionDynamicLevelBytes: 0,
		KVRecycleLogFileNum:                0,
		KVNumOfLevels:                      7,
		KVBlockSize:                        32 * 1024,
		SaveBufferSize:                     32 * 1024,
		MaxSaveBufferSize:                  64 * 1024 * 1024,
	}
}

// MemorySizeMB returns the estimated upper bound memory size used by the LogDB
// storage engine. The returned value is in MBytes.
func (cfg *LogDBConfig) MemorySizeMB() uint64 {
	ss := cfg.KVWriteBufferSize * cfg.KVMaxWriteBufferNumber
	bs := ss * cfg.Shards
	return bs / (1024 * 1024)
}

// IsEmpty returns a boolean value indicating whether the LogDBConfig instance
// is empty.
func (cfg *LogDBConfig) IsEmpty() bool {
	return reflect.DeepEqual(cfg, &LogDBConfig{})
}

// EngineConfig is the configuration for the execution engine.
type EngineConfig struct {
	// ExecShards is the number of execution shards in the first stage of the
	// execution engine. Default value is 16. Once deployed, this value can not
	// be changed later.
	ExecShards uint64
	// CommitShards is the number of commit shards in the second stage of the
	// execution engine. Default value is 16.
	CommitShards uint64
	// ApplyShards is the number of apply shards in the third stage of the
	// execution engine. Default value is 16.
	ApplyShards uint64
	// SnapshotShards is the number of snapshot shards in the forth stage of the
	// execution engine. Default value is 48.
	SnapshotShards uint64
	// CloseShards is the number of close shards used for closing stopped
	// state machines. Default value is 32.
	CloseShards uint64
}

// GetDefaultEngineConfig returns the default EngineConfig instance.
func GetDefaultEngineConfig() EngineConfig {
	return EngineConfig{
		ExecShards:     defaultExecShards,
		CommitShards:   16,
		ApplyShards:    16,
		SnapshotShards: 48,
		CloseShards:    32,
	}
}

// IsEmpty returns a boolean value indicating whether EngineConfig is an empty
// one.
func (ec EngineConfig) IsEmpty() bool {
	return reflect.DeepEqual(&ec, &EngineConfig{})
}

// Validate return an error value when the EngineConfig is invalid.
func (ec EngineConfig) Validate() error {
	if ec.ExecShards == 0 || ec.CommitShards == 0 || ec.ApplyShards == 0 ||
		ec.SnapshotShards == 0 || ec.CloseShards == 0 {
		return errors.New("invalid engine configuration")
	}
	return nil
}

// GetDefaultExpertConfig returns the default ExpertConfig.
func GetDefaultExpertConfig() ExpertConfig {
	return ExpertConfig{
		Engine: GetDefaultEngineConfig(),
		LogDB:  getDefaultLogDBConfig(),
	}
}

// ExpertConfig contains options for expert users who are familiar with the
// internals of Dragonboat. Users are recommended not to set ExpertConfig
// unless it is absoloutely necessary.
type ExpertConfig struct {
	// LogDBFactory is the factory function used for creating the LogDB instance
	// used by NodeHost. When not set, the default built-in Pebble based LogDB
	// implementation is used.
	LogDBFactory LogDBFactory
	// TransportFactory is an optional factory type used for creating the custom
	// transport module to be used by dragonbaot. When not set, the built-in TCP
	// transport module is used.
	TransportFactory TransportFactory
	// Engine is the configuration for the execution engine.
	Engine EngineConfig
	// LogDB contains configuration options for the LogDB storage engine. LogDB
	// is used for storing Raft Logs and metadata. This optional option is used
	// by advanced users for tuning the balance of I/O performance, memory and
	// disk usages.
	LogDB LogDBConfig
	// FS is the filesystem instance used in tests.
	FS IFS
	// TestGossipProbeInterval defines the probe interval used by the gossip
	// service in tests.
	TestGossipProbeInterval time.Duration
	// NodeRegistryFactory defines a custom node registry function that can be used
	// instead of a static registry or the built in memberlist gossip mechanism.
	NodeRegistryFactory NodeRegistryFactory
}

// GossipConfig contains configurations for the gossip service. Gossip service
// is a fully distributed networked service for exchanging knowledge on
// NodeHost instances. When enabled by the NodeHostConfig.DefaultNodeRegistryEnabled
// field, it is employed to manage NodeHostID to RaftAddress mappings of known
// NodeHost instances.
type GossipConfig struct {
	// BindAddress is the address for the gossip service to bind to and listen on.
	// Both UDP and TCP ports are used by the gossip service. The local gossip
	// service should be able to receive gossip service related messages by
	// binding to and listening on this address. BindAddress is usually in the
	// format of IP:Port, Hostname:Port or DNS Name:Port.
	BindAddress string
	// AdvertiseAddress is the address to advertise to other NodeHost instances
	// used for NAT traversal. Gossip services running on remote NodeHost
	// instances will use AdvertiseAddress to exchange gossip service related
	// messages. AdvertiseAddress is in the format of IP:Port.
	AdvertiseAddress string
	// Seed is a list of AdvertiseAddress of remote NodeHost instances. Local
	// NodeHost instance will try to contact all of them to bootstrap the gossip
	// service. At least one reachable NodeHost instance is required to
	// successfully bootstrap the gossip service. Each seed address is in the
	// format of IP:Port, Hostname:Port or DNS Name:Port.
	//
	// It is ok to include seed addresses that are temporarily unreachable, e.g.
	// when launching the first NodeHost instance in your deployment, you can
	// include AdvertiseAddresses from other NodeHost instances that you plan to
	// launch shortly afterwards.
	Seed []string
	// Meta is the extra metadata to be included in gossip node's Meta field. It
	// will be propagated to all other NodeHost instances via gossip.
	Meta []byte
}

// IsEmpty returns a boolean flag indicating whether the GossipConfig instance
// is empty.
func (g *GossipConfig) IsEmpty() bool {
	return len(g.BindAddress) == 0 &&
		len(g.AdvertiseAddress) == 0 && len(g.Seed) == 0
}

// Validate validates the GossipConfig instance.
func (g *GossipConfig) Validate() error {
	if len(g.BindAddress) > 0 && !stringutil.IsValidAddress(g.BindAddress) {
		return errors.New("invalid GossipConfig.BindAddress")
	} else if len(g.BindAddress) == 0 {
		return errors.New("BindAddress not set")
	}
	if len(g.AdvertiseAddress) > 0 && !isValidAdvertiseAddress(g.AdvertiseAddress) {
		return errors.New("invalid GossipConfig.AdvertiseAddress")
	}
	if len(g.Seed) == 0 {
		return errors.New("seed nodes not set")
	}
	count := 0
	for _, v := range g.Seed {
		if v != g.BindAddress && v != g.AdvertiseAddress {
			count++
		}
		if !stringutil.IsValidAddress(v) {
			return errors.New("invalid GossipConfig.Seed value")
		}
	}
	if count == 0 {
		return errors.New("no valid seed node")
	}
	return nil
}

func isValidAdvertiseAddress(addr string) bool {
	host, sp, err := net.SplitHostPort(addr)
	if err != nil {
		return false
	}
	port, err := strconv.ParseUint(sp, 10, 16)
	if err != nil {
		return false
	}
	if port > 65535 {
		return false
	}
	// the memberlist package doesn't allow hostname or DNS name to be used in
	// advertise address
	return stringutil.IPV4Regex.MatchString(host)
}
