// Copyright 2017-2019 Lei Ni (nilei81@gmail.com) and other contributors.
//
// Licensed under the Apache License, Version 2.0 (the "License");
// you may not use this file except in compliance with the License.
// You may obtain a copy of the License at
//
//     http://www.apache.org/licenses/LICENSE-2.0
//
// Unless required by applicable law or agreed to in writing, software
// distributed under the License is distributed on an "AS IS" BASIS,
// WITHOUT WARRANTIES OR CONDITIONS OF ANY KIND, either express or implied.
// See the License for the specific language governing permissions and
// limitations under the License.

package vfs

import (
	"io"
	"os"
	"path/filepath"
	"testing"

	"github.com/cockroachdb/errors/oserror"
	pvfs "github.com/cockroachdb/pebble/vfs"

	gvfs "github.com/lni/vfs"
)

// IFS is the vfs interface used by dragonboat.
type IFS = gvfs.FS

// MemFS is a memory backed file system for testing purposes.
type MemFS = gvfs.MemFS

// DefaultFS is a vfs instance using underlying OS fs.
var DefaultFS IFS = gvfs.Default

// MemStrictFS is a vfs instance using memfs.
var MemStrictFS IFS = gvfs.NewStrictMem()

// File is the file interface returned by IFS.
type File = gvfs.File

// NewMemFS creates a in-memory fs.
func NewMemFS() IFS {
	return gvfs.NewStrictMem()
}

// PebbleFS is a wrapper struct that implements the pebble/vfs.FS interface.
type PebbleFS struct {
	fs IFS
}

var _ pvfs.FS = (*PebbleFS)(nil)

// NewPebbleFS creates a new pebble/vfs.FS instance.
func NewPebbleFS(fs IFS) pvfs.FS {
	return &PebbleFS{fs}
}

// GetDiskUsage ...
func (p *PebbleFS) GetDiskUsage(path string) (pvfs.DiskUsage, error) {
	du, err := p.fs.GetDiskUsage(path)
	return pvfs.DiskUsage{
		AvailBytes: du.AvailBytes,
		TotalBytes: du.TotalBytes,
		UsedBytes:  du.UsedBytes,
	}, err
}

// Create ...
func (p *PebbleFS) Create(name string) (pvfs.File, error) {
	return p.fs.Create(name)
}

// Link ...
func (p *PebbleFS) Link(oldname, newname string) error {
	return p.fs.Link(oldname, newname)
}

// Open ...
func (p *PebbleFS) Open(name string, opts ...pvfs.OpenOption) (pvfs.File, error) {
	f, err := p.fs.Open(name)
	if err != nil {
		return nil, err
	}
	for _, opt := range opts {
		opt.Apply(f)
	}
	return f, nil
}

// OpenDir ...
func (p *PebbleFS) OpenDir(name string) (pvfs.File, error) {
	return p.fs.OpenDir(name)
}

// Remove ...
func (p *PebbleFS) Remove(name string) error {
	return p.fs.Remove(name)
}

// RemoveAll ...
func (p *PebbleFS) RemoveAll(name string) error {
	return p.fs.RemoveAll(name)
}

// Rename ...
func (p *PebbleFS) Rename(oldname, newname string) error {
	return p.fs.Rename(oldname, newname)
}

// ReuseForWrite ...
func (p *PebbleFS) ReuseForWrite(oldname, newname string) (pvfs.File, error) {
	return p.fs.ReuseForWrite(oldname, newname)
}

// MkdirAll ...
func (p *PebbleFS) MkdirAll(dir string, perm os.FileMode) error {
	return p.fs.MkdirAll(dir, perm)
}

// Lock ...
func (p *PebbleFS) Lock(name string) (io.Closer, error) {
	return p.fs.Lock(name)
}

// List ...
func (p *PebbleFS) List(dir string) ([]string, error) {
	return p.fs.List(dir)
}

// Stat ...
func (p *PebbleFS) Stat(name string) (os.FileInfo, error) {
	return p.fs.Stat(name)
}

// PathBase ...
func (p *PebbleFS) PathBase(path string) string {
	return p.fs.PathBase(path)
}

// PathJoin ...
func (p *PebbleFS) PathJoin(elem ...string) string {
	return p.fs.PathJoin(elem...)
}

// PathDir ...
func (p *PebbleFS) PathDir(path string) string {
	return p.fs.PathDir(path)
}

// IsNotExist returns a boolean value indicating whether the specified error is
// to indicate that a file or directory does not exist.
func IsNotExist(err error) bool {
	return oserror.IsNotExist(err)
}

// IsExist returns a boolean value indicating whether the specified error is to
// indicate that a file or directory already exists.
func IsExist(err error) bool {
	return oserror.IsExist(err)
}

// TempDir returns the directory use for storing temporary files.
func TempDir() string {
	return os.TempDir()
}

// Clean is a wrapper for filepath.Clean.
func Clean(dir string) string {
	return filepath.Clean(dir)
}

// ReportLeakedFD reports leaked file fds.
func ReportLeakedFD(fs IFS, t *testing.T) {
	gvfs.ReportLeakedFD(fs, t)
}
