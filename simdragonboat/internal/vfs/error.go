// Copyright 2017-2020 Lei Ni (nilei81@gmail.com) and other contributors.
//
// Licensed under the Apache License, Version 2.0 (the "License");
// you may not use this file except in compliance with the License.
// You may obtain a copy of the License at
//
//     http://www.apache.org/licenses/LICENSE-2.0
//
// Unless required by applicable law or agreed to in writing, software
// distributed under the License is distributed on an "AS IS" BASIS,
// WITHOUT WARRANTIES OR CONDITIONS OF ANY KIND, either express or implied.
// See the License for the specific language governing permissions and
// limitations under the License.

package vfs

import (
	gvfs "github.com/lni/vfs"
)

// ErrInjected is an error injected for testing purposes.
var ErrInjected = gvfs.ErrInjected

// Injector injects errors into FS.
type Injector = gvfs.Injector

// ErrorFS is a gvfs.FS implementation.
type ErrorFS = gvfs.ErrorFS

// InjectIndex implements Injector
type InjectIndex = gvfs.InjectIndex

// Op is an enum describing the type of FS operations.
type Op = gvfs.Op

// OpRead describes read operations
var OpRead = gvfs.OpRead

// OpWrite describes write operations
var OpWrite = gvfs.OpWrite

// OpSync describes the fsync operation
var OpSync = gvfs.OpSync

// OnIndex creates and returns an injector instance that returns an ErrInjected
// on the (n+1)-th invocation of its MaybeError function.
func OnIndex(index int32, op Op) *InjectIndex {
	return gvfs.OnIndex(index, op)
}

// Wrap wraps an existing IFS implementation with the specified injector.
func Wrap(fs IFS, inj Injector) *ErrorFS {
	return gvfs.Wrap(fs, inj)
}
