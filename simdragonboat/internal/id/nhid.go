// Copyright 2017-2020 Lei Ni (nilei81@gmail.com) and other contributors.
//
// Licensed under the Apache License, Version 2.0 (the "License");
// you may not use this file except in compliance with the License.
// You may obtain a copy of the License at
//
//     http://www.apache.org/licenses/LICENSE-2.0
//
// Unless required by applicable law or agreed to in writing, software
// distributed under the License is distributed on an "AS IS" BASIS,
// WITHOUT WARRANTIES OR CONDITIONS OF ANY KIND, either express or implied.
// See the License for the specific language governing permissions and
// limitations under the License.

package id

import (
	"github.com/cockroachdb/errors"
	"github.com/google/uuid"

	pb "github.com/lni/dragonboat/v4/raftpb"
)

// IsNodeHostID returns a boolean value indicating whether the specified value
// is a valid string representation of NodeHostID.
func IsNodeHostID(v string) bool {
	_, err := uuid.Parse(v)
	return err == nil
}

func NewUUID(v string) (*UUID, error) {
	u, err := uuid.Parse(v)
	if err != nil {
		return nil, err
	}
	return &UUID{v: u}, nil
}

func New() *UUID {
	return &UUID{v: uuid.New()}
}

type UUID struct {
	v uuid.UUID
}

var _ pb.Marshaler = (*UUID)(nil)
var _ pb.Unmarshaler = (*UUID)(nil)

func (u UUID) String() string {
	return u.v.String()
}

func (u *UUID) Marshal() ([]byte, error) {
	return u.v.MarshalBinary()
}

func (u *UUID) MarshalTo(data []byte) (int, error) {
	v, err := u.v.MarshalBinary()
	if err != nil {
		return 0, err
	}
	if len(data) < len(v) {
		return 0, errors.New("input slice too short")
	}
	copy(data, v)
	return len(v), nil
}

func (u *UUID) Unmarshal(data []byte) error {
	return u.v.UnmarshalBinary(data)
}
