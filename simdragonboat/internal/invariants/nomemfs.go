// Copyright 2017-2020 Lei Ni (nilei81@gmail.com) and other contributors.
//
// Licensed under the Apache License, Version 2.0 (the "License");
// you may not use this file except in compliance with the License.
// You may obtain a copy of the License at
//
//     http://www.apache.org/licenses/LICENSE-2.0
//
// Unless required by applicable law or agreed to in writing, software
// distributed under the License is distributed on an "AS IS" BASIS,
// WITHOUT WARRANTIES OR CONDITIONS OF ANY KIND, either express or implied.
// See the License for the specific language governing permissions and
// limitations under the License.

//go:build !dragonboat_memfs_test
// +build !dragonboat_memfs_test

package invariants

// MemfsTest is a boolean flag indicating whether dragonboat is running memfs
// test mode.
const MemfsTest = false
