// Copyright 2017-2021 Lei Ni (nilei81@gmail.com) and other contributors.
//
// Licensed under the Apache License, Version 2.0 (the "License");
// you may not use this file except in compliance with the License.
// You may obtain a copy of the License at
//
//     http://www.apache.org/licenses/LICENSE-2.0
//
// Unless required by applicable law or agreed to in writing, software
// distributed under the License is distributed on an "AS IS" BASIS,
// WITHOUT WARRANTIES OR CONDITIONS OF ANY KIND, either express or implied.
// See the License for the specific language governing permissions and
// limitations under the License.

package invariants

import (
	"runtime"
)

// Is32BitArch returns a boolean value indicating whether running on a 32bit
// architecture.
func Is32BitArch() bool {
	return is32BitArch(runtime.GOARCH)
}

// IsSupportedArch returns a boolean value indicating whether running on a
// supported architecture.
func IsSupportedArch() bool {
	supported := []string{
		"arm64",
		"amd64",
	}
	for _, v := range supported {
		if runtime.GOARCH == v {
			return true
		}
	}
	return false
}

// IsSupportedOS returns a boolean value indicating whether running on a
// supported OS.
func IsSupportedOS() bool {
	return runtime.GOOS == "linux" || runtime.GOOS == "darwin"
}

func is32BitArch(arch string) bool {
	known := []string{
		"386",
		"amd64p32",
		"arm",
		"armbe",
		"mips",
		"mipsle",
		"mips64p32",
		"mips64p32le",
		"ppc",
		"riscv",
		"s390",
		"sparc",
	}
	for _, v := range known {
		if arch == v {
			return true
		}
	}
	return false
}
