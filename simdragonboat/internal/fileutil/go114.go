// Copyright 2017-2021 Lei Ni (nilei81@gmail.com) and other contributors.
//
// Licensed under the Apache License, Version 2.0 (the "License");
// you may not use this file except in compliance with the License.
// You may obtain a copy of the License at
//
//     http://www.apache.org/licenses/LICENSE-2.0
//
// Unless required by applicable law or agreed to in writing, software
// distributed under the License is distributed on an "AS IS" BASIS,
// WITHOUT WARRANTIES OR CONDITIONS OF ANY KIND, either express or implied.
// See the License for the specific language governing permissions and
// limitations under the License.

// +build !go1.16

package fileutil

import (
	"io"
	"io/ioutil"
	"os"
)

// TODO:
// io/iotuil has been deprecated in go1.16
// ioutil.Discard, ioutil.TempFile and other functions have been moved to the
// other stdlib packages (io and os) in go1.16.
// remove this file when we require go1.16 for dragonboat

// Discard ...
var Discard = ioutil.Discard

// CreateTemp ...
func CreateTemp(dir string, pattern string) (*os.File, error) {
	f, err := ioutil.TempFile(dir, pattern)
	return f, ws(err)
}

// ReadAll ...
func ReadAll(r io.Reader) ([]byte, error) {
	result, err := ioutil.ReadAll(r)
	return result, ws(err)
}

// MkdirTemp ...
func MkdirTemp(dir string, pattern string) (string, error) {
	path, err := ioutil.TempDir(dir, pattern)
	return path, ws(err)
}

// ReadFile ...
func ReadFile(name string) ([]byte, error) {
	result, err := ioutil.ReadFile(name)
	return result, ws(err)
}
