// Copyright 2017-2019 Lei Ni (nilei81@gmail.com) and other contributors.
//
// Licensed under the Apache License, Version 2.0 (the "License");
// you may not use this file except in compliance with the License.
// You may obtain a copy of the License at
//
//     http://www.apache.org/licenses/LICENSE-2.0
//
// Unless required by applicable law or agreed to in writing, software
// distributed under the License is distributed on an "AS IS" BASIS,
// WITHOUT WARRANTIES OR CONDITIONS OF ANY KIND, either express or implied.
// See the License for the specific language governing permissions and
// limitations under the License.

package settings

import (
	"encoding/json"
	"os"
	"path/filepath"
	"reflect"
)

func getParsedConfig(fn string) map[string]interface{} {
	if _, err := os.Stat(fn); os.IsNotExist(err) {
		return nil
	}
	m := map[string]interface{}{}
	b, err := os.ReadFile(filepath.Clean(fn))
	if err != nil {
		panic(err)
	}
	if err := json.Unmarshal(b, &m); err != nil {
		panic(err)
	}
	return m
}

func overwriteHardSettings(org *hard) {
	cfg := getParsedConfig("dragonboat-hard-settings.json")
	rd := reflect.Indirect(reflect.ValueOf(org))
	overwriteSettings(cfg, rd)
}

func overwriteSoftSettings(org *soft) {
	cfg := getParsedConfig("dragonboat-soft-settings.json")
	rd := reflect.Indirect(reflect.ValueOf(org))
	overwriteSettings(cfg, rd)
}

func overwriteSettings(cfg map[string]interface{}, rd reflect.Value) {
	for key, val := range cfg {
		field := rd.FieldByName(key)
		if field.IsValid() {
			switch field.Type().String() {
			case "uint64":
				nv := uint64(val.(float64))
				plog.Infof("Setting %s to uint64 value %d", key, nv)
				field.SetUint(nv)
			case "bool":
				plog.Infof("Setting %s to bool value %t", key, val.(bool))
				field.SetBool(val.(bool))
			case "string":
				plog.Infof("Setting %s to string value %s", key, val.(string))
				field.SetString(val.(string))
			default:
			}
		}
	}
}
