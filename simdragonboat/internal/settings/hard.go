// Copyright 2017-2019 Lei Ni (nilei81@gmail.com) and other contributors.
//
// Licensed under the Apache License, Version 2.0 (the "License");
// you may not use this file except in compliance with the License.
// You may obtain a copy of the License at
//
//     http://www.apache.org/licenses/LICENSE-2.0
//
// Unless required by applicable law or agreed to in writing, software
// distributed under the License is distributed on an "AS IS" BASIS,
// WITHOUT WARRANTIES OR CONDITIONS OF ANY KIND, either express or implied.
// See the License for the specific language governing permissions and
// limitations under the License.

/*
Package settings is used for managing internal parameters that can be set at
compile time by expert level users. Most of those parameters can also be
overwritten by using the json mechanism described below.
*/
package settings

import (
	"crypto/md5"
	"encoding/binary"
	"fmt"
	"io"

	"github.com/lni/dragonboat/v4/logger"
)

var (
	plog = logger.GetLogger("settings")
)

//
// Parameters in both hard.go and soft.go are _NOT_ a part of the public API.
// There is no guarantee that any of these parameters are going to be available
// in future releases. Change them only when you know what you are doing.
//
// This file contain hard configuration values that should _NEVER_ be changed
// after your system has been deployed. Changing any value here will CORRUPT
// the data in your existing deployment.
//
// We do have an mechanism to overwrite the default values for the hard struct.
// To tune these parameters, place a json file named
// dragonboat-hard-settings.json in the current working directory of your
// dragonboat application, all fields in the json file will be applied to
// overwrite the default setting values. e.g. for a json file with the
// following content -
//
// {
//   "LRUMaxSessionCount": 32,
// }
//
// hard.LRUMaxSessionCount will be set to 32
//
// The application need to be restarted to apply such configuration changes.
// Again - tuning these hard parameters using the above described json file
// will cause your existing data to be corrupted. Decide them in your dev/test
// phase, once your system is deployed in production, _NEVER_ change them.
//

// Hard is the hard settings that can not be changed after the system has been
// deployed.
var Hard = getHardSettings()

type hard struct {
	// LRUMaxSessionCount is the max number of client sessions that can be
	// concurrently held and managed by each raft shard.
	LRUMaxSessionCount uint64
	// LogDBEntryBatchSize is the max size of each entry batch.
	LogDBEntryBatchSize uint64
}

// BlockFileMagicNumber is the magic number used in block based snapshot files.
var BlockFileMagicNumber = []byte{0x3F, 0x5B, 0xCB, 0xF1, 0xFA, 0xBA, 0x81, 0x9F}

const (
	//
	// RSM
	//

	// SnapshotHeaderSize defines the snapshot header size in number of bytes.
	SnapshotHeaderSize uint64 = 1024

	//
	// transport
	//

	// UnmanagedDeploymentID is the special deployment ID value used when no user
	// deployment ID is specified.
	UnmanagedDeploymentID uint64 = 1
	// MaxMessageBatchSize is the max size for a single message batch sent between
	// nodehosts.
	MaxMessageBatchSize uint64 = LargeEntitySize
	// SnapshotChunkSize is the snapshot chunk size.
	SnapshotChunkSize uint64 = 2 * 1024 * 1024
)

// HardHash returns the hash value of the Hard setting.
func HardHash(execShards uint64,
	logDBShards uint64, sessionCount uint64, batchSize uint64) uint64 {
	hashstr := fmt.Sprintf("%d-%d-%t-%d-%d",
		execShards,
		logDBShards,
		false, // was the UseRangeDelete option
		sessionCount,
		batchSize)
	mh := md5.New()
	if _, err := io.WriteString(mh, hashstr); err != nil {
		panic(err)
	}
	return binary.LittleEndian.Uint64(mh.Sum(nil))
}

func getHardSettings() hard {
	org := getDefaultHardSettings()
	overwriteHardSettings(&org)
	return org
}

func getDefaultHardSettings() hard {
	return hard{
		LRUMaxSessionCount:  4096,
		LogDBEntryBatchSize: 48,
	}
}
