// Copyright 2017-2019 Lei Ni (nilei81@gmail.com) and other contributors.
//
// Licensed under the Apache License, Version 2.0 (the "License");
// you may not use this file except in compliance with the License.
// You may obtain a copy of the License at
//
//     http://www.apache.org/licenses/LICENSE-2.0
//
// Unless required by applicable law or agreed to in writing, software
// distributed under the License is distributed on an "AS IS" BASIS,
// WITHOUT WARRANTIES OR CONDITIONS OF ANY KIND, either express or implied.
// See the License for the specific language governing permissions and
// limitations under the License.

package settings

const (
	// EntryNonCmdFieldsSize defines the upper limit of the non-cmd field
	// length in pb.Entry.
	EntryNonCmdFieldsSize = 16 * 8
	// LargeEntitySize defines what is considered as a large entity for per node
	// entities.
	LargeEntitySize uint64 = 64 * 1024 * 1024
)

//
// Tuning configuration parameters here will impact the performance of your
// system. It will not corrupt your data. Only tune these parameters when
// you know what you are doing.
//
// To tune these parameters, place a json file named
// dragonboat-soft-settings.json in the current working directory of your
// dragonboat application, all fields in the json file will be applied to
// overwrite the default setting values. e.g. for a json file with the
// following content -
//
// {
//   "GetConnectedTimeoutSecond": 15,
// }
//
// soft.GetConnectedTimeoutSecond will be 15,
//
// The application need to be restarted to apply such configuration changes.
//

// Soft is the soft settings that can be changed after the deployment of a
// system.
var Soft = getSoftSettings()

type soft struct {
	//
	// Raft
	//

	// MaxEntrySize defines the max total entry size that can be included in
	// the Replicate message.
	MaxEntrySize uint64
	// InMemEntrySliceSize defines the maximum length of the in memory entry
	// slice.
	InMemEntrySliceSize uint64
	// MinEntrySliceFreeSize defines the minimum length of the free in memory
	// entry slice. A new entry slice of length InMemEntrySliceSize will be
	// allocated once the free entry size in the current slice is less than
	// MinEntrySliceFreeSize.
	MinEntrySliceFreeSize uint64
	// InMemGCTimeout defines how often dragonboat collects partial object.
	// It is defined in terms of number of ticks.
	InMemGCTimeout uint64
	// MaxApplyEntrySize defines the max size of entries to apply.
	MaxApplyEntrySize uint64

	//
	// Multiraft
	//

	// PendingProposalShards defines the number of shards for the pending
	// proposal data structure.
	PendingProposalShards uint64
	// SyncTaskInterval defines the interval in millisecond of periodic sync
	// state machine task.
	SyncTaskInterval uint64
	// IncomingReadIndexQueueLength defines the number of pending read index
	// requests allowed for each raft group.
	IncomingReadIndexQueueLength uint64
	// IncomingProposalQueueLength defines the number of pending proposals
	// allowed for each raft group.
	IncomingProposalQueueLength uint64
	// ReceiveQueueLength is the length of the receive queue on each node.
	ReceiveQueueLength uint64
	// SnapshotStatusPushDelayMS is the number of millisecond delays we impose
	// before pushing the snapshot results to raft node.
	SnapshotStatusPushDelayMS uint64
	// TaskQueueTargetLength defined the target length of each node's taskQ.
	// Dragonboat tries to make sure the queue is no longer than this target
	// length.
	TaskQueueTargetLength uint64
	// TaskQueueInitialCap defines the initial capcity of a task queue.
	TaskQueueInitialCap uint64
	// NodeHostRequestStatePoolShards defines the number of sync pools.
	NodeHostRequestStatePoolShards uint64
	// LazyFreeCycle defines how often should entry queue and message queue
	// to be freed.
	LazyFreeCycle uint64
	// PanicOnSizeMismatch defines whether dragonboat should panic when snapshot
	// file size doesn't match the size recorded in snapshot metadata.
	PanicOnSizeMismatch bool

	//
	// RSM
	//
	BatchedEntryApply bool

	//
	// step engine
	//

	// TaskBatchSize defines the length of the committed batch slice.
	TaskBatchSize uint64
	// NodeReloadMillisecond defines how often step engine should reload
	// nodes, it is defined in number of millisecond.
	NodeReloadMillisecond uint64
	// CloseWorkerTimedWaitSecond is the number of seconds allowed for the
	// close worker to run cleanups before exit.
	CloseWorkerTimedWaitSecond uint64

	//
	// transport
	//

	// GetConnectedTimeoutSecond is the default timeout value in second when
	// trying to connect to a gRPC based server.
	GetConnectedTimeoutSecond uint64
	// MaxSnapshotConnections defines the max number of concurrent outgoing
	// snapshot connections.
	MaxSnapshotConnections uint64
	// MaxConcurrentStreamingSnapshot defines the max number of concurrent
	// incoming snapshot streams.
	MaxConcurrentStreamingSnapshot uint64
	// SendQueueLength is the length of the send queue used to hold messages
	// exchanged between nodehosts. You may need to increase this value when
	// you want to host large number nodes per nodehost.
	SendQueueLength uint64
	// StreamConnections defines how many connections to use for each remote
	// nodehost whene exchanging raft messages
	StreamConnections uint64
	// PerConnBufSize is the size of the per connection buffer used for
	// receiving incoming messages.
	PerConnectionSendBufSize uint64
	// PerConnectionRecvBufSize is the size of the recv buffer size.
	PerConnectionRecvBufSize uint64
	// SnapshotGCTick defines the number of ticks between two snapshot GC
	// operations.
	SnapshotGCTick uint64
	// SnapshotChunkTimeoutTick defines the max time allowed to receive
	// a snapshot.
	SnapshotChunkTimeoutTick uint64

	//
	// LogDB
	//
	KVTolerateCorruptedTailRecords bool
	// KVUseUniversalCompaction defines whether to use universal compaction to
	// reduce write amplification. This setting is default to false, change it to
	// true for existing system might cause unexpected consequences, please check
	// the documentation of your KV store for more details.
	//
	// KVUseUniversalCompaction support is experimental - it is not fully tested.
	KVUseUniversalCompaction bool
}

func getSoftSettings() soft {
	org := getDefaultSoftSettings()
	overwriteSoftSettings(&org)
	return org
}

func getDefaultSoftSettings() soft {
	return soft{
		MaxConcurrentStreamingSnapshot: 128,
		MaxSnapshotConnections:         64,
		SyncTaskInterval:               180000,
		PanicOnSizeMismatch:            true,
		LazyFreeCycle:                  1,
		BatchedEntryApply:              true,
		GetConnectedTimeoutSecond:      5,
		MaxEntrySize:                   MaxMessageBatchSize,
		InMemGCTimeout:                 100,
		InMemEntrySliceSize:            512,
		MaxApplyEntrySize:              64 * 1024 * 1024,
		MinEntrySliceFreeSize:          96,
		IncomingReadIndexQueueLength:   4096,
		IncomingProposalQueueLength:    2048,
		SnapshotStatusPushDelayMS:      1000,
		PendingProposalShards:          16,
		TaskQueueInitialCap:            24,
		TaskQueueTargetLength:          64,
		NodeHostRequestStatePoolShards: 8,
		TaskBatchSize:                  512,
		NodeReloadMillisecond:          200,
		CloseWorkerTimedWaitSecond:     5,
		SendQueueLength:                1024 * 2,
		ReceiveQueueLength:             1024,
		StreamConnections:              4,
		PerConnectionSendBufSize:       2 * 1024 * 1024,
		PerConnectionRecvBufSize:       2 * 1024 * 1024,
		SnapshotGCTick:                 30,
		SnapshotChunkTimeoutTick:       900,
		KVTolerateCorruptedTailRecords: true,
		KVUseUniversalCompaction:       false,
	}
}
