// Copyright 2017-2019 Lei Ni (nilei81@gmail.com) and other contributors.
//
// Licensed under the Apache License, Version 2.0 (the "License");
// you may not use this file except in compliance with the License.
// You may obtain a copy of the License at
//
//     http://www.apache.org/licenses/LICENSE-2.0
//
// Unless required by applicable law or agreed to in writing, software
// distributed under the License is distributed on an "AS IS" BASIS,
// WITHOUT WARRANTIES OR CONDITIONS OF ANY KIND, either express or implied.
// See the License for the specific language governing permissions and
// limitations under the License.

package dio

import (
	"io"
	"math"
	"sync/atomic"

	"github.com/golang/snappy"
	pb "github.com/lni/dragonboat/v4/raftpb"
)

// CompressionType is the type of the compression.
type CompressionType = pb.CompressionType

const (
	// NoCompression is the CompressionType value used to indicate not to use
	// any compression.
	NoCompression CompressionType = pb.NoCompression
	// Snappy is the CompressionType value used to indicate that google snappy
	// is used for data compression.
	Snappy CompressionType = pb.Snappy
)

// CountedWriter is a io.WriteCloser wrapper that keeps the total number of bytes
// written to the underlying writer.
type CountedWriter struct {
	closed uint32
	total  uint64
	w      io.WriteCloser
}

// NewCountedWriter creates a new CountedWriter.
func NewCountedWriter(w io.WriteCloser) *CountedWriter {
	return &CountedWriter{w: w}
}

// Write writes the specified content to the underlying writer.
func (cw *CountedWriter) Write(data []byte) (int, error) {
	cw.total += uint64(len(data))
	return cw.w.Write(data)
}

// Close closes the underlying writer.
func (cw *CountedWriter) Close() error {
	defer func() {
		atomic.StoreUint32(&cw.closed, 1)
	}()
	return cw.w.Close()
}

// BytesWritten returns the total number of bytes written.
func (cw *CountedWriter) BytesWritten() uint64 {
	if atomic.LoadUint32(&cw.closed) == 0 {
		panic("calling BytesWritten before close is called")
	}
	return cw.total
}

// Compressor is a io.WriteCloser that compresses its input data to its
// underlying io.Writer.
type Compressor struct {
	uw io.WriteCloser
	wc io.WriteCloser
	ct CompressionType
}

// NewCompressor returns a Compressor instance.
func NewCompressor(ct CompressionType, wc io.WriteCloser) io.WriteCloser {
	if ct == NoCompression {
		return wc
	} else if ct == Snappy {
		c := &Compressor{
			uw: wc,
			wc: snappy.NewBufferedWriter(wc),
			ct: ct,
		}
		return c
	} else {
		panic("unknown compression type")
	}
}

// Write compresses the input data and writes to the underlying writer.
func (c *Compressor) Write(data []byte) (int, error) {
	return c.wc.Write(data)
}

// Close closes the compressor.
func (c *Compressor) Close() error {
	if c.ct == NoCompression {
		panic("not suppose to reach here")
	}
	if err := c.wc.Close(); err != nil {
		return err
	}
	if c.uw != nil {
		return c.uw.Close()
	}
	return nil
}

// Decompressor is a io.WriteCloser that decompresses data read from its
// underlying reader.
type Decompressor struct {
	ur io.ReadCloser
	rc io.Reader
	ct CompressionType
}

// NewDecompressor return a decompressor instance.
func NewDecompressor(ct CompressionType, r io.ReadCloser) io.ReadCloser {
	if ct == NoCompression {
		return r
	} else if ct == Snappy {
		d := &Decompressor{
			ur: r,
			rc: snappy.NewReader(r),
			ct: ct,
		}
		return d
	} else {
		panic("unknown compression type")
	}
}

// Read reads from the underlying reader.
func (dc *Decompressor) Read(data []byte) (int, error) {
	return dc.rc.Read(data)
}

// Close closes the decompressor.
func (dc *Decompressor) Close() error {
	if dc.ct == NoCompression {
		panic("not suppose to reach here")
	} else if dc.ct == Snappy {
		return dc.ur.Close()
	} else {
		panic("unknown compression type")
	}
}

// MaxEncodedLen returns the maximum length of the encoded block given the
// specified compression type and src length.
func MaxEncodedLen(ct CompressionType, srcLen uint64) (uint64, bool) {
	if ct == Snappy {
		if srcLen > MaxBlockLen(ct) {
			return 0, false
		}
		sz := snappy.MaxEncodedLen(int(srcLen))
		if sz == -1 {
			return 0, false
		}
		return uint64(sz), true
	}
	panic("not supported compression type")
}

// MaxBlockLen returns the maximum length allowed for specified compression
// type.
func MaxBlockLen(ct CompressionType) uint64 {
	if ct == Snappy {
		// https://github.com/golang/snappy/blob/2a8bb927dd31d8daada140a5d09578521ce5c36a/encode.go#L76
		return 6 * (0xffffffff - 32) / 7
	}
	return math.MaxUint64
}

// CompressSnappyBlock compresses the src block using snappy and store the
// compressed block into dst. The length of the compressed block is returned.
func CompressSnappyBlock(src []byte, dst []byte) int {
	dstLen := len(dst)
	result := snappy.Encode(dst, src)
	if len(result) > dstLen {
		panic("dst length is too small")
	}
	return len(result)
}

// DecompressSnappyBlock decompresses the snappy compressed data in src to the
// dst slice. The dst slice must be of the exact length of the uncompressed
// data.
func DecompressSnappyBlock(src []byte, dst []byte) error {
	dstLen := len(dst)
	result, err := snappy.Decode(dst, src)
	if len(result) != dstLen {
		panic("corrupted decodedLen in header")
	}
	if err != nil {
		return err
	}
	return nil
}
