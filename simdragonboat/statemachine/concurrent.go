// Copyright 2017-2020 Lei Ni (nilei81@gmail.com) and other contributors.
//
// Licensed under the Apache License, Version 2.0 (the "License");
// you may not use this file except in compliance with the License.
// You may obtain a copy of the License at
//
//     http://www.apache.org/licenses/LICENSE-2.0
//
// Unless required by applicable law or agreed to in writing, software
// distributed under the License is distributed on an "AS IS" BASIS,
// WITHOUT WARRANTIES OR CONDITIONS OF ANY KIND, either express or implied.
// See the License for the specific language governing permissions and
// limitations under the License.

package statemachine

import (
	"io"
)

// IConcurrentStateMachine is the interface to be implemented by application's
// state machine when concurrent access to the state machine is required. For
// a typical IConcurrentStateMachine type, most of its managed data is expected
// to be fitted into memory, Dragonboat manages its captured snapshots and
// saved Raft Logs to ensure such in-memory state machine state can be restored
// after reboot.
//
// The Update method is always invoked from the same goroutine. The Lookup,
// SaveSnapshot and GetHash methods can be invoked concurrent to the Update
// method. The Lookup method is also allowed to be invoked concurrent to the
// RecoverFromSnapshot method. It is user's responsibility to implement the
// IConcurrentStateMachine instance with such supported concurrency while also
// protecting the state machine data integrity. Invocations to the Update,
// PrepareSnapshot, RecoverFromSnapshot and the Close methods are guarded by
// the system to ensure mutual exclusion.
//
// When created, an IConcurrentStateMachine instance should always start from an
// empty state. Dragonboat will use saved snapshots and Raft Logs to help a
// restarted IConcurrentStateMachine instance to catch up to its previous state.
//
// IConcurrentStateMachine is provided as an alternative option to the
// IStateMachine interface which also keeps state machine data mostly in memory
// but without concurrent access support. Users are recommended to use the
// IStateMachine interface whenever possible.
type IConcurrentStateMachine interface {
	// Update updates the IConcurrentStateMachine instance. The input Entry slice
	// is list of continuous proposed and committed commands from clients, they
	// are provided together as a batch so the IConcurrentStateMachine
	// implementation can choose to batch them and apply together to hide latency.
	//
	// The Update method must be deterministic, meaning that given the same initial
	// state of IConcurrentStateMachine and the same input sequence, it should
	// reach to the same updated state and outputs the same returned results. The
	// input entry slice should be the only input to this method. Reading from
	// the system clock, random number generator or other similar external data
	// sources will violate the deterministic requirement of the Update method.
	//
	// The IConcurrentStateMachine implementation should not keep a reference to
	// the input entry slice after return.
	//
	// Update returns the input entry slice with the Result field of all its
	// members set.
	//
	// Update returns an error when there is unrecoverable error for updating the
	// on disk state machine, e.g. disk failure when trying to update the state
	// machine.
	Update([]Entry) ([]Entry, error)
	// Lookup queries the state of the IConcurrentStateMachine instance and
	// returns the query result as a byte slice. The input byte slice specifies
	// what to query, it is up to the IConcurrentStateMachine implementation to
	// interpret the input byte slice.
	//
	// When an error is returned by the Lookup() method, the error will be passed
	// to the caller of NodeHost's ReadLocalNode() or SyncRead() methods to be
	// handled. A typical scenario for returning an error is that the state
	// machine has already been closed or aborted from a RecoverFromSnapshot
	// procedure when Lookup is being handled.
	//
	// The IConcurrentStateMachine implementation should not keep a reference of
	// the input byte slice after return.
	//
	// The Lookup() method is a read only method, it should never change the state
	// of the IConcurrentStateMachine instance.
	Lookup(interface{}) (interface{}, error)
	// PrepareSnapshot prepares the snapshot to be concurrently captured and saved.
	// PrepareSnapshot is invoked before SaveSnapshot is called and it is invoked
	// with mutual exclusion protection from the Update method.
	//
	// PrepareSnapshot in general saves a state identifier of the current state,
	// such state identifier is usually a version number, a sequence number, a
	// change ID or some other in memory small data structure used for describing
	// the point in time state of the state machine. The state identifier is
	// returned as an interface{} and it is provided to the SaveSnapshot() method
	// so the state machine state at that identified point in time can be saved
	// when SaveSnapshot is invoked.
	//
	// PrepareSnapshot returns an error when there is unrecoverable error for
	// preparing the snapshot.
	PrepareSnapshot() (interface{}, error)
	// SaveSnapshot saves the point in time state of the IConcurrentStateMachine
	// identified by the input state identifier to the provided io.Writer backed
	// by a file on disk and the provided ISnapshotFileCollection instance. This
	// is a read only method that should never change the state of the
	// IConcurrentStateMachine instance.
	//
	// It is important to understand that SaveSnapshot should never save the
	// current latest state. The point in time state identified by the input state
	// identifier is what suppose to be saved, the latest state might be different
	// from such specified point in time state as the state machine might have
	// already been updated by the Update() method after the completion of
	// the call to PrepareSnapshot.
	//
	// It is SaveSnapshot's responsibility to free the resources owned by the
	// input state identifier when it is done.
	//
	// The ISnapshotFileCollection instance is used to record finalized external
	// files that should also be included as a part of the snapshot. All other
	// state data should be saved into the io.Writer backed by snapshot file on
	// disk. It is application's responsibility to save the complete state so
	// that the recovered IConcurrentStateMachine state is considered as
	// identical to the original state.
	//
	// The provided read-only chan struct{} is to notify the SaveSnapshot method
	// that the associated Raft node is being closed so the IConcurrentStateMachine
	// can choose to abort the SaveSnapshot procedure and return
	// ErrSnapshotStopped immediately.
	//
	// SaveSnapshot is allowed to abort the snapshotting operation at any time by
	// returning ErrSnapshotAborted.
	//
	// SaveSnapshot returns the encountered error when generating the snapshot.
	// Other than the above mentioned ErrSnapshotStopped and ErrSnapshotAborted
	// errors, the IConcurrentStateMachine implementation should only return a
	// non-nil error when the system need to be immediately halted for critical
	// errors, e.g. disk error preventing you from saving the snapshot.
	SaveSnapshot(interface{},
		io.Writer, ISnapshotFileCollection, <-chan struct{}) error
	// RecoverFromSnapshot recovers the state of the IConcurrentStateMachine
	// instance from a previously saved snapshot captured by the SaveSnapshot()
	// method. The saved snapshot is provided as an io.Reader backed by a file
	// on disk together with a list of files previously recorded into the
	// ISnapshotFileCollection in SaveSnapshot().
	//
	// Dragonboat ensures that Update() and Close() will not be invoked when
	// RecoverFromSnapshot() is in progress.
	//
	// The provided read-only chan struct{} is provided to notify the
	// RecoverFromSnapshot() method that the associated Raft node is being closed.
	// On receiving such notification, RecoverFromSnapshot() can choose to
	// abort recovering from the snapshot and return an ErrSnapshotStopped error
	// immediately. Other than ErrSnapshotStopped, IConcurrentStateMachine should
	// only return a non-nil error when the system need to be immediately halted
	// for non-recoverable error, e.g. disk error preventing you from reading the
	// complete saved snapshot.
	//
	// RecoverFromSnapshot is invoked when restarting from a previously saved
	// state or when the Raft node is significantly behind its leader.
	RecoverFromSnapshot(io.Reader, []SnapshotFile, <-chan struct{}) error
	// Close closes the IConcurrentStateMachine instance.
	//
	// The Close method is not allowed to update the state of the
	// IConcurrentStateMachine visible to the Lookup() method.
	//
	// Close allows the application to finalize resources to a state easier to
	// be re-opened and used in the future. It is important to understand that
	// Close is not guaranteed to be always called, e.g. node might crash at any
	// time. IConcurrentStateMachine should be designed in a way that the
	// safety and integrity of its managed data doesn't rely on whether the Close
	// method is called or not.
	//
	// Other than setting up some internal flags to indicate that the
	// IConcurrentStateMachine instance has been closed, the Close method is not
	// allowed to update the state of IConcurrentStateMachine visible to the
	// Lookup method.
	Close() error
}

// CreateConcurrentStateMachineFunc is a factory function type for creating an
// IConcurrentStateMachine instance.
type CreateConcurrentStateMachineFunc func(uint64, uint64) IConcurrentStateMachine
