// Copyright 2017-2021 Lei Ni (nilei81@gmail.com) and other contributors.
//
// Licensed under the Apache License, Version 2.0 (the "License");
// you may not use this file except in compliance with the License.
// You may obtain a copy of the License at
//
//     http://www.apache.org/licenses/LICENSE-2.0
//
// Unless required by applicable law or agreed to in writing, software
// distributed under the License is distributed on an "AS IS" BASIS,
// WITHOUT WARRANTIES OR CONDITIONS OF ANY KIND, either express or implied.
// See the License for the specific language governing permissions and
// limitations under the License.

package statemachine

import (
	"io"

	"github.com/cockroachdb/errors"
)

var (
	// ErrSnapshotStreaming is the error returned when the snapshot data being
	// generated can not be streamed to its intended destination.
	ErrSnapshotStreaming = errors.New("failed to stream the snapshot")
	// ErrOpenStopped is the error returned by the Open method of an
	// IOnDiskStateMachine type when it chooses to abort from its Open method.
	ErrOpenStopped = errors.New("open method did not complete")
)

// IOnDiskStateMachine is the interface to be implemented by application's
// state machine when the state machine state is always persisted on disks.
// IOnDiskStateMachine basically matches the state machine type described
// in the section 5.2 of the Raft thesis.
//
// For IOnDiskStateMachine types, concurrent access to the state machine is
// supported. An IOnDiskStateMachine type allows its Update method to be
// concurrently invoked when there are ongoing calls to the Lookup or the
// SaveSnapshot method. Lookup is also allowed when the RecoverFromSnapshot or
// the Close methods are being invoked. Invocations to the Update, Sync,
// PrepareSnapshot, RecoverFromSnapshot and Close methods are guarded by the
// system to ensure mutual exclusion.
//
// Once created, the Open method is immediately invoked to open and use the
// persisted state on disk. This makes IOnDiskStateMachine different from
// IStateMachine types which require the state machine state to be fully
// reconstructed from saved snapshots and Raft logs.
//
// Applications that implement IOnDiskStateMachine are recommended to setup
// periodic snapshotting with relatively short time intervals, that triggers
// the state machine's metadata, usually only a few KBytes each, to be
// periodically snapshotted and thus causes negligible overheads for the system.
// It also provides opportunities for the system to signal Raft Log compactions
// to free up disk spaces.
type IOnDiskStateMachine interface {
	// Open opens the existing on disk state machine to be used or it creates a
	// new state machine with empty state if it does not exist. Open returns the
	// most recent index value of the Raft log that has been persisted, or it
	// returns 0 when the state machine is a new one.
	//
	// The provided read only chan struct{} channel is used to notify the Open
	// method that the node has been stopped and the Open method can choose to
	// abort by returning an ErrOpenStopped error.
	//
	// Open is called shortly after the Raft node is started. The Update method
	// and the Lookup method will not be called before the completion of the Open
	// method.
	Open(stopc <-chan struct{}) (uint64, error)
	// Update updates the IOnDiskStateMachine instance. The input Entry slice
	// is a list of continuous proposed and committed commands from clients, they
	// are provided together as a batch so the IOnDiskStateMachine implementation
	// can choose to batch them and apply together to hide latency. Update returns
	// the input entry slice with the Result field of all its members set.
	//
	// The read only Index field of each input Entry instance is the Raft log
	// index of each entry, it is IOnDiskStateMachine's responsibility to
	// atomically persist the Index value together with the corresponding state
	// update.
	//
	// The Update method can choose to synchronize all of its in-core state with
	// that on disk. This can minimize the number of committed Raft entries that
	// need to be re-applied after reboot. Update can also choose to postpone such
	// synchronization until the Sync method is invoked, this approach produces
	// higher throughput during fault free running at the cost that some of the
	// most recent Raft entries not synchronized onto disks will have to be
	// re-applied after reboot.
	//
	// When the Update method does not synchronize its in-core state with that on
	// disk, the implementation must ensure that after a reboot there is no
	// applied entry in the State Machine more recent than any entry that was
	// lost during reboot. For example, consider a state machine with 3 applied
	// entries, let's assume their index values to be 1, 2 and 3. Once they have
	// been applied into the state machine without synchronizing the in-core state
	// with that on disk, it is okay to lose the data associated with the applied
	// entry 3, but it is strictly forbidden to have the data associated with the
	// applied entry 3 available in the state machine while the one with index
	// value 2 got lost during reboot.
	//
	// The Update method must be deterministic, meaning given the same initial
	// state of IOnDiskStateMachine and the same input sequence, it should reach
	// to the same updated state and outputs the same results. The input entry
	// slice should be the only input to this method. Reading from the system
	// clock, random number generator or other similar external data sources will
	// likely violate the deterministic requirement of the Update method.
	//
	// Concurrent calls to the Lookup method and the SaveSnapshot method are not
	// blocked when the state machine is being updated by the Update method.
	//
	// The IOnDiskStateMachine implementation should not keep a reference to the
	// input entry slice after return.
	//
	// Update returns an error when there is unrecoverable error when updating the
	// on disk state machine.
	Update([]Entry) ([]Entry, error)
	// Lookup queries the state of the IOnDiskStateMachine instance and returns
	// the query result as an interface{}. The input interface{} specifies what to
	// query, it is up to the IOnDiskStateMachine implementation to interpret such
	// input. The returned interface{} contains the query result.
	//
	// When an error is returned by the Lookup method, the error will be passed
	// to the caller to be handled. A typical scenario for returning an error is
	// that the state machine has already been closed or aborted from a
	// RecoverFromSnapshot procedure before Lookup is called.
	//
	// Concurrent calls to the Update and RecoverFromSnapshot method are not
	// blocked when calls to the Lookup method are being processed.
	//
	// The IOnDiskStateMachine implementation should not keep any reference of
	// the input interface{} after return.
	//
	// The Lookup method is a read only method, it should never change the state
	// of IOnDiskStateMachine.
	Lookup(interface{}) (interface{}, error)
	// Sync synchronizes all in-core state of the state machine to persisted
	// storage so the state machine can continue from its latest state after
	// reboot.
	//
	// Sync is always invoked with mutual exclusion protection from the Update,
	// PrepareSnapshot, RecoverFromSnapshot and Close methods.
	//
	// Sync returns an error when there is unrecoverable error for synchronizing
	// the in-core state.
	Sync() error
	// PrepareSnapshot prepares the snapshot to be concurrently captured and
	// streamed. PrepareSnapshot is invoked before SaveSnapshot is called and it
	// is always invoked with mutual exclusion protection from the Update, Sync,
	// RecoverFromSnapshot and Close methods.
	//
	// PrepareSnapshot in general saves a state identifier of the current state,
	// such state identifier can be a version number, a sequence number, a change
	// ID or some other small in memory data structure used for describing the
	// point in time state of the state machine. The state identifier is returned
	// as an interface{} before being passed to the SaveSnapshot() method.
	//
	// PrepareSnapshot returns an error when there is unrecoverable error for
	// preparing the snapshot.
	PrepareSnapshot() (interface{}, error)
	// SaveSnapshot saves the point in time state of the IOnDiskStateMachine
	// instance identified by the input state identifier, which is usually not
	// the latest state of the IOnDiskStateMachine instance, to the provided
	// io.Writer.
	//
	// It is application's responsibility to save the complete state to the
	// provided io.Writer in a deterministic manner. That is for the same state
	// machine state, when SaveSnapshot is invoked multiple times with the same
	// input state identifier, the content written to the provided io.Writer
	// should always be the same.
	//
	// When there is any connectivity error between the local node and the remote
	// node, an ErrSnapshotStreaming will be returned by io.Writer's Write method.
	// The SaveSnapshot method should return ErrSnapshotStreaming to abort its
	// operation.
	//
	// It is SaveSnapshot's responsibility to free the resources owned by the
	// input state identifier when it is done.
	//
	// The provided read-only chan struct{} is provided to notify the SaveSnapshot
	// method that the associated Raft node is being closed so the
	// IOnDiskStateMachine can choose to abort the SaveSnapshot procedure and
	// return ErrSnapshotStopped immediately.
	//
	// SaveSnapshot is allowed to abort the snapshotting operation at any time by
	// returning ErrSnapshotAborted.
	//
	// The SaveSnapshot method is allowed to be invoked when there is concurrent
	// call to the Update method. SaveSnapshot is a read-only method, it should
	// never change the state of the IOnDiskStateMachine.
	//
	// SaveSnapshot returns the encountered error when generating the snapshot.
	// Other than the above mentioned ErrSnapshotStopped and ErrSnapshotAborted
	// errors, the IOnDiskStateMachine implementation should only return a non-nil
	// error when the system need to be immediately halted for critical errors,
	// e.g. disk error preventing you from saving the snapshot.
	SaveSnapshot(interface{}, io.Writer, <-chan struct{}) error
	// RecoverFromSnapshot recovers the state of the IOnDiskStateMachine instance
	// from a snapshot captured by the SaveSnapshot() method on a remote node. The
	// saved snapshot is provided as an io.Reader backed by a file stored on disk.
	//
	// Dragonboat ensures that the Update, Sync, PrepareSnapshot, SaveSnapshot and
	// Close methods will not be invoked when RecoverFromSnapshot() is in
	// progress.
	//
	// The provided read-only chan struct{} is provided to notify the
	// RecoverFromSnapshot method that the associated Raft node has been closed.
	// On receiving such notification, RecoverFromSnapshot() can choose to
	// abort recovering from the snapshot and return an ErrSnapshotStopped error
	// immediately. Other than ErrSnapshotStopped, IOnDiskStateMachine should
	// only return a non-nil error when the system need to be immediately halted
	// for non-recoverable error.
	//
	// RecoverFromSnapshot is not required to synchronize its recovered in-core
	// state with that on disk.
	RecoverFromSnapshot(io.Reader, <-chan struct{}) error
	// Close closes the IOnDiskStateMachine instance. Close is invoked when the
	// state machine is in a ready-to-exit state in which there will be no further
	// call to the Update, Sync, PrepareSnapshot, SaveSnapshot and the
	// RecoverFromSnapshot method. It is possible to have concurrent Lookup calls,
	// Lookup can also be called after the return of Close.
	//
	// Close allows the application to finalize resources to a state easier to
	// be re-opened and restarted in the future. It is important to understand
	// that Close is not guaranteed to be always invoked, e.g. node can crash at
	// any time without calling the Close method. IOnDiskStateMachine should be
	// designed in a way that the safety and integrity of its on disk data
	// doesn't rely on whether Close is eventually called or not.
	//
	// Other than setting up some internal flags to indicate that the
	// IOnDiskStateMachine instance has been closed, the Close method is not
	// allowed to update the state of IOnDiskStateMachine visible to the outside.
	Close() error
}

// CreateOnDiskStateMachineFunc is a factory function type for creating
// IOnDiskStateMachine instances.
type CreateOnDiskStateMachineFunc func(shardID uint64, replicaID uint64) IOnDiskStateMachine
