// Copyright 2017-2020 Lei Ni (nilei81@gmail.com) and other contributors.
//
// Licensed under the Apache License, Version 2.0 (the "License");
// you may not use this file except in compliance with the License.
// You may obtain a copy of the License at
//
//     http://www.apache.org/licenses/LICENSE-2.0
//
// Unless required by applicable law or agreed to in writing, software
// distributed under the License is distributed on an "AS IS" BASIS,
// WITHOUT WARRANTIES OR CONDITIONS OF ANY KIND, either express or implied.
// See the License for the specific language governing permissions and
// limitations under the License.

package statemachine

import (
	"github.com/cockroachdb/errors"
)

var (
	// ErrNotImplemented indicates that the requested optional feature is not
	// implemented by the state machine.
	ErrNotImplemented = errors.New("requested feature not implemented")
)

// IHash is an optional interface to be implemented by a user state machine type
// when the ability to generate state machine hash is required.
type IHash interface {
	// GetHash returns a uint64 value used to represent the current state of the
	// state machine. The hash should be generated in a deterministic manner
	// which means nodes from the same Raft shard are suppose to return the
	// same hash result when they have the same Raft Log entries applied.
	//
	// GetHash is a read-only operation.
	GetHash() (uint64, error)
}

// IExtended is an optional interface to be implemented by a user state machine
// type, most of its member methods are for performance optimization purposes.
type IExtended interface {
	// NALookup is similar to user state machine's Lookup method, it tries to
	// minimize extra heap allocation by taking a byte slice as the input and the
	// returned query result is also provided as a byte slice. The input byte
	// slice specifies what to query, it is up to the implementation to interpret
	// the input byte slice.
	//
	// Lookup method is a read-only method, it should never change state machine's
	// state.
	NALookup([]byte) ([]byte, error)
}
