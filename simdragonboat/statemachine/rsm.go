// Copyright 2018-2021 Lei Ni (nilei81@gmail.com) and other contributors.
//
// Licensed under the Apache License, Version 2.0 (the "License");
// you may not use this file except in compliance with the License.
// You may obtain a copy of the License at
//
//     http://www.apache.org/licenses/LICENSE-2.0
//
// Unless required by applicable law or agreed to in writing, software
// distributed under the License is distributed on an "AS IS" BASIS,
// WITHOUT WARRANTIES OR CONDITIONS OF ANY KIND, either express or implied.
// See the License for the specific language governing permissions and
// limitations under the License.

/*
Package statemachine contains the definitions of the IStateMachine and
IOnDiskStateMachine interfaces for supporting the replicated state machine
approach.

User services are provided with fault tolerance when they are implemented
as IStateMachine or IOnDiskStateMachine instances. The Update method is
used for update operations for the services, the Lookup method is used for
handling read only queries to the services, snapshot related methods,
including PrepareSnapshot, SaveSnapshot and RecoverFromSnapshot, are used
to update service state based on snapshots.
*/
package statemachine

import (
	"io"

	"github.com/cockroachdb/errors"
)

var (
	// ErrSnapshotStopped is returned by state machine's SaveSnapshot and
	// RecoverFromSnapshot methods to indicate that those two snapshot operations
	// have been aborted as the associated raft node is being closed.
	ErrSnapshotStopped = errors.New("snapshot stopped")
	// ErrSnapshotAborted is returned by state machine's SaveSnapshot method to
	// indicate that the SaveSnapshot operation is aborted by the user.
	ErrSnapshotAborted = errors.New("snapshot aborted")
)

// Type is the state machine type.
type Type uint64

const (
	// RegularStateMachine is the state machine type that implements
	// IStateMachine.
	RegularStateMachine = 1
	// ConcurrentStateMachine is the state machine type that implements
	// IConcurrentStateMachine
	ConcurrentStateMachine = 2
	// OnDiskStateMachine is the state machine type that implements
	// IOnDiskStateMachine
	OnDiskStateMachine = 3
)

// SnapshotFile is the struct used to describe external files included in a
// snapshot.
type SnapshotFile struct {
	// FileID is the ID of the file provided to ISnapshotFileCollection.AddFile().
	FileID uint64
	// Filepath is the current full path of the file.
	Filepath string
	// Metadata is the metadata provided to ISnapshotFileCollection.AddFile().
	Metadata []byte
}

// ISnapshotFileCollection is the interface used by the
// IStateMachine.SaveSnapshot() method for recording external files that should
// be included as a part of the snapshot being created.
//
// For example, consider you have a IStateMachine implementation internally
// backed by a NoSQL DB, when creating a snapshot of the IStateMachine instance,
// the state of the NoSQL DB need to be captured and saved as well. When the
// NoSQL has its own built-in feature to snapshot the current state into some
// on-disk files, these files should be included in IStateMachine's snapshot so
// they can be used to reconstruct the current state of the NoSQL DB when the
// IStateMachine instance recovers from the saved snapshot.
type ISnapshotFileCollection interface {
	// AddFile adds an external file to the snapshot being currently generated.
	// The file must have been finalized meaning its content will not change in
	// the future. It is your application's responsibility to make sure that the
	// file being added is accessible from the current process and it is
	// possible to create a hard link to it from the NodeHostDir directory
	// specified in NodeHost's NodeHostConfig. The file to be added is identified
	// by the specified fileID. The metadata byte slice is the metadata of the
	// file being added. It can be the checksum of the file, file type, file name,
	// other file hierarchy information, or a serialized combination of such
	// metadata.
	AddFile(fileID uint64, path string, metadata []byte)
}

// Result is the result type generated and returned by the Update method in
// IStateMachine and IOnDiskStateMachine types.
type Result struct {
	// Value is a 64 bits integer value used to indicate the outcome of the
	// update operation.
	Value uint64
	// Data is an optional byte slice created and returned by the update
	// operation. It is useful for CompareAndSwap style updates in which an
	// arbitrary length of bytes need to be returned.
	// Users are strongly recommended to use the query methods supported by
	// NodeHost to query the state of their IStateMachine and IOnDiskStateMachine
	// types, proposal based queries are known to work but are not recommended.
	Data []byte
}

// Entry represents a Raft log entry that is going to be provided to the Update
// method of an IConcurrentStateMachine or IOnDiskStateMachine instance.
type Entry struct {
	// Index is the Raft log index of the entry. The field is set by the
	// Dragonboat library and it is strictly read-only.
	Index uint64
	// Cmd is the proposed command. This field is strictly read-only.
	Cmd []byte
	// Result is the result value obtained from the Update method of an
	// IConcurrentStateMachine or IOnDiskStateMachine instance.
	Result Result
}

// IStateMachine is the interface to be implemented by application's state
// machine when most of the state machine data is stored in memory. It is the
// basic state machine type described in the Raft thesis.
//
// A sync.RWMutex is used internally by dragonboat as a reader/writer mutual
// exclusion lock to guard the IStateMachine instance when accessing
// IStateMachine's member methods. The Update, RecoverFromSnapshot and Close
// methods are invoked when the write lock is acquired, other methods are
// invoked when the shared read lock is acquired.
//
// As the state is mostly in memory, snapshots are usually periodically captured
// to save its state to disk. After each reboot, IStateMachine state must be
// reconstructed from the empty state based on the latest snapshot and saved
// Raft logs.
//
// When created, an IStateMachine instance should always start from an empty
// state. Saved snapshots and Raft logs will be used to help a rebooted
// IStateMachine instance to catch up to its previous state.
type IStateMachine interface {
	// Update updates the IStateMachine instance. The input data slice is the
	// proposed command from client, it is up to the IStateMachine implementation
	// to interpret this byte slice and update the IStateMachine instance
	// accordingly.
	//
	// The Update method must be deterministic, meaning given the same initial
	// state of IStateMachine and the same input, it should always reach to the
	// same updated state and outputs the same returned value. This requires the
	// input byte slice should be the only input to this method. Reading from
	// system clock, random number generator or other similar data sources will
	// likely violate the deterministic requirement of the Update method.
	//
	// The IStateMachine implementation should not keep a reference to the input
	// byte slice after return.
	//
	// Update returns a Result value used to indicate the outcome of the update
	// operation. An error is returned when there is unrecoverable error, such
	// error will cause the program to panic.
	Update(Entry) (Result, error)
	// Lookup queries the state of the IStateMachine instance. The input
	// interface{} specifies what to query, it is up to the IStateMachine
	// implementation to interpret such input interface{}. The returned
	// interface{} is the query result provided by the IStateMachine
	// implementation.
	//
	// The IStateMachine implementation should not keep a reference of the input
	// interface{} after return. The Lookup method is a read only method, it
	// should never change the state of IStateMachine.
	//
	// When an error is returned by the Lookup method, it will be passed to the
	// user client.
	Lookup(interface{}) (interface{}, error)
	// SaveSnapshot saves the current state of the IStateMachine instance to the
	// provided io.Writer backed by an on disk file. SaveSnapshot is a read only
	// operation.
	//
	// The data saved into the io.Writer is usually the in-memory data, while the
	// ISnapshotFileCollection instance is used to record immutable files that
	// should also be included as a part of the snapshot. It is application's
	// responsibility to save the complete state so that the reconstructed
	// IStateMachine state based on such saved snapshot will be considered as
	// identical to the original state.
	//
	// The provided read-only chan struct{} is used to notify that the associated
	// Raft node is being closed so the implementation can choose to abort the
	// SaveSnapshot procedure and return ErrSnapshotStopped immediately.
	//
	// SaveSnapshot is allowed to abort the snapshotting operation at any time by
	// returning ErrSnapshotAborted.
	//
	// Other than the above mentioned ErrSnapshotStopped and ErrSnapshotAborted
	// errors, the IStateMachine implementation should only return a non-nil error
	// when the system need to be immediately halted for critical errors, e.g.
	// disk error preventing you from saving the snapshot.
	SaveSnapshot(io.Writer, ISnapshotFileCollection, <-chan struct{}) error
	// RecoverFromSnapshot recovers the state of an IStateMachine instance from a
	// previously saved snapshot captured by the SaveSnapshot method. The saved
	// snapshot is provided as an io.Reader backed by an on disk file and
	// a list of immutable files previously recorded into the
	// ISnapshotFileCollection by the SaveSnapshot method.
	//
	// The provided read-only chan struct{} is used to notify the
	// RecoverFromSnapshot() method that the associated Raft node is being closed.
	// On receiving such notification, RecoverFromSnapshot() can choose to
	// abort and return ErrSnapshotStopped immediately. Other than
	// ErrSnapshotStopped, IStateMachine should only return a non-nil error when
	// the system must be immediately halted for non-recoverable error, e.g. disk
	// error preventing you from reading the complete saved snapshot.
	RecoverFromSnapshot(io.Reader, []SnapshotFile, <-chan struct{}) error
	// Close closes the IStateMachine instance.
	//
	// The Close method is not allowed to update the state of the IStateMachine
	// visible to IStateMachine's Lookup method.
	//
	// This allows the application to finalize resources to a state easier to be
	// re-opened and used in the future. It is important to understand that Close
	// is not guaranteed to be always called, e.g. node might crash at any time.
	// IStateMachine should be designed in a way that the safety and integrity of
	// its managed data doesn't rely on whether the Close method is called or not.
	Close() error
}

// CreateStateMachineFunc is a factory function type for creating IStateMachine
// instances.
type CreateStateMachineFunc func(shardID uint64, replicaID uint64) IStateMachine
