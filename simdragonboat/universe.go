package dragonboat

import (
	"bytes"
	"fmt"
	"hash/fnv"
	"sort"
	"sync"
	"sync/atomic"

	"github.com/lni/dragonboat/v4/config"
	"github.com/lni/dragonboat/v4/raftio"
	pb "github.com/lni/dragonboat/v4/raftpb"
	sm "github.com/lni/dragonboat/v4/statemachine"
)

// ShardKey names one Raft group: shard ids repeat across clusters (every
// cluster has a metadata shard 1000 and tables from 10001 up).
type ShardKey struct {
	Cluster string
	ShardID uint64
}

func (k ShardKey) String() string { return fmt.Sprintf("%s/%d", k.Cluster, k.ShardID) }

// ProposalFault is what the simulator does to one proposal.
type ProposalFault int

const (
	FaultNone           ProposalFault = iota
	FaultBusy                         // not appended, ErrSystemBusy
	FaultDropped                      // not appended, ErrShardNotReady
	FaultTimeoutLost                  // not appended, ErrTimeout (caller cannot know)
	FaultTimeoutApplied               // appended and applied, but the caller gets ErrTimeout
	FaultTimeoutLate                  // committed; the caller gets ErrTimeout; its own replica applies later
)

// Universe is the simulated Raft world. The harness creates one per run, installs
// it with SetUniverse and drives faults through its methods.
type Universe struct {
	mu sync.Mutex

	Seed uint64
	// ClusterOf maps a NodeHost's RaftAddress to the name of the cluster it belongs to.
	ClusterOf func(raftAddress string) string
	// BusyPermille / DropPermille / TimeoutLostPermille / TimeoutAppliedPermille: keyed
	// per-proposal fault rates (0 = never). Only shards with id > FaultMinShard are affected.
	BusyPermille           uint64
	DropPermille           uint64
	TimeoutLostPermille    uint64
	TimeoutAppliedPermille uint64
	// TimeoutLatePermille: slow apply. The entry is committed at its place in the log, the other replicas
	// apply it, the proposer gets ErrTimeout and its own replica applies (in log order) after a keyed delay
	// of up to TimeoutLateMaxMs of fake time: what a proposal that outlives its caller's deadline does
	// when the local state machine is behind.
	TimeoutLatePermille uint64
	TimeoutLateMaxMs    uint64
	FaultMinShard       uint64
	// ReadBusyPermille: keyed probability that a linearizable read is refused with ErrSystemBusy
	// (the read-index queue of an overloaded node is full).
	ReadBusyPermille uint64
	// Gate, if set, is called outside the simulator lock at the entry of every SyncPropose, SyncRead and
	// StaleRead; the harness may park the calling goroutine there (token hand-over point).
	Gate func(kind, raftAddress string, shardID uint64, payload any)
	// GoID, if set, returns the id of the calling goroutine (harness-provided; makes StaleRead callable from
	// inside state machine callbacks).
	GoID    func() uint64
	smOwner uint64
	// Yield, if set, is called outside the simulator lock at the entry of every SyncPropose, SyncRead and
	// StaleRead: where the real library would make the caller wait, the harness may let another goroutine run.
	Yield func()
	// CutPermille: probability (keyed per replica and index) that an apply batch is cut after an entry.
	CutPermille uint64
	// OnEvent, if set, receives a description of every simulator decision (for run digests).
	OnEvent func(string)

	hosts   map[string]*NodeHost  // live hosts by RaftAddress
	stores  map[string]*hostStore // persistent per-address state (bootstrap records)
	shards  map[ShardKey]*Shard
	fatals  []string
	counter map[string]uint64
	stats   map[string]int64
	nreads  uint64
}

type hostStore struct {
	nodeInfo map[raftio.NodeInfo]bool
	nhid     string
}

// Shard is one simulated Raft group.
type Shard struct {
	Key      ShardKey
	entries  []pb.Entry // entries[i] has index i+1; never physically truncated
	term     uint64
	leader   uint64
	members  map[uint64]string
	replicas map[uint64]*Replica
	smType   sm.Type
	nprop    uint64
}

// Replica is one member of a shard.
type Replica struct {
	shard   *Shard
	ID      uint64
	addr    string
	host    *NodeHost
	running bool
	// Lagging replicas apply only on demand (own proposals, linearizable reads) or on explicit CatchUp.
	Lagging bool
	// Stalled replicas cannot apply at all: calls that need them time out.
	Stalled   bool
	slowUntil uint64 // token of the pending slow-apply resume timer (FaultTimeoutLate)
	halted    bool

	disk sm.IOnDiskStateMachine
	conc sm.IConcurrentStateMachine
	cfg  config.Config

	applied       uint64
	marker        uint64 // log compacted up to and including this index
	ccIndex       uint64
	sinceSnapshot uint64
	snap          *memSnapshot
	stopc         chan struct{}
	results       map[uint64]sm.Result
	wantResult    uint64
}

type memSnapshot struct {
	index uint64
	data  []byte
}

var current atomic.Pointer[Universe]

// SetUniverse installs the universe used by NewNodeHost.
func SetUniverse(u *Universe) { current.Store(u) }

func NewUniverse(seed uint64) *Universe {
	return &Universe{Seed: seed, hosts: map[string]*NodeHost{}, stores: map[string]*hostStore{}, shards: map[ShardKey]*Shard{},
		counter: map[string]uint64{}, stats: map[string]int64{}, ClusterOf: func(string) string { return "default" }, FaultMinShard: 1000}
}

func mix64(z uint64) uint64 {
	z = (z ^ (z >> 30)) * 0xbf58476d1ce4e5b9
	z = (z ^ (z >> 27)) * 0x94d049bb133111eb
	return z ^ (z >> 31)
}

// keyed returns K(seed, tag, vals...).
func (u *Universe) keyed(tag string, vals ...uint64) uint64 {
	h := fnv.New64a()
	_, _ = h.Write([]byte(tag))
	x := mix64(u.Seed ^ h.Sum64())
	for _, v := range vals {
		x = mix64(x ^ mix64(v+0x9e3779b97f4a7c15))
	}
	return x
}

func strHash(s string) uint64 {
	h := fnv.New64a()
	_, _ = h.Write([]byte(s))
	return h.Sum64()
}

func (u *Universe) event(format string, a ...any) {
	if u.OnEvent != nil {
		u.OnEvent(fmt.Sprintf(format, a...))
	}
}

func (u *Universe) stat(name string) { u.stats[name]++ }

// Stats returns counters of simulator activity (faults that actually fired etc.).
func (u *Universe) Stats() map[string]int64 {
	u.mu.Lock()
	defer u.mu.Unlock()
	out := map[string]int64{}
	for k, v := range u.stats {
		out[k] = v
	}
	return out
}

// Fatals lists state-machine errors and panics; a real node would have halted.
func (u *Universe) Fatals() []string {
	u.mu.Lock()
	defer u.mu.Unlock()
	return append([]string(nil), u.fatals...)
}

func (s *Shard) last() uint64 { return uint64(len(s.entries)) }

func (s *Shard) quorum() int { return len(s.members)/2 + 1 }

func (s *Shard) sortedReplicas() []*Replica {
	ids := make([]uint64, 0, len(s.replicas))
	for id := range s.replicas {
		ids = append(ids, id)
	}
	sort.Slice(ids, func(i, j int) bool { return ids[i] < ids[j] })
	out := make([]*Replica, len(ids))
	for i, id := range ids {
		out[i] = s.replicas[id]
	}
	return out
}

func (r *Replica) up() bool {
	return r.running && !r.halted && r.host != nil && !r.host.closed && !r.host.partitioned
}

func (s *Shard) liveVoters() int {
	n := 0
	for id := range s.members {
		if r := s.replicas[id]; r != nil && r.up() {
			n++
		}
	}
	return n
}

func (s *Shard) hasQuorum() bool { return s.liveVoters() >= s.quorum() }

// ---- elections -------------------------------------------------------------------

// ensureLeaderLocked elects a leader if there is none and a quorum is up. Every new term
// appends one empty entry, as Raft does.
func (u *Universe) ensureLeaderLocked(s *Shard) {
	if s.leader != 0 {
		if r := s.replicas[s.leader]; r != nil && r.up() && s.hasQuorum() {
			return
		}
		u.setLeaderLocked(s, 0)
	}
	if !s.hasQuorum() {
		return
	}
	var cands []uint64
	for _, r := range s.sortedReplicas() {
		if _, voter := s.members[r.ID]; voter && r.up() && !r.Stalled {
			cands = append(cands, r.ID)
		}
	}
	if len(cands) == 0 {
		return
	}
	pick := cands[u.keyed("elect", strHash(s.Key.String()), s.term)%uint64(len(cands))]
	u.setLeaderLocked(s, pick)
}

func (u *Universe) setLeaderLocked(s *Shard, leader uint64) {
	if leader == s.leader {
		return
	}
	if leader != 0 {
		s.term++
		s.entries = append(s.entries, pb.Entry{Index: s.last() + 1, Term: s.term, Type: pb.ApplicationEntry})
		u.stat("leader-elected")
	} else {
		u.stat("leader-lost")
	}
	s.leader = leader
	u.event("leader %s term=%d leader=%d", s.Key, s.term, leader)
	for _, r := range s.sortedReplicas() {
		if r.up() {
			r.host.postLeaderUpdated(raftio.LeaderInfo{ShardID: s.Key.ShardID, ReplicaID: r.ID, Term: s.term, LeaderID: leader})
		}
	}
}

// ---- applying ----------------------------------------------------------------------

func isRegular(e pb.Entry) bool {
	return e.Type != pb.ConfigChangeEntry && e.Type != pb.MetadataEntry && len(e.Cmd) > 0
}

func payload(e pb.Entry) []byte {
	if e.Type == pb.EncodedEntry {
		return append([]byte(nil), e.Cmd[1:]...)
	}
	return append([]byte(nil), e.Cmd...)
}

func (u *Universe) fatal(r *Replica, what string, err any) {
	msg := fmt.Sprintf("%s replica %d: %s: %v", r.shard.Key, r.ID, what, err)
	u.fatals = append(u.fatals, msg)
	r.halted = true
	u.event("fatal %s", msg)
}

func guard(f func()) (pv any) {
	defer func() {
		if r := recover(); r != nil {
			pv = r
		}
	}()
	f()
	return nil
}

// guard runs a state machine callback (the simulator lock is held) and remembers which goroutine is inside
// it: the real library lets a state machine read other shards (StaleRead) from its callbacks, which here
// would be a second acquisition of the same lock.
func (u *Universe) guard(f func()) (pv any) {
	if u.GoID != nil {
		prev := u.smOwner
		u.smOwner = u.GoID()
		defer func() { u.smOwner = prev }()
	}
	return guard(f)
}

// nested reports whether the caller is inside a state machine callback run by the simulator.
func (u *Universe) nested() bool {
	return u.GoID != nil && u.smOwner != 0 && u.smOwner == u.GoID()
}

// applyLocked brings a replica up to index upTo (bounded by the log). It installs a snapshot
// first when the entries it needs are compacted at the leader.
func (u *Universe) applyLocked(r *Replica, upTo uint64) error {
	s := r.shard
	if upTo > s.last() {
		upTo = s.last()
	}
	if !r.running || r.halted {
		return ErrShardClosed
	}
	for r.applied < upTo {
		next := r.applied + 1
		if donor := s.replicas[s.leader]; donor != nil && donor != r && next <= donor.marker {
			if err := u.installSnapshotLocked(donor, r); err != nil {
				return err
			}
			if r.applied < next {
				// the donor itself is below its own compaction marker: nobody can serve this replica now
				return ErrShardNotReady
			}
			continue
		}
		e := s.entries[next-1]
		if !isRegular(e) {
			if e.Type == pb.ConfigChangeEntry {
				r.ccIndex = e.Index
				if r.up() {
					r.host.postSys(func(l raftio.ISystemEventListener) {
						l.MembershipChanged(raftio.NodeInfo{ShardID: s.Key.ShardID, ReplicaID: r.ID})
					})
				}
			}
			r.applied = next
			continue
		}
		// one batch: consecutive regular entries, cut by keyed decisions
		var batch []sm.Entry
		idx := next
		for idx <= upTo && isRegular(s.entries[idx-1]) {
			batch = append(batch, sm.Entry{Index: idx, Cmd: payload(s.entries[idx-1])})
			idx++
			if u.CutPermille > 0 && u.keyed("cut", strHash(s.Key.String()), r.ID, idx)%1000 < u.CutPermille {
				break
			}
		}
		var res []sm.Entry
		var err error
		pv := u.guard(func() {
			if r.disk != nil {
				res, err = r.disk.Update(batch)
			} else {
				res, err = r.conc.Update(batch)
			}
		})
		if pv != nil {
			u.fatal(r, "Update panicked", pv)
			return ErrShardClosed
		}
		if err != nil {
			u.fatal(r, "Update failed", err)
			return ErrShardClosed
		}
		if len(batch) > 1 {
			u.stat("multi-entry-batch")
		}
		for _, e := range res {
			if e.Index == r.wantResult {
				r.results[e.Index] = sm.Result{Value: e.Result.Value, Data: append([]byte(nil), e.Result.Data...)}
			}
		}
		r.applied = batch[len(batch)-1].Index
		r.sinceSnapshot += uint64(len(batch))
		if se := r.cfg.SnapshotEntries; se > 0 && r.sinceSnapshot >= se {
			u.snapshotLocked(r)
		}
	}
	return nil
}

// snapshotLocked is the periodic snapshot cycle: for an on-disk state machine Sync() and
// metadata only, for an in-memory one a full image; then the replica's log is compacted
// to index - CompactionOverhead and LogCompacted is announced.
func (u *Universe) snapshotLocked(r *Replica) {
	s := r.shard
	r.sinceSnapshot = 0
	if r.disk != nil {
		var err error
		if pv := u.guard(func() { err = r.disk.Sync() }); pv != nil || err != nil {
			u.fatal(r, "Sync failed", fmt.Sprint(err, pv))
			return
		}
	} else {
		var buf bytes.Buffer
		var err error
		pv := u.guard(func() {
			var ctx any
			ctx, err = r.conc.PrepareSnapshot()
			if err == nil {
				err = r.conc.SaveSnapshot(ctx, &buf, nil, r.stopc)
			}
		})
		if pv != nil || err != nil {
			u.fatal(r, "SaveSnapshot failed", fmt.Sprint(err, pv))
			return
		}
		r.snap = &memSnapshot{index: r.applied, data: buf.Bytes()}
	}
	u.stat("snapshot-cycle")
	index := r.applied
	if r.up() {
		r.host.postSys(func(l raftio.ISystemEventListener) {
			l.SnapshotCreated(raftio.SnapshotInfo{ShardID: s.Key.ShardID, ReplicaID: r.ID, Index: index})
		})
	}
	if index > r.cfg.CompactionOverhead {
		if nm := index - r.cfg.CompactionOverhead; nm > r.marker {
			r.marker = nm
			u.stat("log-compaction")
			u.event("compact %s r%d marker=%d", s.Key, r.ID, nm)
			if r.up() {
				r.host.postSys(func(l raftio.ISystemEventListener) {
					l.LogCompacted(raftio.EntryInfo{ShardID: s.Key.ShardID, ReplicaID: r.ID, Index: nm})
				})
			}
		}
	}
}

// installSnapshotLocked streams a snapshot from donor to r (PrepareSnapshot + SaveSnapshot on
// the donor, RecoverFromSnapshot on the receiver).
func (u *Universe) installSnapshotLocked(donor, r *Replica) error {
	if !donor.up() {
		return ErrShardNotReady
	}
	var buf bytes.Buffer
	var err error
	at := donor.applied
	pv := u.guard(func() {
		var ctx any
		if donor.disk != nil {
			ctx, err = donor.disk.PrepareSnapshot()
			if err == nil {
				err = donor.disk.SaveSnapshot(ctx, &buf, donor.stopc)
			}
		} else {
			ctx, err = donor.conc.PrepareSnapshot()
			if err == nil {
				err = donor.conc.SaveSnapshot(ctx, &buf, nil, donor.stopc)
			}
		}
	})
	if pv != nil || err != nil {
		u.fatal(donor, "snapshot save failed", fmt.Sprint(err, pv))
		return ErrShardNotReady
	}
	image := append([]byte(nil), buf.Bytes()...)
	pv = u.guard(func() {
		if r.disk != nil {
			err = r.disk.RecoverFromSnapshot(&buf, r.stopc)
		} else {
			err = r.conc.RecoverFromSnapshot(&buf, nil, r.stopc)
		}
	})
	if pv != nil || err != nil {
		u.fatal(r, "RecoverFromSnapshot failed", fmt.Sprint(err, pv))
		return ErrShardClosed
	}
	u.stat("snapshot-install")
	u.event("install %s r%d<-r%d index=%d", r.shard.Key, r.ID, donor.ID, at)
	r.applied = at
	if at > r.marker {
		r.marker = at
	}
	if r.conc != nil {
		// a received snapshot is persisted like one of the replica's own: an in-memory state machine
		// restarts from it (its log below the marker is gone)
		r.snap = &memSnapshot{index: at, data: image}
	}
	r.ccIndex = donor.ccIndex
	r.sinceSnapshot = 0
	if r.up() {
		s := r.shard
		r.host.postSys(func(l raftio.ISystemEventListener) {
			l.SnapshotRecovered(raftio.SnapshotInfo{ShardID: s.Key.ShardID, ReplicaID: r.ID, From: donor.ID, Index: at})
		})
	}
	return nil
}

// followersCatchUpLocked lets every non-lagging replica apply what is committed.
func (u *Universe) followersCatchUpLocked(s *Shard, except *Replica) {
	for _, o := range s.sortedReplicas() {
		if o != except && o.up() && !o.Lagging && !o.Stalled {
			_ = u.applyLocked(o, s.last())
		}
	}
}

// ---- harness controls ----------------------------------------------------------------

func (u *Universe) shard(cluster string, shardID uint64) *Shard {
	return u.shards[ShardKey{cluster, shardID}]
}

// SetLag puts a replica into (or out of) on-demand apply mode. replicaID 0 = every replica of the shard.
func (u *Universe) SetLag(cluster string, shardID, replicaID uint64, lagging bool) {
	u.mu.Lock()
	defer u.mu.Unlock()
	if s := u.shard(cluster, shardID); s != nil {
		for _, r := range s.sortedReplicas() {
			if replicaID == 0 || r.ID == replicaID {
				r.Lagging = lagging
				if !lagging && r.up() && !r.Stalled {
					_ = u.applyLocked(r, s.last())
				}
			}
		}
	}
}

// SetStalled makes a replica unable to apply (a stalled node); proposals and linearizable
// reads served by it time out.
func (u *Universe) SetStalled(cluster string, shardID, replicaID uint64, stalled bool) {
	u.mu.Lock()
	defer u.mu.Unlock()
	if s := u.shard(cluster, shardID); s != nil {
		if r := s.replicas[replicaID]; r != nil {
			r.Stalled = stalled
			u.ensureLeaderLocked(s)
			if !stalled && r.up() && !r.Lagging {
				_ = u.applyLocked(r, s.last())
			}
		}
	}
}

// CatchUp lets a lagging replica apply n more entries (n <= 0: everything committed).
func (u *Universe) CatchUp(cluster string, shardID, replicaID uint64, n int) {
	u.mu.Lock()
	defer u.mu.Unlock()
	if s := u.shard(cluster, shardID); s != nil {
		if r := s.replicas[replicaID]; r != nil && r.up() && !r.Stalled {
			to := s.last()
			if n > 0 && r.applied+uint64(n) < to {
				to = r.applied + uint64(n)
			}
			_ = u.applyLocked(r, to)
		}
	}
}

// CatchUpAll lets every live, non-stalled replica of every shard apply everything committed.
func (u *Universe) CatchUpAll() {
	u.mu.Lock()
	defer u.mu.Unlock()
	for _, s := range u.sortedShards() {
		u.ensureLeaderLocked(s)
		for _, r := range s.sortedReplicas() {
			if r.up() && !r.Stalled {
				_ = u.applyLocked(r, s.last())
			}
		}
	}
}

func (u *Universe) sortedShards() []*Shard {
	keys := make([]ShardKey, 0, len(u.shards))
	for k := range u.shards {
		keys = append(keys, k)
	}
	sort.Slice(keys, func(i, j int) bool {
		if keys[i].Cluster != keys[j].Cluster {
			return keys[i].Cluster < keys[j].Cluster
		}
		return keys[i].ShardID < keys[j].ShardID
	})
	out := make([]*Shard, len(keys))
	for i, k := range keys {
		out[i] = u.shards[k]
	}
	return out
}

// ChangeLeader forces a new term: the current leader is deposed and, when a quorum is up,
// another (or the same) replica is elected at once.
func (u *Universe) ChangeLeader(cluster string, shardID uint64) {
	u.mu.Lock()
	defer u.mu.Unlock()
	if s := u.shard(cluster, shardID); s != nil {
		u.setLeaderLocked(s, 0)
		u.ensureLeaderLocked(s)
		u.followersCatchUpLocked(s, nil)
	}
}

// ForceSnapshot runs the snapshot cycle (sync, compaction) on a replica now; the contract allows
// a snapshot to be requested at any time.
func (u *Universe) ForceSnapshot(cluster string, shardID, replicaID uint64) {
	u.mu.Lock()
	defer u.mu.Unlock()
	if s := u.shard(cluster, shardID); s != nil {
		for _, r := range s.sortedReplicas() {
			if (replicaID == 0 || r.ID == replicaID) && r.up() && r.applied > 0 {
				u.snapshotLocked(r)
			}
		}
	}
}

// SetPartitioned isolates a host: its replicas stop counting towards quorums and calls on it
// that need the group fail.
func (u *Universe) SetPartitioned(raftAddress string, p bool) {
	u.mu.Lock()
	defer u.mu.Unlock()
	if h := u.hosts[raftAddress]; h != nil {
		h.partitioned = p
		for _, s := range u.sortedShards() {
			u.ensureLeaderLocked(s)
			if !p {
				u.followersCatchUpLocked(s, nil)
			}
		}
	}
}

// ShardState is a read-only summary for oracles.
type ShardState struct {
	Key      ShardKey
	Last     uint64
	Term     uint64
	Leader   uint64
	Members  map[uint64]string
	Replicas map[uint64]ReplicaState
}

type ReplicaState struct {
	ID      uint64
	Addr    string
	Running bool
	Applied uint64
	Marker  uint64
	Lagging bool
	Stalled bool
	Halted  bool
}

// Shards summarises every shard (sorted).
func (u *Universe) Shards() []ShardState {
	u.mu.Lock()
	defer u.mu.Unlock()
	var out []ShardState
	for _, s := range u.sortedShards() {
		st := ShardState{Key: s.Key, Last: s.last(), Term: s.term, Leader: s.leader, Members: map[uint64]string{}, Replicas: map[uint64]ReplicaState{}}
		for k, v := range s.members {
			st.Members[k] = v
		}
		for _, r := range s.sortedReplicas() {
			st.Replicas[r.ID] = ReplicaState{ID: r.ID, Addr: r.addr, Running: r.running, Applied: r.applied, Marker: r.marker, Lagging: r.Lagging, Stalled: r.Stalled, Halted: r.halted}
		}
		out = append(out, st)
	}
	return out
}

// Shard returns the summary of one shard (ok=false if unknown).
func (u *Universe) Shard(cluster string, shardID uint64) (ShardState, bool) {
	for _, s := range u.Shards() {
		if s.Key.Cluster == cluster && s.Key.ShardID == shardID {
			return s, true
		}
	}
	return ShardState{}, false
}

// LogEntry is a committed entry as the oracle sees it.
type LogEntry struct {
	Index   uint64
	Term    uint64
	Regular bool
	Payload []byte // what the state machine receives (nil for non-regular entries)
}

// Log returns the committed log of a shard (ground truth for oracles).
func (u *Universe) Log(cluster string, shardID uint64) []LogEntry {
	u.mu.Lock()
	defer u.mu.Unlock()
	s := u.shard(cluster, shardID)
	if s == nil {
		return nil
	}
	out := make([]LogEntry, len(s.entries))
	for i, e := range s.entries {
		out[i] = LogEntry{Index: e.Index, Term: e.Term, Regular: isRegular(e)}
		if out[i].Regular {
			out[i].Payload = payload(e)
		}
	}
	return out
}
