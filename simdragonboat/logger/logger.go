// Copyright 2017-2019 Lei Ni (nilei81@gmail.com) and other contributors.
//
// Licensed under the Apache License, Version 2.0 (the "License");
// you may not use this file except in compliance with the License.
// You may obtain a copy of the License at
//
//     http://www.apache.org/licenses/LICENSE-2.0
//
// Unless required by applicable law or agreed to in writing, software
// distributed under the License is distributed on an "AS IS" BASIS,
// WITHOUT WARRANTIES OR CONDITIONS OF ANY KIND, either express or implied.
// See the License for the specific language governing permissions and
// limitations under the License.

/*
Package logger manages loggers used in dragonboat.
*/
package logger

import (
	"sync"

	"github.com/lni/dragonboat/v4/internal/invariants"
)

// LogLevel is the log level defined in dragonboat.
type LogLevel int

const (
	// CRITICAL is the CRITICAL log level
	CRITICAL LogLevel = iota - 1
	// ERROR is the ERROR log level
	ERROR
	// WARNING is the WARNING log level
	WARNING
	// INFO is the INFO log level
	INFO
	// DEBUG is the DEBUG log level
	DEBUG
)

// Factory is the factory method for creating logger used for the
// specified package.
type Factory func(pkgName string) ILogger

// ILogger is the interface implemented by loggers that can be used by
// dragonboat. You can implement your own ILogger implementation by building
// wrapper struct on top of your favourite logging library.
type ILogger interface {
	SetLevel(LogLevel)
	Debugf(format string, args ...interface{})
	Infof(format string, args ...interface{})
	Warningf(format string, args ...interface{})
	Errorf(format string, args ...interface{})
	Panicf(format string, args ...interface{})
}

// SetLoggerFactory sets the factory function used to create ILogger instances.
// This method will panic if called multiple times to prevent nil dereferences,
// multiple logging formats, and other potential issues. Ensure this is called
// only once on startup.
func SetLoggerFactory(f Factory) {
	_loggers.mu.Lock()
	defer _loggers.mu.Unlock()
	if _loggers.loggerFactory != nil {
		panic("setting the logger factory again")
	}
	_loggers.loggerFactory = f
}

// GetLogger returns the logger for the specified package name. The most common
// use case for the returned logger is to set its log verbosity level.
func GetLogger(pkgName string) ILogger {
	return getILogger(pkgName, false)
}

// GetMonkeyLogger returns a logger that only works in monkey test mode.
func GetMonkeyLogger(pkgName string) ILogger {
	return getILogger(pkgName, true)
}

func getILogger(pkgName string, monkey bool) ILogger {
	_loggers.mu.Lock()
	defer _loggers.mu.Unlock()
	l, ok := _loggers.loggers[pkgName]
	if !ok {
		l = &dragonboatLogger{pkgName: pkgName, monkeyLogger: monkey}
		_loggers.loggers[pkgName] = l
	}
	return l
}

type dragonboatLogger struct {
	logger       ILogger
	pkgName      string
	mu           sync.Mutex
	monkeyLogger bool
}

var _ ILogger = (*dragonboatLogger)(nil)

func (d *dragonboatLogger) get() ILogger {
	if d.monkeyLogger && !invariants.MonkeyTest {
		return _nullLogger
	}
	d.mu.Lock()
	defer d.mu.Unlock()
	if d.logger == nil {
		d.logger = _loggers.createILogger(d.pkgName)
	}
	return d.logger
}

func (d *dragonboatLogger) SetLevel(l LogLevel) {
	d.get().SetLevel(l)
}

func (d *dragonboatLogger) Debugf(format string, args ...interface{}) {
	d.get().Debugf(format, args...)
}

func (d *dragonboatLogger) Infof(format string, args ...interface{}) {
	d.get().Infof(format, args...)
}

func (d *dragonboatLogger) Warningf(format string, args ...interface{}) {
	d.get().Warningf(format, args...)
}

func (d *dragonboatLogger) Errorf(format string, args ...interface{}) {
	d.get().Errorf(format, args...)
}

func (d *dragonboatLogger) Panicf(format string, args ...interface{}) {
	d.get().Panicf(format, args...)
}

type sysLoggers struct {
	loggers       map[string]*dragonboatLogger
	loggerFactory Factory
	mu            sync.Mutex
}

func (l *sysLoggers) createILogger(pkgName string) ILogger {
	l.mu.Lock()
	defer l.mu.Unlock()
	if l.loggerFactory == nil {
		return createDefaultILogger(pkgName)
	}
	return l.loggerFactory(pkgName)
}

var _loggers = createSysLoggers()

func createSysLoggers() *sysLoggers {
	s := &sysLoggers{
		loggers: make(map[string]*dragonboatLogger),
	}
	return s
}

func createDefaultILogger(pkgName string) ILogger {
	return CreateCapnsLog(pkgName)
}

type nullLogger struct{}

var _ ILogger = (*nullLogger)(nil)
var _nullLogger = nullLogger{}

func (nullLogger) SetLevel(LogLevel)                           {}
func (nullLogger) Debugf(format string, args ...interface{})   {}
func (nullLogger) Infof(format string, args ...interface{})    {}
func (nullLogger) Warningf(format string, args ...interface{}) {}
func (nullLogger) Errorf(format string, args ...interface{})   {}
func (nullLogger) Panicf(format string, args ...interface{})   {}
