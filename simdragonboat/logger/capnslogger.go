// Copyright 2017-2019 Lei Ni (nilei81@gmail.com) and other contributors.
//
// Licensed under the Apache License, Version 2.0 (the "License");
// you may not use this file except in compliance with the License.
// You may obtain a copy of the License at
//
//     http://www.apache.org/licenses/LICENSE-2.0
//
// Unless required by applicable law or agreed to in writing, software
// distributed under the License is distributed on an "AS IS" BASIS,
// WITHOUT WARRANTIES OR CONDITIONS OF ANY KIND, either express or implied.
// See the License for the specific language governing permissions and
// limitations under the License.

package logger

import (
	"github.com/lni/goutils/logutil/capnslog"
)

const (
	// RepoName is the repo name used in capnslog.
	RepoName = "github.com/lni/dragonboat/v4"
)

// CreateCapnsLog creates an ILogger instance based on capnslog.
func CreateCapnsLog(pkgName string) ILogger {
	return &capnsLog{
		logger: capnslog.NewPackageLogger(RepoName, pkgName),
	}
}

type capnsLog struct {
	logger *capnslog.PackageLogger
}

var _ ILogger = (*capnsLog)(nil)

func (c *capnsLog) SetLevel(level LogLevel) {
	var cl capnslog.LogLevel
	if level == CRITICAL {
		cl = capnslog.CRITICAL
	} else if level == ERROR {
		cl = capnslog.ERROR
	} else if level == WARNING {
		cl = capnslog.WARNING
	} else if level == INFO {
		cl = capnslog.INFO
	} else if level == DEBUG {
		cl = capnslog.DEBUG
	} else {
		panic("unexpected level")
	}
	c.logger.SetLevel(cl)
}

func (c *capnsLog) Debugf(format string, args ...interface{}) {
	c.logger.Debugf(format, args...)
}

func (c *capnsLog) Infof(format string, args ...interface{}) {
	c.logger.Infof(format, args...)
}

func (c *capnsLog) Warningf(format string, args ...interface{}) {
	c.logger.Warningf(format, args...)
}

func (c *capnsLog) Errorf(format string, args ...interface{}) {
	c.logger.Errorf(format, args...)
}

func (c *capnsLog) Panicf(format string, args ...interface{}) {
	c.logger.Panicf(format, args...)
}
