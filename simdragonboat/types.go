// Package dragonboat is a deterministic stand-in for github.com/lni/dragonboat/v4
// used only by the simulation harnesses under /verif (selected with a `replace`
// directive). The type sub-packages (statemachine, raftpb, raftio, client,
// config, logger and the internal packages they import) are byte-identical
// copies of the real module; only this root package is hand-written.
//
// Consensus is modelled as a single-copy log per shard held by a process-wide
// Universe owned by the harness: committed entries have one total order, each
// replica has an applied prefix. Every call is serviced synchronously, in zero
// fake time, on the caller's goroutine under the Universe lock, with keyed
// decisions (a decision is a function of what is decided, not of when it is
// asked). See /verif/DESIGN.md section 2.4 and appendix A for the contract.
package dragonboat

import (
	"errors"

	"github.com/lni/dragonboat/v4/raftio"
	pb "github.com/lni/dragonboat/v4/raftpb"
	sm "github.com/lni/dragonboat/v4/statemachine"
)

// ShardInfo is a record for representing the state of a Raft shard based
// on the knowledge of the local NodeHost instance.
type ShardInfo struct {
	Replicas          map[uint64]string
	ShardID           uint64
	ReplicaID         uint64
	ConfigChangeIndex uint64
	StateMachineType  sm.Type
	IsLeader          bool
	LeaderID          uint64
	Term              uint64
	IsNonVoting       bool
	IsWitness         bool
	Pending           bool
}

// ShardView is the view of a shard from gossip's point of view.
type ShardView struct {
	ShardID           uint64
	Replicas          map[uint64]string
	ConfigChangeIndex uint64
	LeaderID          uint64
	Term              uint64
}

type GossipInfo struct {
	AdvertiseAddress    string
	NumOfKnownNodeHosts int
	Enabled             bool
}

type NodeHostInfo struct {
	NodeHostID    string
	RaftAddress   string
	Gossip        GossipInfo
	ShardInfoList []ShardInfo
	LogInfo       []raftio.NodeInfo
}

type NodeHostInfoOption struct {
	SkipLogInfo bool
}

var DefaultNodeHostInfoOption NodeHostInfoOption

// Target is the remote NodeHost's RaftAddress.
type Target = string

// LogRange defines the range [FirstIndex, lastIndex) of the raft log.
type LogRange struct {
	FirstIndex uint64
	LastIndex  uint64
}

// ReadonlyLogReader provides safe readonly access to the underlying logdb.
type ReadonlyLogReader interface {
	GetRange() (uint64, uint64)
	NodeState() (pb.State, pb.Membership)
	Term(index uint64) (uint64, error)
	Entries(low uint64, high uint64, maxSize uint64) ([]pb.Entry, error)
	Snapshot() pb.Snapshot
}

var (
	ErrInvalidOption           = errors.New("invalid option")
	ErrInvalidOperation        = errors.New("invalid operation")
	ErrInvalidAddress          = errors.New("invalid address")
	ErrInvalidSession          = errors.New("invalid session")
	ErrTimeoutTooSmall         = errors.New("specified timeout value is too small")
	ErrPayloadTooBig           = errors.New("payload is too big")
	ErrSystemBusy              = errors.New("system is too busy try again later")
	ErrShardClosed             = errors.New("raft shard already closed")
	ErrShardNotInitialized     = errors.New("raft shard not initialized yet")
	ErrTimeout                 = errors.New("timeout")
	ErrCanceled                = errors.New("request canceled")
	ErrRejected                = errors.New("request rejected")
	ErrAborted                 = errors.New("request aborted")
	ErrShardNotReady           = errors.New("request dropped as the shard is not ready")
	ErrInvalidTarget           = errors.New("invalid target node ID")
	ErrClosed                  = errors.New("dragonboat: closed")
	ErrReplicaRemoved          = errors.New("node removed")
	ErrShardNotFound           = errors.New("shard not found")
	ErrShardAlreadyExist       = errors.New("shard already exist")
	ErrShardNotStopped         = errors.New("shard not stopped")
	ErrInvalidShardSettings    = errors.New("shard settings are invalid")
	ErrShardNotBootstrapped    = errors.New("shard not bootstrapped")
	ErrDeadlineNotSet          = errors.New("deadline not set")
	ErrInvalidDeadline         = errors.New("invalid deadline")
	ErrDirNotExist             = errors.New("specified dir does not exist")
	ErrLogDBNotCreatedOrClosed = errors.New("logdb is not created yet or closed already")
	ErrInvalidRange            = errors.New("invalid log range")
)

// IsTempError returns a boolean value indicating whether the specified error
// is a temporary error that worth to be retried later with the exact same
// input, potentially on a more suitable NodeHost instance.
func IsTempError(err error) bool {
	return errors.Is(err, ErrSystemBusy) ||
		errors.Is(err, ErrShardClosed) ||
		errors.Is(err, ErrShardNotInitialized) ||
		errors.Is(err, ErrShardNotReady) ||
		errors.Is(err, ErrTimeout) ||
		errors.Is(err, ErrClosed) ||
		errors.Is(err, ErrAborted)
}

// errors of the simulated log reader (the real ones live in internal/raft)
var (
	ErrCompacted   = errors.New("entry compacted")
	ErrUnavailable = errors.New("entry unavailable")
)
