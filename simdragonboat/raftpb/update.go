// Copyright 2017-2021 Lei Ni (nilei81@gmail.com) and other contributors.
//
// Licensed under the Apache License, Version 2.0 (the "License");
// you may not use this file except in compliance with the License.
// You may obtain a copy of the License at
//
//     http://www.apache.org/licenses/LICENSE-2.0
//
// Unless required by applicable law or agreed to in writing, software
// distributed under the License is distributed on an "AS IS" BASIS,
// WITHOUT WARRANTIES OR CONDITIONS OF ANY KIND, either express or implied.
// See the License for the specific language governing permissions and
// limitations under the License.

package raftpb

import (
	"bytes"
	"encoding/binary"
	"io"
)

// LeaderUpdate describes updated leader
type LeaderUpdate struct {
	LeaderID uint64
	Term     uint64
}

// LogQueryResult is the result of log query.
type LogQueryResult struct {
	FirstIndex uint64
	LastIndex  uint64
	Error      error
	Entries    []Entry
}

// IsEmpty returns a boolean value indicating whether the LogQueryResult is
// empty.
func (r *LogQueryResult) IsEmpty() bool {
	return r.FirstIndex == 0 && r.LastIndex == 0 &&
		r.Error == nil && len(r.Entries) == 0
}

// SystemCtx is used to identify a ReadIndex operation.
type SystemCtx struct {
	Low  uint64
	High uint64
}

// ReadyToRead is used to indicate that a previous batch of ReadIndex requests
// are now ready for read once the entry specified by the Index value is applied in
// the state machine.
type ReadyToRead struct {
	Index     uint64
	SystemCtx SystemCtx
}

// UpdateCommit is used to describe how to commit the Update instance to
// progress the state of raft.
type UpdateCommit struct {
	// the last index known to be pushed to rsm for execution.
	Processed uint64
	// the last index confirmed to be executed.
	LastApplied      uint64
	StableLogTo      uint64
	StableLogTerm    uint64
	StableSnapshotTo uint64
	ReadyToRead      uint64
}

// Update is a collection of state, entries and messages that are expected to be
// processed by raft's upper layer to progress the raft node modelled as state
// machine.
type Update struct {
	ShardID   uint64
	ReplicaID uint64
	// The current persistent state of a raft node. It must be stored onto
	// persistent storage before any non-replication can be sent to other nodes.
	// isStateEqual(emptyState) returns true when the state is empty.
	State
	// whether CommittedEntries can be applied without waiting for the Update
	// to be persisted to disk
	FastApply bool
	// EntriesToSave are entries waiting to be stored onto persistent storage.
	EntriesToSave []Entry
	// CommittedEntries are entries already committed in raft and ready to be
	// applied by dragonboat applications.
	CommittedEntries []Entry
	// Whether there are more committed entries ready to be applied.
	MoreCommittedEntries bool
	// Snapshot is the metadata of the snapshot ready to be applied.
	Snapshot Snapshot
	// ReadyToReads provides a list of ReadIndex requests ready for local read.
	ReadyToReads []ReadyToRead
	// Messages is a list of outgoing messages to be sent to remote nodes.
	// As stated above, replication messages can be immediately sent, all other
	// messages must be sent after the persistent state and entries are saved
	// onto persistent storage.
	Messages []Message
	// LastApplied is the actual last applied index reported by the RSM.
	LastApplied uint64
	// UpdateCommit contains info on how the Update instance can be committed
	// to actually progress the state of raft.
	UpdateCommit UpdateCommit
	// DroppedEntries is a list of entries dropped when no leader is available
	DroppedEntries []Entry
	// DroppedReadIndexes is a list of read index requests  dropped when no leader
	// is available.
	DroppedReadIndexes []SystemCtx
	LogQueryResult     LogQueryResult
	LeaderUpdate       LeaderUpdate
}

// HasUpdate returns a boolean value indicating whether the returned Update
// instance actually has any update to be processed.
func (u *Update) HasUpdate() bool {
	return !IsEmptyState(u.State) ||
		!IsEmptySnapshot(u.Snapshot) ||
		len(u.EntriesToSave) > 0 ||
		len(u.CommittedEntries) > 0 ||
		len(u.Messages) > 0 ||
		len(u.ReadyToReads) > 0 ||
		len(u.DroppedEntries) > 0
}

// MarshalTo encodes the fields that need to be persisted to the specified
// buffer.
func (u *Update) MarshalTo(buf []byte) (int, error) {
	n1 := binary.PutUvarint(buf, u.ShardID)
	n2 := binary.PutUvarint(buf[n1:], u.ReplicaID)
	offset := n1 + n2
	if IsEmptyState(u.State) {
		buf[offset] = 0
		offset++
	} else {
		buf[offset] = 1
		offset++
		n, err := u.State.MarshalTo(buf[offset+4:])
		if err != nil {
			return 0, err
		}
		binary.LittleEndian.PutUint32(buf[offset:], uint32(n))
		offset += (n + 4)
	}
	binary.LittleEndian.PutUint32(buf[offset:], uint32(len(u.EntriesToSave)))
	offset += 4
	for _, e := range u.EntriesToSave {
		n, err := e.MarshalTo(buf[offset+4:])
		if err != nil {
			return 0, err
		}
		binary.LittleEndian.PutUint32(buf[offset:], uint32(n))
		offset += (n + 4)
	}
	if IsEmptySnapshot(u.Snapshot) {
		buf[offset] = 0
		offset++
	} else {
		buf[offset] = 1
		offset++
		n, err := u.Snapshot.MarshalTo(buf[offset+4:])
		if err != nil {
			return 0, err
		}
		binary.LittleEndian.PutUint32(buf[offset:], uint32(n))
		offset += (n + 4)
	}
	return offset, nil
}

type countedByteReader struct {
	reader io.ByteReader
	count  int
}

func (r *countedByteReader) ReadByte() (byte, error) {
	v, err := r.reader.ReadByte()
	r.count++
	return v, err
}

// Unmarshal decodes the Update state from the input buf.
func (u *Update) Unmarshal(buf []byte) error {
	r := &countedByteReader{
		reader: bytes.NewReader(buf),
	}
	var err error
	u.ShardID, err = binary.ReadUvarint(r)
	if err != nil {
		return err
	}
	u.ReplicaID, err = binary.ReadUvarint(r)
	if err != nil {
		return err
	}
	offset := r.count
	if buf[offset] == 0 {
		offset++
	} else {
		offset++
		l := binary.LittleEndian.Uint32(buf[offset:])
		if err := u.State.Unmarshal(buf[offset+4 : offset+4+int(l)]); err != nil {
			return err
		}
		offset += (4 + int(l))
	}
	count := binary.LittleEndian.Uint32(buf[offset:])
	offset += 4
	if count > 0 {
		u.EntriesToSave = make([]Entry, count)
	}
	for i := uint32(0); i < count; i++ {
		l := binary.LittleEndian.Uint32(buf[offset:])
		var entry Entry
		if err := entry.Unmarshal(buf[offset+4 : offset+4+int(l)]); err != nil {
			return err
		}
		u.EntriesToSave[i] = entry
		offset += (4 + int(l))
	}
	if buf[offset] == 1 {
		offset++
		l := binary.LittleEndian.Uint32(buf[offset:])
		if err := u.Snapshot.Unmarshal(buf[offset+4 : offset+4+int(l)]); err != nil {
			return err
		}
	}
	return nil
}

// SizeUpperLimit returns the upper limit of the estimated size of marshalled
// Update instance.
func (u *Update) SizeUpperLimit() int {
	sz := 2 + 4 + 16
	sz += int(GetEntrySliceSize(u.EntriesToSave))
	sz += u.State.SizeUpperLimit()
	if !IsEmptySnapshot(u.Snapshot) {
		sz += u.Snapshot.Size()
	} else {
		sz += 48
	}
	return sz
}
