// Copyright 2017-2020 Lei Ni (nilei81@gmail.com) and other contributors.
//
// Licensed under the Apache License, Version 2.0 (the "License");
// you may not use this file except in compliance with the License.
// You may obtain a copy of the License at
//
//     http://www.apache.org/licenses/LICENSE-2.0
//
// Unless required by applicable law or agreed to in writing, software
// distributed under the License is distributed on an "AS IS" BASIS,
// WITHOUT WARRANTIES OR CONDITIONS OF ANY KIND, either express or implied.
// See the License for the specific language governing permissions and
// limitations under the License.

package raftpb

import (
	"fmt"
	"math"
	"strings"
	"unsafe"

	"github.com/lni/goutils/stringutil"

	"github.com/lni/dragonboat/v4/client"
	"github.com/lni/dragonboat/v4/internal/settings"
	"github.com/lni/dragonboat/v4/internal/vfs"
	"github.com/lni/dragonboat/v4/logger"
)

var (
	plog                = logger.GetLogger("raftpb")
	panicOnSizeMismatch = settings.Soft.PanicOnSizeMismatch
	emptyState          = State{}
)

const (
	// NoNode is the flag used to indicate that the node id field is not set.
	NoNode uint64 = 0
)

// IsEmptyState returns a boolean flag indicating whether the given State is
// empty.
func IsEmptyState(st State) bool {
	return isStateEqual(st, emptyState)
}

// IsEmptySnapshot returns a boolean flag indicating whether the given snapshot
// is and empty dummy record.
func IsEmptySnapshot(s Snapshot) bool {
	return s.Index == 0
}

// IsStateEqual returns whether two input state instances are equal.
func IsStateEqual(a State, b State) bool {
	return isStateEqual(a, b)
}

func isStateEqual(a State, b State) bool {
	return a.Term == b.Term && a.Vote == b.Vote && a.Commit == b.Commit
}

// IsProposal returns a boolean value indicating whether the entry is a
// regular update entry.
func (m *Entry) IsProposal() bool {
	return m.Type == ApplicationEntry ||
		m.Type == EncodedEntry || m.Type == MetadataEntry
}

// IsConfigChange returns a boolean value indicating whether the entry is for
// config change.
func (m *Entry) IsConfigChange() bool {
	return m.Type == ConfigChangeEntry
}

// IsEmpty returns a boolean value indicating whether the entry is Empty.
func (m *Entry) IsEmpty() bool {
	if m.IsConfigChange() {
		return false
	}
	if m.IsSessionManaged() {
		return false
	}
	return len(m.Cmd) == 0
}

// IsSessionManaged returns a boolean value indicating whether the entry is
// session managed.
func (m *Entry) IsSessionManaged() bool {
	if m.IsConfigChange() {
		return false
	}
	if m.ClientID == client.NotSessionManagedClientID {
		return false
	}
	return true
}

// IsNoOPSession returns a boolean value indicating whether the entry is NoOP
// session managed.
func (m *Entry) IsNoOPSession() bool {
	return m.SeriesID == client.NoOPSeriesID
}

// IsNewSessionRequest returns a boolean value indicating whether the entry is
// for reqeusting a new client.
func (m *Entry) IsNewSessionRequest() bool {
	return !m.IsConfigChange() &&
		len(m.Cmd) == 0 &&
		m.ClientID != client.NotSessionManagedClientID &&
		m.SeriesID == client.SeriesIDForRegister
}

// IsEndOfSessionRequest returns a boolean value indicating whether the entry
// is for requesting the session to come to an end.
func (m *Entry) IsEndOfSessionRequest() bool {
	return !m.IsConfigChange() &&
		len(m.Cmd) == 0 &&
		m.ClientID != client.NotSessionManagedClientID &&
		m.SeriesID == client.SeriesIDForUnregister
}

// IsUpdateEntry returns a boolean flag indicating whether the entry is a
// regular application entry not used for session management.
func (m *Entry) IsUpdateEntry() bool {
	return !m.IsConfigChange() && m.IsSessionManaged() &&
		!m.IsNewSessionRequest() && !m.IsEndOfSessionRequest()
}

// NewBootstrapInfo creates and returns a new bootstrap record.
func NewBootstrapInfo(join bool,
	smType StateMachineType, nodes map[uint64]string) Bootstrap {
	bootstrap := Bootstrap{
		Join:      join,
		Addresses: make(map[uint64]string),
		Type:      smType,
	}
	for nid, addr := range nodes {
		bootstrap.Addresses[nid] = stringutil.CleanAddress(addr)
	}
	return bootstrap
}

// Validate checks whether the incoming nodes parameter and the join flag is
// valid given the recorded bootstrap infomration in Log DB.
func (b *Bootstrap) Validate(nodes map[uint64]string,
	join bool, smType StateMachineType) bool {
	if b.Type != UnknownStateMachine && b.Type != smType {
		plog.Errorf("recorded sm type %s, got %s", b.Type, smType)
		return false
	}
	if !b.Join && len(b.Addresses) == 0 {
		panic("invalid non-join bootstrap record with 0 address")
	}
	if b.Join && len(nodes) > 0 {
		plog.Errorf("restarting previously joined node, member list %v", nodes)
		return false
	}
	if join && len(b.Addresses) > 0 {
		plog.Errorf("joining node when it is an initial member")
		return false
	}
	valid := true
	if len(nodes) > 0 {
		if len(nodes) != len(b.Addresses) {
			valid = false
		}
		for nid, addr := range nodes {
			ba, ok := b.Addresses[nid]
			if !ok {
				valid = false
			}
			if strings.Compare(ba, stringutil.CleanAddress(addr)) != 0 {
				valid = false
			}
		}
	}
	if !valid {
		plog.Errorf("inconsistent node list, bootstrap %v, incoming %v",
			b.Addresses, nodes)
	}
	return valid
}

func checkFileSize(path string, size uint64, fs vfs.IFS) {
	var er func(format string, args ...interface{})
	if panicOnSizeMismatch {
		er = plog.Panicf
	} else {
		er = plog.Errorf
	}
	fi, err := fs.Stat(path)
	if err != nil {
		plog.Panicf("failed to access %s", path)
	}
	if size != uint64(fi.Size()) {
		er("file %s size %d, expect %d", path, fi.Size(), size)
	}
}

// Validate validates the snapshot instance.
func (snapshot *Snapshot) Validate(fs vfs.IFS) bool {
	if len(snapshot.Filepath) == 0 || snapshot.FileSize == 0 {
		return false
	}
	checkFileSize(snapshot.Filepath, snapshot.FileSize, fs)
	for _, f := range snapshot.Files {
		if len(f.Filepath) == 0 || f.FileSize == 0 {
			return false
		}
		checkFileSize(f.Filepath, f.FileSize, fs)
	}
	return true
}

// Filename returns the filename of the external snapshot file.
func (m *SnapshotFile) Filename() string {
	return fmt.Sprintf("external-file-%d", m.FileId)
}

// GetEntrySliceSize returns the upper limit of the entry slice size.
func GetEntrySliceSize(ents []Entry) uint64 {
	sz := uint64(0)
	for _, e := range ents {
		sz += uint64(e.SizeUpperLimit())
	}
	return sz
}

// GetEntrySliceInMemSize returns the in memory size of the specified entry
// slice. Size 24 bytes used to hold ents itself is not counted.
func GetEntrySliceInMemSize(ents []Entry) uint64 {
	sz := uint64(0)
	if len(ents) == 0 {
		return 0
	}
	stSz := uint64(unsafe.Sizeof(ents[0]))
	for _, e := range ents {
		sz += uint64(len(e.Cmd))
		sz += stSz
	}
	return sz
}

// IChunkSink is the snapshot chunk sink for handling snapshot chunks being
// streamed.
type IChunkSink interface {
	// return (sent, stopped)
	Receive(chunk Chunk) (bool, bool)
	Close() error
	ShardID() uint64
	ToReplicaID() uint64
}

var (
	// LastChunkCount is the special chunk count value used to indicate that the
	// chunk is the last one.
	LastChunkCount uint64 = math.MaxUint64
	// PoisonChunkCount is the special chunk count value used to indicate that
	// the processing goroutine should return.
	PoisonChunkCount uint64 = math.MaxUint64 - 1
)

// IsLastChunk returns a boolean value indicating whether the chunk is the last
// chunk of a snapshot.
func (m Chunk) IsLastChunk() bool {
	return m.ChunkCount == LastChunkCount || m.ChunkCount == m.ChunkId+1
}

// IsLastFileChunk returns a boolean value indicating whether the chunk is the
// last chunk of a snapshot file.
func (m Chunk) IsLastFileChunk() bool {
	return m.FileChunkId+1 == m.FileChunkCount
}

// IsPoisonChunk returns a boolean value indicating whether the chunk is a
// special poison chunk.
func (m Chunk) IsPoisonChunk() bool {
	return m.ChunkCount == PoisonChunkCount
}

// CanDrop returns a boolean value indicating whether the message can be
// safely dropped.
func (m *Message) CanDrop() bool {
	return m.Type != InstallSnapshot &&
		m.Type != Unreachable && m.Type != SnapshotStatus
}

// Marshaler is the interface for instances that can be marshalled.
type Marshaler interface {
	Marshal() ([]byte, error)
	MarshalTo([]byte) (int, error)
}

// Unmarshaler is the interface for instances that can be unmarshalled.
type Unmarshaler interface {
	Unmarshal([]byte) error
}

// MustMarshal marshals the input object or panic if there is any error.
func MustMarshal(m Marshaler) []byte {
	data, err := m.Marshal()
	if err != nil {
		panic(err)
	}
	return data
}

// MustMarshalTo marshals the input object to the specified buffer or panic
// if there is any error.
func MustMarshalTo(m Marshaler, result []byte) []byte {
	sz, err := m.MarshalTo(result)
	if err != nil {
		panic(err)
	}
	return result[:sz]
}

// MustUnmarshal unmarshals the specified object using the provided marshalled
// data. MustUnmarshal will panic if there is any error.
func MustUnmarshal(m Unmarshaler, data []byte) {
	if err := m.Unmarshal(data); err != nil {
		panic(err)
	}
}
