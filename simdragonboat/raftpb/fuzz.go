// Copyright 2017-2019 Lei Ni (nilei81@gmail.com) and other contributors.
//
// Licensed under the Apache License, Version 2.0 (the "License");
// you may not use this file except in compliance with the License.
// You may obtain a copy of the License at
//
//     http://www.apache.org/licenses/LICENSE-2.0
//
// Unless required by applicable law or agreed to in writing, software
// distributed under the License is distributed on an "AS IS" BASIS,
// WITHOUT WARRANTIES OR CONDITIONS OF ANY KIND, either express or implied.
// See the License for the specific language governing permissions and
// limitations under the License.

// +build gofuzz

package raftpb

import (
	"fmt"
	"reflect"
)

func Fuzz(data []byte) int {
	e := Entry{}
	if err := e.Unmarshal(data); err != nil {
		return 0
	}
	m, err := e.Marshal()
	if err != nil {
		panic(err)
	}
	e2 := Entry{}
	if err := e2.Unmarshal(m); err != nil {
		panic(err)
	}
	if len(e.Data) == 0 {
		e.Data = nil
	}
	if len(e2.Data) == 0 {
		e.Data = nil
	}
	if !reflect.DeepEqual(&e2, &e) {
		msg := fmt.Sprintf("\ne1: %v\ne2: %v\n", e, e2)
		panic(msg)
	}

	return 1
}
