// Package tan is a stub of dragonboat's tan LogDB plugin: the simulated Raft
// library keeps its log in memory, the factory is only referenced by name.
package tan

import (
	"errors"

	"github.com/lni/dragonboat/v4/config"
	"github.com/lni/dragonboat/v4/raftio"
)

type factory struct{}

func (factory) Create(config.NodeHostConfig, config.LogDBCallback, []string, []string) (raftio.ILogDB, error) {
	return nil, errors.New("simdragonboat: tan LogDB is not available in simulation")
}

func (factory) Name() string { return "sim-tan" }

// Factory is the stand-in for tan.Factory.
var Factory config.LogDBFactory = factory{}
