// Package crashfs is the simulated disk: an in-memory implementation of
// Pebble's vfs.FS in which every file has volatile and durable contents
// (durable := volatile at File.Sync) and every directory has volatile and
// durable entry sets (durable := volatile at directory Sync). A crash keeps
// exactly the durable view. This is the fault model of the properties and of
// Pebble's own vfs.NewStrictMem; on top of it crashfs numbers every mutating
// operation, can capture the durable view at any operation boundary as an
// immutable Image ("crash-state harvesting"), can mount an Image as a fresh
// file system, and can fail chosen operations with an injected error.
package crashfs

import (
	"errors"
	"fmt"
	"io"
	"os"
	"path"
	"sort"
	"strings"
	"sync"
	"syscall"
	"time"

	"github.com/cockroachdb/errors/oserror"
	"github.com/cockroachdb/pebble/vfs"
)

// Op describes one mutating file-system operation in a goroutine-independent way.
type Op struct {
	N     int    `json:"n"`
	Kind  string `json:"kind"`
	Path  string `json:"path"`
	Path2 string `json:"path2,omitempty"`
	Size  int    `json:"size,omitempty"`
}

func (o Op) String() string {
	if o.Path2 != "" {
		return fmt.Sprintf("#%d %s %s -> %s", o.N, o.Kind, o.Path, o.Path2)
	}
	return fmt.Sprintf("#%d %s %s (%d)", o.N, o.Kind, o.Path, o.Size)
}

var (
	ErrInjectedIO    = &os.PathError{Op: "inject", Path: "", Err: syscall.EIO}
	ErrInjectedNoSpc = &os.PathError{Op: "inject", Path: "", Err: syscall.ENOSPC}
)

type node struct {
	name  string
	isDir bool

	data    []byte
	synced  []byte // immutable once assigned
	modTime time.Time

	children       map[string]*node
	syncedChildren map[string]*node // replaced, never mutated, at directory sync
}

func (n *node) IsDir() bool        { return n.isDir }
func (n *node) ModTime() time.Time { return n.modTime }
func (n *node) Mode() os.FileMode {
	if n.isDir {
		return os.ModeDir | 0o755
	}
	return 0o755
}
func (n *node) Name() string     { return n.name }
func (n *node) Sys() interface{} { return nil }
func (n *node) Size() int64      { return int64(len(n.data)) }

// statInfo is an immutable copy handed out by Stat.
type statInfo struct {
	name  string
	isDir bool
	size  int64
	mod   time.Time
}

func (s statInfo) IsDir() bool        { return s.isDir }
func (s statInfo) ModTime() time.Time { return s.mod }
func (s statInfo) Mode() os.FileMode {
	if s.isDir {
		return os.ModeDir | 0o755
	}
	return 0o755
}
func (s statInfo) Name() string     { return s.name }
func (s statInfo) Sys() interface{} { return nil }
func (s statInfo) Size() int64      { return s.size }

// FS implements vfs.FS.
type FS struct {
	mu   sync.Mutex
	root *node
	ops  int

	// OnOp, if set, is called with the lock held after every mutating
	// operation completed. It may call CaptureLocked.
	OnOp func(fs *FS, op Op)
	// Inject, if set, is called with the lock held before every mutating
	// operation; a non-nil error is returned to the caller instead of
	// performing the operation.
	Inject func(op Op) error
	// KeepLog retains the operation log.
	KeepLog bool
	Log     []Op
}

var _ vfs.FS = (*FS)(nil)

func New() *FS {
	return &FS{root: &node{name: "/", isDir: true, children: map[string]*node{}, syncedChildren: map[string]*node{}}}
}

// Ops returns the number of mutating operations performed so far.
func (y *FS) Ops() int {
	y.mu.Lock()
	defer y.mu.Unlock()
	return y.ops
}

func split(p string) []string {
	p = path.Clean("/" + p)
	if p == "/" {
		return nil
	}
	return strings.Split(p[1:], "/")
}

func (y *FS) lookupDir(parts []string) (*node, error) {
	d := y.root
	for _, f := range parts {
		c := d.children[f]
		if c == nil {
			return nil, oserror.ErrNotExist
		}
		if !c.isDir {
			return nil, errors.New("not a directory")
		}
		d = c
	}
	return d, nil
}

func (y *FS) lookup(name string) (*node, error) {
	parts := split(name)
	if len(parts) == 0 {
		return y.root, nil
	}
	d, err := y.lookupDir(parts[:len(parts)-1])
	if err != nil {
		return nil, err
	}
	n := d.children[parts[len(parts)-1]]
	if n == nil {
		return nil, oserror.ErrNotExist
	}
	return n, nil
}

// Yield, if set, is called at the start of every mutating operation: where a real disk would make the
// caller wait, the harness may let another goroutine run (core.Yield).
var Yield func()

// begin registers a mutating op; returns injected error if any.
func (y *FS) begin(kind, p, p2 string, size int) (Op, error) {
	if Yield != nil {
		Yield()
	}
	op := Op{N: y.ops, Kind: kind, Path: path.Clean("/" + p), Size: size}
	if p2 != "" {
		op.Path2 = path.Clean("/" + p2)
	}
	if y.Inject != nil {
		if err := y.Inject(op); err != nil {
			y.ops++
			if y.KeepLog {
				op.Kind += "!err"
				y.Log = append(y.Log, op)
			}
			return op, err
		}
	}
	return op, nil
}

func (y *FS) end(op Op) {
	y.ops++
	if y.KeepLog {
		y.Log = append(y.Log, op)
	}
	if y.OnOp != nil {
		y.OnOp(y, op)
	}
}

func pathErr(op, p string, err error) error { return &os.PathError{Op: op, Path: p, Err: err} }

func (y *FS) Create(name string) (vfs.File, error) {
	y.mu.Lock()
	defer y.mu.Unlock()
	parts := split(name)
	if len(parts) == 0 {
		return nil, errors.New("crashfs: empty file name")
	}
	d, err := y.lookupDir(parts[:len(parts)-1])
	if err != nil {
		return nil, pathErr("open", name, err)
	}
	op, err := y.begin("create", name, "", 0)
	if err != nil {
		return nil, err
	}
	base := parts[len(parts)-1]
	if ex := d.children[base]; ex != nil && ex.isDir {
		return nil, pathErr("open", name, errors.New("is a directory"))
	}
	n := &node{name: base, modTime: time.Now()}
	d.children[base] = n
	y.end(op)
	return &file{n: n, fs: y, path: op.Path, write: true}, nil
}

func (y *FS) Link(oldname, newname string) error {
	y.mu.Lock()
	defer y.mu.Unlock()
	n, err := y.lookup(oldname)
	if err != nil {
		return &os.LinkError{Op: "link", Old: oldname, New: newname, Err: err}
	}
	parts := split(newname)
	if len(parts) == 0 {
		return errors.New("crashfs: empty file name")
	}
	d, err := y.lookupDir(parts[:len(parts)-1])
	if err != nil {
		return &os.LinkError{Op: "link", Old: oldname, New: newname, Err: err}
	}
	base := parts[len(parts)-1]
	if _, ok := d.children[base]; ok {
		return &os.LinkError{Op: "link", Old: oldname, New: newname, Err: oserror.ErrExist}
	}
	op, err := y.begin("link", oldname, newname, 0)
	if err != nil {
		return err
	}
	d.children[base] = n
	y.end(op)
	return nil
}

func (y *FS) open(name string) (vfs.File, error) {
	y.mu.Lock()
	defer y.mu.Unlock()
	n, err := y.lookup(name)
	if err != nil {
		return nil, pathErr("open", name, err)
	}
	return &file{n: n, fs: y, path: path.Clean("/" + name), read: !n.isDir}, nil
}

func (y *FS) Open(name string, opts ...vfs.OpenOption) (vfs.File, error) {
	f, err := y.open(name)
	if err != nil {
		return nil, err
	}
	for _, o := range opts {
		o.Apply(f)
	}
	return f, nil
}

func (y *FS) OpenDir(name string) (vfs.File, error) { return y.open(name) }

func (y *FS) Remove(name string) error {
	y.mu.Lock()
	defer y.mu.Unlock()
	parts := split(name)
	if len(parts) == 0 {
		return errors.New("crashfs: empty file name")
	}
	d, err := y.lookupDir(parts[:len(parts)-1])
	if err != nil {
		return pathErr("remove", name, err)
	}
	base := parts[len(parts)-1]
	c, ok := d.children[base]
	if !ok {
		return pathErr("remove", name, oserror.ErrNotExist)
	}
	if c.isDir && len(c.children) > 0 {
		return pathErr("remove", name, errors.New("directory not empty"))
	}
	op, err := y.begin("remove", name, "", 0)
	if err != nil {
		return err
	}
	delete(d.children, base)
	y.end(op)
	return nil
}

func (y *FS) RemoveAll(name string) error {
	y.mu.Lock()
	defer y.mu.Unlock()
	parts := split(name)
	if len(parts) == 0 {
		return errors.New("crashfs: empty file name")
	}
	d, err := y.lookupDir(parts[:len(parts)-1])
	if err != nil {
		return nil // as os.RemoveAll
	}
	base := parts[len(parts)-1]
	if _, ok := d.children[base]; !ok {
		return nil
	}
	op, err := y.begin("removeall", name, "", 0)
	if err != nil {
		return err
	}
	delete(d.children, base)
	y.end(op)
	return nil
}

func (y *FS) renameLocked(oldname, newname string) error {
	op0 := split(oldname)
	np := split(newname)
	if len(op0) == 0 || len(np) == 0 {
		return errors.New("crashfs: empty file name")
	}
	od, err := y.lookupDir(op0[:len(op0)-1])
	if err != nil {
		return pathErr("rename", oldname, err)
	}
	n := od.children[op0[len(op0)-1]]
	if n == nil {
		return pathErr("rename", oldname, oserror.ErrNotExist)
	}
	nd, err := y.lookupDir(np[:len(np)-1])
	if err != nil {
		return pathErr("rename", newname, err)
	}
	op, err := y.begin("rename", oldname, newname, 0)
	if err != nil {
		return err
	}
	delete(od.children, op0[len(op0)-1])
	nd.children[np[len(np)-1]] = n
	n.name = np[len(np)-1]
	y.end(op)
	return nil
}

func (y *FS) Rename(oldname, newname string) error {
	y.mu.Lock()
	defer y.mu.Unlock()
	return y.renameLocked(oldname, newname)
}

func (y *FS) ReuseForWrite(oldname, newname string) (vfs.File, error) {
	y.mu.Lock()
	defer y.mu.Unlock()
	if err := y.renameLocked(oldname, newname); err != nil {
		return nil, err
	}
	n, err := y.lookup(newname)
	if err != nil {
		return nil, err
	}
	return &file{n: n, fs: y, path: path.Clean("/" + newname), write: true}, nil
}

func (y *FS) MkdirAll(dirname string, perm os.FileMode) error {
	y.mu.Lock()
	defer y.mu.Unlock()
	d := y.root
	cur := ""
	for _, f := range split(dirname) {
		cur += "/" + f
		c := d.children[f]
		if c == nil {
			op, err := y.begin("mkdir", cur, "", 0)
			if err != nil {
				return err
			}
			c = &node{name: f, isDir: true, children: map[string]*node{}, syncedChildren: map[string]*node{}, modTime: time.Now()}
			d.children[f] = c
			y.end(op)
		} else if !c.isDir {
			return pathErr("mkdir", dirname, errors.New("not a directory"))
		}
		d = c
	}
	return nil
}

type lockCloser struct{}

func (lockCloser) Close() error { return nil }

// Lock excludes other processes; there are none. The lock file is created so
// that non-existent directories are detected, as MemFS does.
func (y *FS) Lock(name string) (io.Closer, error) {
	f, err := y.Create(name)
	if err != nil {
		return nil, err
	}
	return f, nil
}

func (y *FS) List(dirname string) ([]string, error) {
	y.mu.Lock()
	defer y.mu.Unlock()
	d, err := y.lookupDir(split(dirname))
	if err != nil {
		return nil, pathErr("open", dirname, err)
	}
	ret := make([]string, 0, len(d.children))
	for s := range d.children {
		ret = append(ret, s)
	}
	sort.Strings(ret) // deterministic
	return ret, nil
}

func (y *FS) Stat(name string) (os.FileInfo, error) {
	y.mu.Lock()
	defer y.mu.Unlock()
	n, err := y.lookup(name)
	if err != nil {
		return nil, pathErr("stat", name, err)
	}
	return statInfo{name: n.name, isDir: n.isDir, size: int64(len(n.data)), mod: n.modTime}, nil
}

func (*FS) PathBase(p string) string       { return path.Base(p) }
func (*FS) PathJoin(elem ...string) string { return path.Join(elem...) }
func (*FS) PathDir(p string) string        { return path.Dir(p) }
func (*FS) GetDiskUsage(string) (vfs.DiskUsage, error) {
	return vfs.DiskUsage{AvailBytes: 1 << 40, TotalBytes: 1 << 41, UsedBytes: 1 << 40}, nil
}

type file struct {
	n     *node
	fs    *FS
	path  string
	rpos  int
	wpos  int
	read  bool
	write bool
}

func (f *file) Close() error { return nil }

func (f *file) Read(p []byte) (int, error) {
	f.fs.mu.Lock()
	defer f.fs.mu.Unlock()
	if f.n.isDir {
		return 0, errors.New("crashfs: cannot read a directory")
	}
	if f.rpos >= len(f.n.data) {
		return 0, io.EOF
	}
	n := copy(p, f.n.data[f.rpos:])
	f.rpos += n
	return n, nil
}

func (f *file) ReadAt(p []byte, off int64) (int, error) {
	f.fs.mu.Lock()
	defer f.fs.mu.Unlock()
	if f.n.isDir {
		return 0, errors.New("crashfs: cannot read a directory")
	}
	if off >= int64(len(f.n.data)) {
		return 0, io.EOF
	}
	n := copy(p, f.n.data[off:])
	if n < len(p) {
		return n, io.EOF
	}
	return n, nil
}

func (f *file) Write(p []byte) (int, error) {
	f.fs.mu.Lock()
	defer f.fs.mu.Unlock()
	if !f.write {
		return 0, errors.New("crashfs: file was not created for writing")
	}
	if f.n.isDir {
		return 0, errors.New("crashfs: cannot write a directory")
	}
	op, err := f.fs.begin("write", f.path, "", len(p))
	if err != nil {
		return 0, err
	}
	f.n.modTime = time.Now()
	if f.wpos+len(p) <= len(f.n.data) {
		copy(f.n.data[f.wpos:f.wpos+len(p)], p)
	} else {
		f.n.data = append(f.n.data[:f.wpos], p...)
	}
	f.wpos += len(p)
	f.fs.end(op)
	return len(p), nil
}

func (f *file) Stat() (os.FileInfo, error) {
	f.fs.mu.Lock()
	defer f.fs.mu.Unlock()
	return statInfo{name: f.n.name, isDir: f.n.isDir, size: int64(len(f.n.data)), mod: f.n.modTime}, nil
}

func (f *file) Sync() error {
	f.fs.mu.Lock()
	defer f.fs.mu.Unlock()
	if f.n.isDir {
		op, err := f.fs.begin("dirsync", f.path, "", 0)
		if err != nil {
			return err
		}
		m := make(map[string]*node, len(f.n.children))
		for k, v := range f.n.children {
			m[k] = v
		}
		f.n.syncedChildren = m
		f.fs.end(op)
		return nil
	}
	op, err := f.fs.begin("sync", f.path, "", len(f.n.data))
	if err != nil {
		return err
	}
	f.n.synced = append([]byte(nil), f.n.data...)
	f.fs.end(op)
	return nil
}

// MakeDurable marks the directory path (and all its ancestors' entries leading
// to it) durable: the operator-provided base data directory.
func (y *FS) MakeDurable(dirname string) error {
	if err := y.MkdirAll(dirname, 0o755); err != nil {
		return err
	}
	y.mu.Lock()
	defer y.mu.Unlock()
	d := y.root
	for _, f := range split(dirname) {
		c := d.children[f]
		m := make(map[string]*node, len(d.syncedChildren)+1)
		for k, v := range d.syncedChildren {
			m[k] = v
		}
		m[f] = c
		d.syncedChildren = m
		d = c
	}
	return nil
}
