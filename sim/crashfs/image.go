package crashfs

import (
	"bytes"
	"compress/gzip"
	"encoding/base64"
	"encoding/gob"
	"fmt"
	"hash/fnv"
	"sort"
	"strings"
	"time"
)

// Image is an immutable capture of a file system's durable view.
type Image struct {
	Root *INode
	// Op is the number of mutating operations that had completed at capture time.
	Op int
}

type INode struct {
	Name string
	Dir  bool
	Data []byte
	Kids []*INode
}

// Size is the number of file bytes the image refers to (files share their content with other images
// taken while it did not change, so this is an upper bound of what the image keeps alive).
func (img *Image) Size() int64 {
	var walk func(n *INode) int64
	walk = func(n *INode) int64 {
		t := int64(len(n.Data))
		for _, k := range n.Kids {
			t += walk(k)
		}
		return t
	}
	if img == nil || img.Root == nil {
		return 0
	}
	return walk(img.Root)
}

// CaptureLocked captures the durable view; it must be called from OnOp (lock held).
func (y *FS) CaptureLocked() *Image {
	return &Image{Root: captureNode(y.root), Op: y.ops}
}

// Capture captures the durable view at a quiescent point.
func (y *FS) Capture() *Image {
	y.mu.Lock()
	defer y.mu.Unlock()
	return y.CaptureLocked()
}

// CaptureVolatile captures the volatile view (what a clean shutdown with full sync would keep).
func (y *FS) CaptureVolatile() *Image {
	y.mu.Lock()
	defer y.mu.Unlock()
	return &Image{Root: captureVolatile(y.root), Op: y.ops}
}

func captureNode(n *node) *INode {
	in := &INode{Name: n.name, Dir: n.isDir}
	if !n.isDir {
		in.Data = n.synced // immutable
		return in
	}
	names := make([]string, 0, len(n.syncedChildren))
	for k := range n.syncedChildren {
		names = append(names, k)
	}
	sort.Strings(names)
	for _, k := range names {
		c := captureNode(n.syncedChildren[k])
		c.Name = k
		in.Kids = append(in.Kids, c)
	}
	return in
}

func captureVolatile(n *node) *INode {
	in := &INode{Name: n.name, Dir: n.isDir}
	if !n.isDir {
		in.Data = append([]byte(nil), n.data...)
		return in
	}
	names := make([]string, 0, len(n.children))
	for k := range n.children {
		names = append(names, k)
	}
	sort.Strings(names)
	for _, k := range names {
		c := captureVolatile(n.children[k])
		c.Name = k
		in.Kids = append(in.Kids, c)
	}
	return in
}

// Mount builds a fresh file system whose volatile and durable views both equal the image.
func Mount(img *Image) *FS {
	fs := New()
	fs.root = mountNode(img.Root)
	fs.root.name = "/"
	return fs
}

func mountNode(in *INode) *node {
	n := &node{name: in.Name, isDir: in.Dir, modTime: time.Unix(0, 0)}
	if !in.Dir {
		n.synced = in.Data
		n.data = append([]byte(nil), in.Data...)
		return n
	}
	n.children = map[string]*node{}
	n.syncedChildren = map[string]*node{}
	for _, k := range in.Kids {
		c := mountNode(k)
		n.children[k.Name] = c
		n.syncedChildren[k.Name] = c
	}
	return n
}

// Hash identifies the image content.
func (img *Image) Hash() uint64 {
	h := fnv.New64a()
	var walk func(n *INode, p string)
	walk = func(n *INode, p string) {
		fmt.Fprintf(h, "%s|%v|%d|", p, n.Dir, len(n.Data))
		_, _ = h.Write(n.Data)
		for _, k := range n.Kids {
			walk(k, p+"/"+k.Name)
		}
	}
	walk(img.Root, "")
	return h.Sum64()
}

// Listing renders the tree with sizes, for messages.
func (img *Image) Listing() string {
	var sb strings.Builder
	var walk func(n *INode, p string)
	walk = func(n *INode, p string) {
		if n.Dir {
			fmt.Fprintf(&sb, "%s/\n", p)
		} else {
			fmt.Fprintf(&sb, "%s (%d)\n", p, len(n.Data))
		}
		for _, k := range n.Kids {
			walk(k, p+"/"+k.Name)
		}
	}
	walk(img.Root, "")
	return sb.String()
}

// Encode serialises the image for a replay file (gob+gzip+base64).
func (img *Image) Encode() string {
	var buf bytes.Buffer
	zw := gzip.NewWriter(&buf)
	if err := gob.NewEncoder(zw).Encode(img); err != nil {
		panic(err)
	}
	_ = zw.Close()
	return base64.StdEncoding.EncodeToString(buf.Bytes())
}

func DecodeImage(s string) (*Image, error) {
	raw, err := base64.StdEncoding.DecodeString(s)
	if err != nil {
		return nil, err
	}
	zr, err := gzip.NewReader(bytes.NewReader(raw))
	if err != nil {
		return nil, err
	}
	img := &Image{}
	if err := gob.NewDecoder(zr).Decode(img); err != nil {
		return nil, err
	}
	return img, nil
}
