package core

import (
	"encoding/json"
	"fmt"
	mrand "math/rand"
	"os"
	"path/filepath"
	"runtime"
	"runtime/debug"
	"sort"
	"strconv"
	"strings"
	"testing"
	"testing/synctest"
	"time"
	_ "unsafe" // go:linkname
)

// Schedule is an explicit, JSON-serialisable list of steps and faults plus the
// configuration of the run. It is generated from the run seed before execution.
type Schedule interface {
	Len() int
	// Subset returns a copy retaining only the steps with the given indices.
	Subset(keep []int) Schedule
}

// Simplifier is optionally implemented by schedules that support argument
// shrinking (shorter keys/values, simpler knobs).
type Simplifier interface {
	Simplify() []Schedule
}

type Violation struct {
	Prop   string `json:"property"`
	Oracle string `json:"oracle"`
	Sig    string `json:"signature"`
	Msg    string `json:"message"`
	Step   int    `json:"step"`
}

func (v *Violation) String() string {
	return fmt.Sprintf("%s oracle=%s sig=%q step=%d: %s", v.Prop, v.Oracle, v.Sig, v.Step, v.Msg)
}

// Outcome is what one execution of a schedule reports.
type Outcome struct {
	Violation  *Violation
	Digest     uint64
	NonTrivial bool
	Probes     map[string]int64
	Faults     map[string]int64
	SimMs      int64
	Steps      int
	// Artifacts can carry data that pins a violation independent of
	// re-execution (durable images, recorded histories).
	Artifacts map[string]any
}

func NewOutcome() *Outcome {
	return &Outcome{Probes: map[string]int64{}, Faults: map[string]int64{}}
}

func (o *Outcome) Probe(name string)        { o.Probes[name]++ }
func (o *Outcome) Fault(name string)        { o.Faults[name]++ }
func (o *Outcome) ProbeN(n string, k int64) { o.Probes[n] += k }

// Fail records the first violation only.
func (o *Outcome) Fail(prop, oracle, sig string, step int, format string, args ...any) {
	if o.Violation != nil {
		return
	}
	o.Violation = &Violation{Prop: prop, Oracle: oracle, Sig: sig, Step: step, Msg: fmt.Sprintf(format, args...)}
}

// Spec describes one property harness.
type Spec struct {
	Prop  string
	World string
	// Gen draws a schedule for one run.
	Gen func(r *Rand, tier string) Schedule
	// Decode parses a schedule from a replay file.
	Decode func(raw json.RawMessage) (Schedule, error)
	// Exec runs the schedule; it is called inside a fresh synctest bubble.
	Exec func(s Schedule) *Outcome
	// ExecArtifacts, if set, re-runs the failing oracle on the artifacts stored in a replay file (e.g. a
	// durable disk image), independently of whether re-execution reaches the same state. Called in a bubble.
	ExecArtifacts func(s Schedule, artifacts map[string]any) *Outcome
	// Rule documents generation and the non-trivial criterion (for evidence).
	Rule string
	Real []string
	Stub []string
	// LightRuns: the world creates no pooled objects that embed channels (no Pebble, no gRPC);
	// the two collections after every run are then skipped (one every 512 runs instead).
	LightRuns bool
	// RequiredProbes must be non-zero over a batch or the harness self-check fails (exit 2).
	RequiredProbes []string
	Assumptions    []string
	nexec          int
	rtSeed         uint64
	known          map[string]bool
}

type replayFile struct {
	Violation
	World     string          `json:"world"`
	Seed      uint64          `json:"seed"`
	Run       int             `json:"run"`
	Tier      string          `json:"tier"`
	Minimised bool            `json:"minimised"`
	OrigSteps int             `json:"orig_steps"`
	Steps     int             `json:"steps"`
	Schedule  json.RawMessage `json:"schedule"`
	Artifacts map[string]any  `json:"artifacts,omitempty"`
}

type knownFinding struct {
	Property  string `json:"property"`
	Signature string `json:"signature"`
	Status    string `json:"status"`
}

type violationReport struct {
	Violation
	Replay    string `json:"replay"`
	Seed      uint64 `json:"seed"`
	Run       int    `json:"run"`
	Steps     int    `json:"steps"`
	OrigSteps int    `json:"orig_steps"`
	Confirmed bool   `json:"confirmed_in_process"`
}

// WorkerResult is the JSON a worker process writes for /verif/check.
type WorkerResult struct {
	Prop        string            `json:"property"`
	World       string            `json:"world"`
	Tier        string            `json:"tier"`
	Seed        uint64            `json:"seed"`
	First       int               `json:"first"`
	Runs        int               `json:"runs"`
	NonTrivial  int               `json:"nontrivial_runs"`
	Digests     []string          `json:"nontrivial_digests"`
	RunDigests  []string          `json:"run_digests,omitempty"`
	Violations  []violationReport `json:"violations"`
	Known       map[string]int    `json:"known"`
	OtherProp   map[string]int    `json:"other_property_hits"`
	Probes      map[string]int64  `json:"probes"`
	Faults      map[string]int64  `json:"faults"`
	SimMs       int64             `json:"sim_ms"`
	Steps       int64             `json:"steps"`
	Samples     []json.RawMessage `json:"samples"`
	WallS       float64           `json:"wall_s"`
	Rule        string            `json:"rule"`
	Real        []string          `json:"real"`
	Stub        []string          `json:"stub"`
	Required    []string          `json:"required_probes"`
	Assumptions []string          `json:"assumptions"`
	Inconcl     int               `json:"inconclusive"`
	// StoppedEarly: the worker gave the rest of its chunk back (memory), not an error
	StoppedEarly string `json:"stopped_early,omitempty"`
}

// runtimeVerifSeed reseeds the patched runtime's random source and switches sysmon's retake off (only the
// harness build's runtime overlay defines it, see ./check build).
//
//go:linkname runtimeVerifSeed runtime.verifSeed
func runtimeVerifSeed(seed uint64, noRetake bool)

// GoID is the id of the calling goroutine.
//
//go:linkname GoID runtime.verifGoid
func GoID() uint64

// RuntimeDraws is the number of values the runtime drew from its random source since the run started.
//
//go:linkname RuntimeDraws runtime.verifDraws
func RuntimeDraws() uint64

// RuntimeTraceCallers switches recording of who draws from the runtime's random source (divergence hunting).
//
//go:linkname RuntimeTraceCallers runtime.verifTraceCallers
func RuntimeTraceCallers(on bool) []uintptr

// Seeded yields. With the patched runtime a goroutine runs until it blocks, so goroutines interleave only at
// blocking operations; the simulated disk, network and Raft library never block. Yield is called by those
// seams at the points where the real thing would (a file operation, a socket read or write, a proposal or
// read handed to Raft): on a keyed subset of calls it gives the processor away (runtime.Gosched, which the
// patched runtime queues deterministically). How often is drawn per run - never, rarely, sometimes, often -
// so that both the tightly serialised and the heavily interleaved executions are explored.
var yieldState struct {
	seed, permille, n, fired uint64
}

func setYield(seed uint64) {
	yieldState.seed = seed
	yieldState.permille = []uint64{0, 0, 20, 120, 450}[Mix(seed, 0x7969656c64)%5]
	yieldState.n, yieldState.fired = 0, 0
}

// Yield may give the processor to another runnable goroutine (see above).
func Yield() {
	if yieldState.permille == 0 {
		return
	}
	yieldState.n++
	if Mix(yieldState.seed, yieldState.n)%1000 < yieldState.permille {
		yieldState.fired++
		runtime.Gosched()
	}
}

// RunSeed derives the seed of run i of a batch.
func RunSeed(batch uint64, prop string, i int) uint64 {
	return Mix(batch, HashString(prop), uint64(i))
}

func isBubbleEndPanic(r any) bool {
	s := fmt.Sprint(r)
	return strings.Contains(s, "main bubble goroutine has exited")
}

// ExecInBubble executes f inside a fresh synctest bubble and returns its
// outcome. A panic on the bubble's root goroutine is returned as panicVal.
func ExecInBubble(t *testing.T, f func() *Outcome) (out *Outcome, panicVal any, stack string) {
	defer func() {
		if r := recover(); r != nil {
			if isBubbleEndPanic(r) {
				return
			}
			if panicVal == nil {
				panicVal = r
				stack = string(debug.Stack())
			}
		}
	}()
	synctest.Test(t, func(t *testing.T) {
		defer func() {
			if r := recover(); r != nil {
				panicVal = r
				stack = string(debug.Stack())
			}
		}()
		out = f()
	})
	return
}

func envInt(name string, def int) int {
	if v := os.Getenv(name); v != "" {
		if n, err := strconv.Atoi(v); err == nil {
			return n
		}
	}
	return def
}

func envU64(name string, def uint64) uint64 {
	if v := os.Getenv(name); v != "" {
		if n, err := strconv.ParseUint(v, 10, 64); err == nil {
			return n
		}
		if n, err := strconv.ParseInt(v, 10, 64); err == nil {
			return uint64(n)
		}
	}
	return def
}

// PanicViolation is how a panic on the harness goroutine while it is inside
// code under test is reported when the spec does not classify it itself.
var PanicProp = map[string]bool{}

func (sp *Spec) execOnce(t *testing.T, s Schedule) *Outcome {
	// No collection during a run (finalizers of abandoned snapshot contexts must not fire at
	// arbitrary points) unless memory gets tight.
	// Collections happen between runs only, at the harness' request (memory limit aside): a cycle running
	// into a run scans and shrinks stacks at arbitrary points.
	debug.SetMemoryLimit(int64(envInt("VERIF_MEMLIMIT_MB", 1536)) << 20)
	debug.SetGCPercent(-1)
	if sp.nexec == 0 {
		runtime.GC() // completes whatever cycle process start-up began
	}
	// the runtime's own randomness (select among ready cases, order of bubble timers with equal deadlines,
	// map iteration) is part of the schedule: one run seed, one sequence (patched runtime, DESIGN 10.6)
	runtimeVerifSeed(Mix(sp.rtSeed, 0x72756e74696d65), runtime.GOMAXPROCS(0) == 1)
	// the package-level math/rand source (jitter in regatta, gRPC, memberlist) starts every run from the run
	// seed; needs //go:debug randautoseed=0 and randseednop=0 in the test main package
	mrand.Seed(int64(Mix(sp.rtSeed, 0x6d72616e64))) //nolint:staticcheck
	setYield(Mix(sp.rtSeed, 0x7969656c6473))
	if os.Getenv("VERIF_LOG") == "4" {
		mrand.VerifHook = func() {
			var pcs [6]uintptr
			n := runtime.Callers(3, pcs[:])
			fr := runtime.CallersFrames(pcs[:n])
			line := "MRAND " + time.Now().Format("04:05.000")
			for {
				f, more := fr.Next()
				line += fmt.Sprintf(" %s:%d", f.Function, f.Line)
				if !more {
					break
				}
			}
			fmt.Fprintln(os.Stderr, line)
		}
	}
	if os.Getenv("VERIF_LOG") == "3" {
		RuntimeTraceCallers(true)
		defer func() {
			for i, pc := range RuntimeTraceCallers(false) {
				f := runtime.FuncForPC(pc)
				file, line := f.FileLine(pc)
				fmt.Fprintf(os.Stderr, "DRAW %d %s %s:%d\n", i, f.Name(), filepath.Base(file), line)
			}
		}()
	}
	out, pv, stack := ExecInBubble(t, func() *Outcome { return sp.Exec(s) })
	if out != nil && yieldState.fired > 0 {
		out.Probes["sched-yields-at-io-seams"] += int64(yieldState.fired)
	}
	yieldState.permille = 0
	// Two collections empty every sync.Pool: pooled objects that embed channels
	// (Pebble's sstable write tasks) must never travel from one bubble to the next.
	sp.nexec++
	if !sp.LightRuns || sp.nexec%64 == 0 {
		runtime.GC()
		runtime.GC()
	}
	if pv != nil {
		if out == nil {
			out = NewOutcome()
		}
		// A panic that escaped Exec is a harness-level failure of the run: the
		// spec's Exec wraps calls into code under test and classifies their
		// panics itself. Report loudly, attributed to the property.
		if out.Violation == nil {
			top := firstRepoFrame(stack)
			out.Violation = &Violation{Prop: sp.Prop, Oracle: "panic", Sig: "panic:" + trimPanic(pv) + "@" + top, Step: -1,
				Msg: fmt.Sprintf("panic: %v\n%s", pv, stack)}
		}
	}
	if out == nil {
		out = NewOutcome()
		out.Violation = &Violation{Prop: "HARNESS", Oracle: "no-outcome", Sig: "no-outcome", Msg: "bubble returned no outcome"}
	}
	return out
}

func trimPanic(pv any) string {
	s := fmt.Sprint(pv)
	if len(s) > 80 {
		s = s[:80]
	}
	return s
}

// firstRepoFrame extracts the first stack frame inside jamf/regatta for stable signatures.
func firstRepoFrame(stack string) string {
	for _, ln := range strings.Split(stack, "\n") {
		ln = strings.TrimSpace(ln)
		if strings.HasPrefix(ln, "github.com/jamf/regatta/") {
			if i := strings.Index(ln, "("); i > 0 {
				ln = ln[:i]
			}
			return strings.TrimPrefix(ln, "github.com/jamf/regatta/")
		}
	}
	return "?"
}

// Main is the entry point of every harness test binary.
func Main(t *testing.T, specs map[string]*Spec) {
	prop := os.Getenv("VERIF_PROP")
	sp := specs[prop]
	if sp == nil {
		if prop == "" {
			t.Skip("VERIF_PROP not set")
		}
		t.Fatalf("unknown property %q", prop)
	}
	mode := os.Getenv("VERIF_MODE")
	switch mode {
	case "replay":
		sp.replay(t)
	default:
		sp.batch(t)
	}
}

func (sp *Spec) replay(t *testing.T) {
	path := os.Getenv("VERIF_REPLAY")
	raw, err := os.ReadFile(path)
	if err != nil {
		t.Fatalf("replay: %v", err)
	}
	var rf replayFile
	if err := json.Unmarshal(raw, &rf); err != nil {
		t.Fatalf("replay: %v", err)
	}
	s, err := sp.Decode(rf.Schedule)
	if err != nil {
		t.Fatalf("replay decode: %v", err)
	}
	sp.rtSeed = RunSeed(rf.Seed, sp.Prop, rf.Run)
	out := sp.execOnce(t, s)
	res := map[string]any{"reproduced": false}
	if out.Violation != nil {
		res["violation"] = out.Violation
		res["reproduced"] = out.Violation.Prop == rf.Prop && out.Violation.Oracle == rf.Oracle
		res["same_signature"] = out.Violation.Sig == rf.Sig
	}
	if res["reproduced"] != true && sp.ExecArtifacts != nil && len(rf.Artifacts) > 0 {
		// the execution did not reach the same state (e.g. a background flush landed elsewhere): the
		// stored artifact pins the violation exactly
		ao, pv, _ := ExecInBubble(t, func() *Outcome { return sp.ExecArtifacts(s, rf.Artifacts) })
		runtime.GC()
		runtime.GC()
		if pv == nil && ao != nil && ao.Violation != nil {
			res["violation"] = ao.Violation
			res["reproduced"] = ao.Violation.Prop == rf.Prop && ao.Violation.Oracle == rf.Oracle
			res["same_signature"] = ao.Violation.Sig == rf.Sig
			res["reproduced_from_artifact"] = true
		}
	}
	res["digest"] = fmt.Sprintf("%016x", out.Digest)
	b, _ := json.MarshalIndent(res, "", " ")
	if o := os.Getenv("VERIF_OUT"); o != "" {
		_ = os.WriteFile(o, b, 0o644)
	}
	fmt.Println(string(b))
}

func (sp *Spec) batch(t *testing.T) {
	start := time.Now()
	tier := os.Getenv("VERIF_TIER")
	if tier == "" {
		tier = "quick"
	}
	seed := envU64("VERIF_SEED", 1)
	first := envInt("VERIF_FIRST", 0)
	count := envInt("VERIF_COUNT", 100)
	stride := envInt("VERIF_STRIDE", 1)
	deadline := time.Time{}
	if d := envInt("VERIF_BUDGET_S", 0); d > 0 {
		deadline = start.Add(time.Duration(d) * time.Second)
	}
	outPath := os.Getenv("VERIF_OUT")
	replayDir := os.Getenv("VERIF_REPLAY_DIR")
	if replayDir == "" {
		replayDir = os.TempDir()
	}
	wantRunDigests := os.Getenv("VERIF_RUN_DIGESTS") == "1"
	known := loadKnown(os.Getenv("VERIF_KNOWN"))
	sp.known = known
	maxViol := envInt("VERIF_MAX_VIOLATIONS", 3)

	res := &WorkerResult{Prop: sp.Prop, World: sp.World, Tier: tier, Seed: seed, First: first,
		Known: map[string]int{}, OtherProp: map[string]int{}, Probes: map[string]int64{}, Faults: map[string]int64{},
		Rule: sp.Rule, Real: sp.Real, Stub: sp.Stub, Required: sp.RequiredProbes, Assumptions: sp.Assumptions}
	distinct := map[uint64]struct{}{}
	seenSig := map[string]bool{}

	for k := 0; k < count; k++ {
		if !deadline.IsZero() && time.Now().After(deadline) {
			break
		}
		if k > 0 && k%8 == 0 {
			// what earlier runs left behind (every state machine ever opened stays reachable from the goroutines
			// it leaked into its dead bubble) must not add up: hand the rest of the chunk back to the runner,
			// which starts a fresh process for the next chunk
			var ms runtime.MemStats
			runtime.ReadMemStats(&ms)
			if ms.HeapAlloc > 1<<30 {
				res.StoppedEarly = fmt.Sprintf("heap %d MiB after %d runs", ms.HeapAlloc>>20, k)
				break
			}
		}
		i := first + k*stride
		rs := RunSeed(seed, sp.Prop, i)
		sp.rtSeed = rs
		s := sp.Gen(NewRand(rs), tier)
		raw, err := json.Marshal(s)
		if err != nil {
			t.Fatalf("schedule marshal: %v", err)
		}
		if outPath != "" {
			cur := replayFile{Violation: Violation{Prop: sp.Prop, Oracle: "process-death", Sig: "process-death"}, World: sp.World, Seed: seed, Run: i, Tier: tier, Schedule: raw, Steps: s.Len(), OrigSteps: s.Len()}
			cb, _ := json.Marshal(cur)
			_ = os.WriteFile(outPath+".cur", cb, 0o644)
		}
		out := sp.execOnce(t, s)
		res.Runs++
		res.Steps += int64(out.Steps)
		res.SimMs += out.SimMs
		for k, v := range out.Probes {
			res.Probes[k] += v
		}
		for k, v := range out.Faults {
			res.Faults[k] += v
		}
		if wantRunDigests {
			res.RunDigests = append(res.RunDigests, fmt.Sprintf("%d:%016x", i, out.Digest))
		}
		if out.NonTrivial {
			res.NonTrivial++
			distinct[out.Digest] = struct{}{}
		}
		if len(res.Samples) < 2 && (out.NonTrivial || k > 20) {
			if len(raw) < 20000 {
				res.Samples = append(res.Samples, raw)
			}
		}
		if v := out.Violation; v != nil {
			switch {
			case v.Prop == "INCONCLUSIVE":
				res.Inconcl++
			case v.Prop != sp.Prop && v.Prop != "HARNESS" && os.Getenv("VERIF_ALLPROPS") != "1":
				res.OtherProp[v.Prop+"/"+v.Oracle]++
			case known[v.Prop+"\x00"+v.Sig]:
				res.Known[v.Sig]++
			default:
				if seenSig[v.Oracle+"\x00"+v.Sig] || len(res.Violations) >= maxViol {
					// same class already minimised and reported by this worker
					break
				}
				seenSig[v.Oracle+"\x00"+v.Sig] = true
				ms, mv, mout := sp.shrink(t, s, out)
				mraw, _ := json.Marshal(ms)
				rf := replayFile{Violation: *mv, World: sp.World, Seed: seed, Run: i, Tier: tier, Minimised: true,
					OrigSteps: s.Len(), Steps: ms.Len(), Schedule: mraw, Artifacts: mout.Artifacts}
				// confirm the minimised schedule once more before writing it out
				conf := sp.execOnce(t, ms)
				confirmed := conf.Violation != nil && conf.Violation.Prop == mv.Prop && conf.Violation.Oracle == mv.Oracle
				name := fmt.Sprintf("%s-%s-seed%d-run%d.json", sp.Prop, sanitize(mv.Oracle), seed, i)
				p := filepath.Join(replayDir, name)
				b, _ := json.MarshalIndent(rf, "", " ")
				_ = os.MkdirAll(replayDir, 0o755)
				if err := os.WriteFile(p, b, 0o644); err != nil {
					t.Fatalf("write replay: %v", err)
				}
				res.Violations = append(res.Violations, violationReport{Violation: *mv, Replay: p, Seed: seed, Run: i, Steps: ms.Len(), OrigSteps: s.Len(), Confirmed: confirmed})
			}
		}
	}
	for d := range distinct {
		res.Digests = append(res.Digests, fmt.Sprintf("%016x", d))
	}
	sort.Strings(res.Digests)
	res.WallS = time.Since(start).Seconds()
	b, _ := json.Marshal(res)
	if outPath != "" {
		if err := os.WriteFile(outPath, b, 0o644); err != nil {
			t.Fatalf("write result: %v", err)
		}
		_ = os.Remove(outPath + ".cur")
	} else {
		fmt.Println(string(b))
	}
}

func sanitize(s string) string {
	var sb strings.Builder
	for _, c := range s {
		if (c >= 'a' && c <= 'z') || (c >= 'A' && c <= 'Z') || (c >= '0' && c <= '9') || c == '-' || c == '_' {
			sb.WriteRune(c)
		} else {
			sb.WriteByte('_')
		}
	}
	return sb.String()
}

func loadKnown(path string) map[string]bool {
	m := map[string]bool{}
	if path == "" {
		return m
	}
	raw, err := os.ReadFile(path)
	if err != nil {
		return m
	}
	var doc struct {
		Findings []knownFinding `json:"findings"`
	}
	if err := json.Unmarshal(raw, &doc); err != nil {
		return m
	}
	for _, f := range doc.Findings {
		if f.Status == "known" {
			m[f.Property+"\x00"+f.Signature] = true
		}
	}
	return m
}

// shrink minimises a failing schedule: ddmin over steps, then argument
// simplification, accepting a candidate only when the same oracle of the same
// property fails again. Budgeted.
func (sp *Spec) shrink(t *testing.T, s Schedule, out *Outcome) (Schedule, *Violation, *Outcome) {
	budget := envInt("VERIF_SHRINK_BUDGET", 200)
	deadline := time.Now().Add(time.Duration(envInt("VERIF_SHRINK_S", 120)) * time.Second)
	v := out.Violation
	best, bestV, bestOut := s, v, out
	try := func(c Schedule) bool {
		if budget <= 0 || time.Now().After(deadline) {
			return false
		}
		budget--
		o := sp.execOnce(t, c)
		if o.Violation != nil && o.Violation.Prop == v.Prop && o.Violation.Oracle == v.Oracle {
			if sp.known[o.Violation.Prop+"\x00"+o.Violation.Sig] && !sp.known[v.Prop+"\x00"+v.Sig] {
				// a smaller schedule that fails as a recorded known finding is not a smaller form of this one
				return false
			}
			best, bestV, bestOut = c, o.Violation, o
			return true
		}
		return false
	}
	// steps after the failing one cannot matter
	if v.Step >= 0 && v.Step+1 < best.Len() {
		keep := make([]int, v.Step+1)
		for i := range keep {
			keep[i] = i
		}
		try(best.Subset(keep))
	}
	n := 2
	for best.Len() >= 2 && budget > 0 {
		L := best.Len()
		if n > L {
			n = L
		}
		chunk := (L + n - 1) / n
		reduced := false
		for c := 0; c*chunk < L; c++ {
			lo, hi := c*chunk, (c+1)*chunk
			if hi > L {
				hi = L
			}
			keep := make([]int, 0, L-(hi-lo))
			for i := 0; i < L; i++ {
				if i < lo || i >= hi {
					keep = append(keep, i)
				}
			}
			if len(keep) == 0 {
				continue
			}
			if try(best.Subset(keep)) {
				reduced = true
				if n > 2 {
					n--
				}
				break
			}
		}
		if !reduced {
			if n >= L {
				break
			}
			n *= 2
		}
	}
	// argument simplification
	for budget > 0 {
		sim, ok := best.(Simplifier)
		if !ok {
			break
		}
		progress := false
		for _, c := range sim.Simplify() {
			if try(c) {
				progress = true
				break
			}
			if budget <= 0 {
				break
			}
		}
		if !progress {
			break
		}
	}
	return best, bestV, bestOut
}
