// Package core is the shared simulator core: seeded PRNG (stream and keyed
// forms), batch runner, schedule shrinker, replay files and the worker result
// format consumed by /verif/check.
package core

import (
	"encoding/binary"
	"hash/fnv"
)

// Rand is a SplitMix64 stream. It is owned by schedule generators, which run
// before execution, so execution can never perturb it.
type Rand struct{ s uint64 }

func NewRand(seed uint64) *Rand { return &Rand{s: seed} }

func mix64(z uint64) uint64 {
	z = (z ^ (z >> 30)) * 0xbf58476d1ce4e5b9
	z = (z ^ (z >> 27)) * 0x94d049bb133111eb
	return z ^ (z >> 31)
}

func (r *Rand) Uint64() uint64 {
	r.s += 0x9e3779b97f4a7c15
	return mix64(r.s)
}

// Intn returns a value in [0,n). n<=0 yields 0.
func (r *Rand) Intn(n int) int {
	if n <= 1 {
		return 0
	}
	return int(r.Uint64() % uint64(n))
}

// Range returns a value in [lo,hi] inclusive.
func (r *Rand) Range(lo, hi int) int {
	if hi <= lo {
		return lo
	}
	return lo + r.Intn(hi-lo+1)
}

func (r *Rand) Float() float64 { return float64(r.Uint64()>>11) / (1 << 53) }

func (r *Rand) Chance(p float64) bool { return r.Float() < p }

// Fork derives an independent stream for a named sub-generator.
func (r *Rand) Fork(tag string) *Rand { return NewRand(Mix(r.Uint64(), HashString(tag))) }

// Pick returns a weighted index; weights <= 0 are never chosen (if all are, 0).
func (r *Rand) Pick(weights []int) int {
	tot := 0
	for _, w := range weights {
		if w > 0 {
			tot += w
		}
	}
	if tot == 0 {
		return 0
	}
	x := r.Intn(tot)
	for i, w := range weights {
		if w <= 0 {
			continue
		}
		if x < w {
			return i
		}
		x -= w
	}
	return len(weights) - 1
}

func (r *Rand) Bytes(n int) []byte {
	b := make([]byte, n)
	for i := 0; i < n; i += 8 {
		v := r.Uint64()
		for j := 0; j < 8 && i+j < n; j++ {
			b[i+j] = byte(v >> (8 * j))
		}
	}
	return b
}

// Mix is the keyed form K(seed, a, b, ...): a pure function of its arguments,
// used for decisions taken during execution so that a decision depends on what
// is decided, never on when it is asked.
func Mix(vals ...uint64) uint64 {
	h := uint64(0x243f6a8885a308d3)
	for _, v := range vals {
		h = mix64(h ^ mix64(v+0x9e3779b97f4a7c15))
	}
	return h
}

func HashString(s string) uint64 {
	h := fnv.New64a()
	_, _ = h.Write([]byte(s))
	return h.Sum64()
}

// Digest is an order-sensitive 64-bit accumulator for run identities.
type Digest struct{ h uint64 }

func (d *Digest) Add(v uint64)       { d.h = Mix(d.h, v) }
func (d *Digest) AddString(s string) { d.h = Mix(d.h, HashString(s)) }
func (d *Digest) AddBytes(b []byte) {
	h := fnv.New64a()
	_, _ = h.Write(b)
	var l [8]byte
	binary.LittleEndian.PutUint64(l[:], uint64(len(b)))
	_, _ = h.Write(l[:])
	d.h = Mix(d.h, h.Sum64())
}
func (d *Digest) Sum() uint64 { return d.h }
