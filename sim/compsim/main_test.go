//go:debug randautoseed=0
//go:debug randseednop=0
package compsim

import (
	"testing"

	"verif/sim/core"
)

var Specs = map[string]*core.Spec{
	"C11": {Prop: "C11", World: "W2 compsim/queue", Gen: GenQ, Decode: DecodeQ, Exec: ExecQ, LightRuns: true,
		Rule:           "seeded schedules of forwarded writes (Put/DeleteRange/Txn through the real ForwardingKVServer and IndexNotificationQueue), Notify, cancellations, deadlines and clock advances relative to the 1 s sweep; non-trivial = a waiter was cancelled while a live waiter with a smaller revision kept it below the heap root; distinct = digests of (call, outcome) sequences",
		Real:           []string{"storage.IndexNotificationQueue (Run loop, sweep)", "util/heap", "util.SyncMap", "regattaserver.ForwardingKVServer"},
		Stub:           []string{"leader KVClient: returns the scheduled revision", "apply path: kernel calls Notify", "clock: synctest fake clock"},
		RequiredProbes: []string{"notify", "cancelled-waiter-below-root"},
		Assumptions:    []string{"a Notify issued before a waiter is queued obliges nothing (the queue keeps no history by design); only notifications after Add are required to answer"}},
}

func TestRun(t *testing.T) { core.Main(t, Specs) }
