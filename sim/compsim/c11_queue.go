// Package compsim is world W2: one real regatta component at a time behind the
// interfaces the code already declares, stimulated one event at a time by a
// kernel goroutine inside a testing/synctest bubble (fake clock, quiescence
// detection).
package compsim

import (
	"context"
	"encoding/json"
	"errors"
	"fmt"
	"testing/synctest"
	"time"

	"github.com/jamf/regatta/regattapb"
	"github.com/jamf/regatta/regattaserver"
	"github.com/jamf/regatta/storage"
	"google.golang.org/grpc"
	"verif/sim/core"
)

// ---- schedule ---------------------------------------------------------------

type QStep struct {
	Op    string `json:"op"` // call notify cancel advance len
	ID    int    `json:"id,omitempty"`
	Table int    `json:"table,omitempty"`
	Rev   uint64 `json:"rev,omitempty"`
	Kind  string `json:"kind,omitempty"` // put del txn
	DlMs  int    `json:"deadline_ms,omitempty"`
	Ms    int    `json:"ms,omitempty"`
}

type QSched struct {
	Tables int     `json:"tables"`
	Steps  []QStep `json:"steps"`
}

func (s *QSched) Len() int { return len(s.Steps) }
func (s *QSched) Subset(keep []int) core.Schedule {
	c := &QSched{Tables: s.Tables}
	for _, i := range keep {
		c.Steps = append(c.Steps, s.Steps[i])
	}
	return c
}

func DecodeQ(raw json.RawMessage) (core.Schedule, error) {
	s := &QSched{}
	return s, json.Unmarshal(raw, s)
}

func GenQ(r *core.Rand, tier string) core.Schedule {
	s := &QSched{Tables: r.Range(1, 3)}
	n := r.Range(6, 40)
	nextID := 0
	var live []int
	maxRev := uint64(r.Range(3, 30))
	noRevZero := r.Chance(0.5)
	noDeadline := r.Chance(0.3)
	wCall, wNotify, wCancel, wAdv, wLen := 35, 20, 15, 20, 10
	if r.Chance(0.3) { // waiter-heavy runs build deep heaps
		wCall = 70
	}
	for len(s.Steps) < n {
		switch r.Pick([]int{wCall, wNotify, wCancel, wAdv, wLen}) {
		case 0:
			st := QStep{Op: "call", ID: nextID, Table: r.Intn(s.Tables), Rev: uint64(r.Range(1, int(maxRev))), Kind: []string{"put", "del", "txn"}[r.Intn(3)]}
			if !noRevZero && r.Chance(0.08) {
				st.Rev = 0
			}
			if !noDeadline && r.Chance(0.4) {
				st.DlMs = []int{100, 500, 900, 1000, 1500, 2500, 4000}[r.Intn(7)]
			}
			live = append(live, nextID)
			nextID++
			s.Steps = append(s.Steps, st)
		case 1:
			s.Steps = append(s.Steps, QStep{Op: "notify", Table: r.Intn(s.Tables), Rev: uint64(r.Range(0, int(maxRev)+2))})
		case 2:
			if len(live) > 0 {
				i := r.Intn(len(live))
				s.Steps = append(s.Steps, QStep{Op: "cancel", ID: live[i]})
				live = append(live[:i], live[i+1:]...)
			}
		case 3:
			s.Steps = append(s.Steps, QStep{Op: "advance", Ms: []int{100, 300, 700, 1000, 1100, 2000, 3000}[r.Intn(7)]})
		default:
			s.Steps = append(s.Steps, QStep{Op: "len", Table: r.Intn(s.Tables)})
		}
	}
	return s
}

// ---- stubs --------------------------------------------------------------------

type stubLeader struct {
	rev func(ctx context.Context) uint64
}

func (l *stubLeader) Range(ctx context.Context, in *regattapb.RangeRequest, _ ...grpc.CallOption) (*regattapb.RangeResponse, error) {
	return &regattapb.RangeResponse{}, nil
}
func (l *stubLeader) IterateRange(ctx context.Context, in *regattapb.RangeRequest, _ ...grpc.CallOption) (regattapb.KV_IterateRangeClient, error) {
	return nil, errors.New("stub")
}
func (l *stubLeader) Put(ctx context.Context, in *regattapb.PutRequest, _ ...grpc.CallOption) (*regattapb.PutResponse, error) {
	return &regattapb.PutResponse{Header: &regattapb.ResponseHeader{Revision: l.rev(ctx)}}, nil
}
func (l *stubLeader) DeleteRange(ctx context.Context, in *regattapb.DeleteRangeRequest, _ ...grpc.CallOption) (*regattapb.DeleteRangeResponse, error) {
	return &regattapb.DeleteRangeResponse{Header: &regattapb.ResponseHeader{Revision: l.rev(ctx)}}, nil
}
func (l *stubLeader) Txn(ctx context.Context, in *regattapb.TxnRequest, _ ...grpc.CallOption) (*regattapb.TxnResponse, error) {
	return &regattapb.TxnResponse{Header: &regattapb.ResponseHeader{Revision: l.rev(ctx)}}, nil
}

type revKey struct{}

type qcall struct {
	id       int
	table    int
	rev      uint64
	ctx      context.Context
	cancel   context.CancelFunc
	started  time.Time
	returned bool
	err      error
	retAt    time.Time
	retSeq   int
	ended    bool // context ended (observed)
	endAt    time.Time
	mustBy   bool // a qualifying Notify was issued after Add while the context was live
	sawNotif bool // a Notify(table, i>=rev) was issued at some point before return
}

const sweepPeriod = time.Second

// ExecQ runs one C11 schedule. Must run inside a bubble.
func ExecQ(s core.Schedule) *core.Outcome {
	sc := s.(*QSched)
	out := core.NewOutcome()
	var dig core.Digest
	start := time.Now()
	q := storage.NewNotificationQueue()
	go q.Run()
	leader := &stubLeader{rev: func(ctx context.Context) uint64 { return ctx.Value(revKey{}).(uint64) }}
	fwd := regattaserver.NewForwardingKVServer(nil, leader, q)
	calls := map[int]*qcall{}
	var order []*qcall
	seq := 0
	notified := map[int]uint64{} // table -> highest index notified so far
	tname := func(i int) string { return fmt.Sprintf("t%d", i) }
	step := 0
	fail := func(oracle, sig, f string, a ...any) { out.Fail("C11", oracle, sig, step, f, a...) }

	// kernelCall runs a queue API call that must complete at the same fake instant.
	kernelCall := func(name string, f func()) bool {
		done := make(chan struct{})
		go func() { f(); close(done) }()
		synctest.Wait()
		select {
		case <-done:
			return true
		default:
		}
		t0 := time.Now()
		time.Sleep(5 * time.Second)
		synctest.Wait()
		select {
		case <-done:
			fail("kernel-call-delayed", "delayed:"+name, "%s needed %v of fake time to complete while waiters were pending", name, time.Since(t0))
		default:
			fail("queue-wedged", "wedged:"+name, "%s did not complete within 5 s of fake time: the queue's event loop no longer serves requests", name)
		}
		return false
	}

	observe := func() {
		now := time.Now()
		for _, c := range order {
			if !c.ended && c.ctx.Err() != nil {
				c.ended = true
				// the context ended somewhere in the last advance; deadline contexts know when
				if dl, ok := c.ctx.Deadline(); ok && !dl.After(now) && context.Cause(c.ctx) == context.DeadlineExceeded {
					c.endAt = dl
				} else {
					c.endAt = now
				}
			}
		}
	}

	check := func() {
		if out.Violation != nil {
			return
		}
		now := time.Now()
		for _, c := range order {
			if c.returned {
				continue
			}
			if c.mustBy {
				fail("notify-not-answered", "notify-not-answered", "call %d (table %d, revision %d) still waits although Notify(index >= revision) was issued after it was queued and its context was live", c.id, c.table, c.rev)
				return
			}
			if c.ended && now.Sub(c.endAt) > sweepPeriod+10*time.Millisecond {
				sig := "expired-not-answered"
				if c.rev == 0 {
					sig = "expired-not-answered:revision-0"
				}
				fail("expired-not-answered", sig, "call %d (table %d, revision %d): context ended %v ago (more than one sweep period) and the call has not returned", c.id, c.table, c.rev, now.Sub(c.endAt))
				return
			}
		}
	}

	onReturn := func(c *qcall) {
		// called on the kernel goroutine after quiescence for newly returned calls
		if c.err == nil {
			if !c.sawNotif {
				fail("nil-without-apply", "nil-without-apply", "call %d (table %d, revision %d) returned nil but no Notify(index >= %d) was ever issued for its table", c.id, c.table, c.rev, c.rev)
			}
			return
		}
		if c.ctx.Err() == nil {
			fail("error-before-expiry", "error-before-expiry", "call %d returned error %v while its context is still live", c.id, c.err)
			return
		}
		if !errors.Is(c.err, c.ctx.Err()) {
			fail("wrong-error", "wrong-error", "call %d returned %v, want its context error %v", c.id, c.err, c.ctx.Err())
		}
	}

	returnedSeen := map[int]bool{}
	settle := func() {
		synctest.Wait()
		observe()
		for _, c := range order {
			if c.returned && !returnedSeen[c.id] {
				returnedSeen[c.id] = true
				onReturn(c)
				dig.Add(uint64(c.id))
				if c.err == nil {
					dig.Add(1)
				} else {
					dig.Add(2)
				}
			}
		}
		check()
	}

	unreturned := func(table int) (all, live int) {
		for _, c := range order {
			if c.table == table && !c.returned {
				all++
				if c.ctx.Err() == nil {
					live++
				}
			}
		}
		return
	}

	for i := range sc.Steps {
		if out.Violation != nil {
			break
		}
		step = i
		st := &sc.Steps[i]
		switch st.Op {
		case "call":
			if _, dup := calls[st.ID]; dup {
				continue
			}
			table := st.Table % sc.Tables
			base := context.WithValue(context.Background(), revKey{}, st.Rev)
			var ctx context.Context
			var cancel context.CancelFunc
			if st.DlMs > 0 {
				ctx, cancel = context.WithTimeout(base, time.Duration(st.DlMs)*time.Millisecond)
			} else {
				ctx, cancel = context.WithCancel(base)
			}
			c := &qcall{id: st.ID, table: table, rev: st.Rev, ctx: ctx, cancel: cancel, started: time.Now()}
			calls[st.ID] = c
			order = append(order, c)
			if st.Rev == 0 {
				out.Probe("revision-0-waiter")
			}
			go func() {
				var err error
				switch st.Kind {
				case "del":
					_, err = fwd.DeleteRange(ctx, &regattapb.DeleteRangeRequest{Table: []byte(tname(table)), Key: []byte("k")})
				case "txn":
					_, err = fwd.Txn(ctx, &regattapb.TxnRequest{Table: []byte(tname(table)), Success: []*regattapb.RequestOp{{Request: &regattapb.RequestOp_RequestPut{RequestPut: &regattapb.RequestOp_Put{Key: []byte("k")}}}}})
				default:
					_, err = fwd.Put(ctx, &regattapb.PutRequest{Table: []byte(tname(table)), Key: []byte("k"), Value: []byte("v")})
				}
				seq++
				c.err, c.retAt, c.retSeq, c.returned = err, time.Now(), seq, true
			}()
			settle()
			// Add must have been accepted at this instant: probe responsiveness through Len
		case "notify":
			table := st.Table % sc.Tables
			// bookkeeping first: which waiting calls does this notification oblige?
			for _, c := range order {
				if c.table == table && c.rev <= st.Rev {
					c.sawNotif = true
					if !c.returned && c.ctx.Err() == nil {
						c.mustBy = true
					}
				}
			}
			if st.Rev > notified[table] {
				notified[table] = st.Rev
			}
			if !kernelCall("Notify", func() { q.Notify(tname(table), st.Rev) }) {
				break
			}
			out.Probe("notify")
			settle()
		case "cancel":
			if c := calls[st.ID]; c != nil {
				if !c.returned && c.ctx.Err() == nil {
					// is a cancelled waiter going to sit below the root of its heap?
					for _, o := range order {
						if o != c && o.table == c.table && !o.returned && o.ctx.Err() == nil && o.rev < c.rev {
							out.Probe("cancelled-waiter-below-root")
							break
						}
					}
				}
				c.cancel()
				out.Fault("cancel")
				settle()
			}
		case "advance":
			d := time.Duration(st.Ms) * time.Millisecond
			// advance in slices so that deadlines are observed near the time they pass
			for d > 0 && out.Violation == nil {
				sl := 250 * time.Millisecond
				if d < sl {
					sl = d
				}
				time.Sleep(sl)
				d -= sl
				settle()
			}
			out.Fault("clock-advance")
		case "len":
			table := st.Table % sc.Tables
			var got int
			if !kernelCall("Len", func() { got = q.Len(tname(table)) }) {
				break
			}
			settle()
			all, live := unreturned(table)
			if got < live || got > all {
				sig := "len-too-large"
				if got < live {
					sig = "len-too-small"
				}
				fail("len", sig, "Len(table %d) = %d, but %d calls are unanswered (%d of them with a live context)", table, got, all, live)
			}
			dig.Add(uint64(got))
		}
	}
	// bounded liveness once the schedule (and with it every fault) ended: cancel what is
	// left; every call returns within one sweep period and the queue drains and stays responsive
	if out.Violation == nil {
		step = len(sc.Steps)
		for _, c := range order {
			c.cancel()
		}
		settle()
		for k := 0; k < 5 && out.Violation == nil; k++ {
			time.Sleep(250 * time.Millisecond)
			settle()
		}
		for _, c := range order {
			if !c.returned && out.Violation == nil {
				fail("final-not-answered", "final-not-answered", "call %d (table %d, revision %d) never returned after its context was cancelled", c.id, c.table, c.rev)
			}
		}
		for t := 0; t < sc.Tables && out.Violation == nil; t++ {
			var got int
			if kernelCall("Len", func() { got = q.Len(tname(t)) }) && got != 0 {
				fail("len", "len-final-nonzero", "after every call returned Len(table %d) = %d", t, got)
			}
		}
	}
	for _, c := range order {
		c.cancel()
	}
	_ = q.Close()
	synctest.Wait()
	out.NonTrivial = out.Probes["cancelled-waiter-below-root"] > 0
	out.Digest = dig.Sum()
	out.Steps = len(sc.Steps)
	out.SimMs = time.Since(start).Milliseconds()
	return out
}
