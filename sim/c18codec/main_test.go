//go:debug randautoseed=0
//go:debug randseednop=0
package c18codec

import (
	"testing"

	"verif/sim/core"
)

var Specs = map[string]*core.Spec{
	"C18": {Prop: "C18", World: "W2 c18codec", Gen: Gen, Decode: Decode, Exec: Exec,
		Rule: "seeded schedules over three step families with explicit arguments: (a) rt: a structurally generated API message (protobuf reflection over every regattapb type, every oneof arm, proto3-optional absent / present-zero / present, large fields by (seed,len,kind)) is encoded by the REGISTERED codec, read by protobuf-go (reference), decoded by the registered codec into a fresh object and into an object recycled from the vtproto pool after it held a larger message, decoded by UnmarshalVT with the input buffer overwritten afterwards; (b) c.open/c.write/c.close/d.open/d.read/c.par: several Compress writers and Decompress readers of one registered compressor open at once, the schedule decides who writes/reads how many bytes next (each stimulus on its own goroutine, synctest.Wait between), c.par runs whole streams on concurrent goroutines; every stream is completed and compared with its payload at the end; (c) snap: a command sequence (0..200, values up to 2 MiB) is written to a snapshot file as SnapshotServer.Stream does, sent through snapshot.Writer over a fake stream (registered codec, optional registered compressor per frame) with scheduled chunk sizes and boundaries placed inside record length prefixes / snappy frame headers, received by snapshot.Reader (WriteTo as worker.recover, Read with scheduled buffers, or the backup path backup.Writer -> BackupServer.Restore) and read back record-wise as table.Manager.readIntoTable does. non-trivial = at least 2 compress streams interleaved on one compressor, or a chunk boundary inside a length prefix; distinct = digests of every encoded byte string, compressed stream, record and outcome",
		Real: []string{"regattaserver/encoding/proto.Codec via encoding.GetCodec(\"proto\")", "regattaserver/encoding/{gzip,snappy,zstd} via encoding.GetCompressor (sync.Pool state)",
			"regattapb *_vtproto.pb.go (MarshalVT, UnmarshalVT, UnmarshalVTUnsafe, ResetVT, vtproto pools)", "replication/snapshot: NewTemp, snapshotFile Write/Read/Sync/Close, Writer (Write, ReadFrom), Reader (Read, WriteTo; no Limiter)",
			"replication/backup.Writer", "regattaserver.BackupServer.Restore (backupReader)", "real files (tmpfs) for *os.File"},
		Stub: []string{"gRPC streams: in-memory frame queue (codec + optional compressor applied per frame as grpc does)", "TableService.Restore: reads records like readIntoTable and compares",
			"table.Snapshot producer: the harness writes the commands into the snapshot file", "clock: synctest fake clock (unused: nothing here waits on time)"},
		RequiredProbes: []string{"pooled-object-reused", "leader-index-present-zero", "interleaved-compress-streams", "pool-state-reused-while-other-stream-open",
			"chunk-boundary-inside-length-prefix", "chunk-boundary-inside-record-length-prefix", "payload>=1MiB", "empty-payload", "stream-verified", "snapshot-verified",
			"empty-chunk", "consumer-writeto", "consumer-read", "consumer-backup-restore", "parallel-streams", "safe-unmarshal-buffer-overwritten",
			"oneof-arm-request_range", "oneof-arm-request_put", "oneof-arm-request_delete_range", "oneof-arm-response_range", "oneof-arm-response_put", "oneof-arm-response_delete_range",
			"oneof-arm-commands_response", "oneof-arm-error_response", "oneof-arm-value", "oneof-arm-info", "oneof-arm-chunk",
			"command-type-PUT", "command-type-DELETE", "command-type-DUMMY", "command-type-PUT_BATCH", "command-type-DELETE_BATCH", "command-type-TXN", "command-type-SEQUENCE",
			"range-end-absent", "range-end-present-empty", "range-end-present", "command-with-nested-sequence", "command-with-txn"},
		Assumptions: []string{
			"the registered codec decodes every regattapb message with UnmarshalVTUnsafe (all of them implement it), so its result aliases the input buffer by design; no-aliasing is asserted for UnmarshalVT and for the codec's proto.Message fallback only (grpc 1.63 without a shared receive buffer pool never reuses the buffer)",
			"one pooled object is decoded with one flavour (registered codec or UnmarshalVT) for its whole life; mixing UnmarshalVTUnsafe and UnmarshalVT on one pooled object is outside the vtproto contract and is not generated",
			"no command of a snapshot encodes to zero bytes (the producers always set the table name); snapshotFile.Write ignores empty writes by design",
			"snapshot.Reader.Read is given a buffer at least as large as the largest chunk (it reports io.ErrShortBuffer otherwise, by design)",
			"generated messages are valid: no nil elements in repeated fields, no nil message inside a set oneof wrapper, valid UTF-8 strings, finite floats; nil and empty bytes of a field without presence are the same value",
		}},
}

func TestRun(t *testing.T) { core.Main(t, Specs) }
