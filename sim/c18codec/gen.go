// Package c18codec is a W2 harness for property C18: the registered gRPC codec,
// the registered compressors and the snapshot/backup chunk framing are lossless
// for every message, payload and chunking.
//
// gen.go holds the model side: payload descriptors, the seeded structural
// message generator (protobuf reflection over the regattapb message types; it
// never calls the vtproto code under test) and the structural diff used for
// stable violation signatures.
package c18codec

import (
	"fmt"
	"sort"
	"strings"

	"github.com/jamf/regatta/regattapb"
	"google.golang.org/protobuf/proto"
	"google.golang.org/protobuf/reflect/protoreflect"
	"google.golang.org/protobuf/types/known/structpb"
	"google.golang.org/protobuf/types/known/wrapperspb"
	"verif/sim/core"
)

// ---- payload descriptors ------------------------------------------------------

// Payload describes a byte string by (seed, len, kind); the bytes are a pure
// function of the descriptor.
type Payload struct {
	Seed uint64 `json:"seed"`
	Len  int    `json:"len"`
	Kind string `json:"kind"` // zeros random rep text
}

const maxPayload = 4 << 20

func (p Payload) Bytes() []byte {
	n := p.Len
	if n < 0 {
		n = 0
	}
	if n > maxPayload {
		n = maxPayload
	}
	b := make([]byte, n)
	switch p.Kind {
	case "zeros":
	case "rep":
		// a short seeded pattern repeated; period 1..64
		r := core.NewRand(p.Seed)
		per := 1 + r.Intn(64)
		pat := r.Bytes(per)
		for i := 0; i < n; i += per {
			copy(b[i:], pat)
		}
	case "text":
		r := core.NewRand(p.Seed)
		words := []string{"regatta", "table", "key", "value", "leader", "follower", "0", "1", "{\"a\":", "}", " ", "\n"}
		for i := 0; i < n; {
			i += copy(b[i:], words[r.Intn(len(words))])
		}
	default: // random, incompressible
		fillRandom(b, p.Seed)
	}
	return b
}

func fillRandom(b []byte, seed uint64) {
	s := seed
	i := 0
	for ; i+8 <= len(b); i += 8 {
		s += 0x9e3779b97f4a7c15
		z := s
		z = (z ^ (z >> 30)) * 0xbf58476d1ce4e5b9
		z = (z ^ (z >> 27)) * 0x94d049bb133111eb
		z ^= z >> 31
		b[i], b[i+1], b[i+2], b[i+3] = byte(z), byte(z>>8), byte(z>>16), byte(z>>24)
		b[i+4], b[i+5], b[i+6], b[i+7] = byte(z>>32), byte(z>>40), byte(z>>48), byte(z>>56)
	}
	if i < len(b) {
		r := core.NewRand(seed ^ 0x5bd1e995)
		copy(b[i:], r.Bytes(len(b)-i))
	}
}

// ---- message kinds --------------------------------------------------------------

type kindInfo struct {
	name   string
	new    func() proto.Message
	weight int
}

var kinds = []kindInfo{
	{"Command", func() proto.Message { return &regattapb.Command{} }, 40},
	{"CommandResult", func() proto.Message { return &regattapb.CommandResult{} }, 4},
	{"PutRequest", func() proto.Message { return &regattapb.PutRequest{} }, 4},
	{"PutResponse", func() proto.Message { return &regattapb.PutResponse{} }, 3},
	{"RangeRequest", func() proto.Message { return &regattapb.RangeRequest{} }, 4},
	{"RangeResponse", func() proto.Message { return &regattapb.RangeResponse{} }, 4},
	{"DeleteRangeRequest", func() proto.Message { return &regattapb.DeleteRangeRequest{} }, 3},
	{"DeleteRangeResponse", func() proto.Message { return &regattapb.DeleteRangeResponse{} }, 3},
	{"TxnRequest", func() proto.Message { return &regattapb.TxnRequest{} }, 6},
	{"TxnResponse", func() proto.Message { return &regattapb.TxnResponse{} }, 6},
	{"ReplicateRequest", func() proto.Message { return &regattapb.ReplicateRequest{} }, 2},
	{"ReplicateResponse", func() proto.Message { return &regattapb.ReplicateResponse{} }, 8},
	{"SnapshotRequest", func() proto.Message { return &regattapb.SnapshotRequest{} }, 1},
	{"SnapshotChunk", func() proto.Message { return &regattapb.SnapshotChunk{} }, 10},
	{"ResponseHeader", func() proto.Message { return &regattapb.ResponseHeader{} }, 2},
	{"MetadataRequest", func() proto.Message { return &regattapb.MetadataRequest{} }, 1},
	{"MetadataResponse", func() proto.Message { return &regattapb.MetadataResponse{} }, 3},
	{"BackupRequest", func() proto.Message { return &regattapb.BackupRequest{} }, 1},
	{"RestoreMessage", func() proto.Message { return &regattapb.RestoreMessage{} }, 5},
	{"ResetRequest", func() proto.Message { return &regattapb.ResetRequest{} }, 1},
	{"MemberListResponse", func() proto.Message { return &regattapb.MemberListResponse{} }, 2},
	{"StatusResponse", func() proto.Message { return &regattapb.StatusResponse{} }, 3},
	{"CreateTableRequest", func() proto.Message { return &regattapb.CreateTableRequest{} }, 2},
	{"ListTablesResponse", func() proto.Message { return &regattapb.ListTablesResponse{} }, 2},
	// messages without vtproto methods: the codec's proto.Message fallback
	{"wkt.BytesValue", func() proto.Message { return &wrapperspb.BytesValue{} }, 2},
	{"wkt.Struct", func() proto.Message { return &structpb.Struct{} }, 2},
}

var kindByName = func() map[string]*kindInfo {
	m := map[string]*kindInfo{}
	for i := range kinds {
		m[kinds[i].name] = &kinds[i]
	}
	return m
}()

func newKind(name string) proto.Message {
	if k := kindByName[name]; k != nil {
		return k.new()
	}
	return nil
}

// hasMap reports whether a map field is reachable from the message type (map
// iteration order makes the vtproto encoding of such messages vary run to run).
var hasMapCache = map[string]bool{}

func hasMap(md protoreflect.MessageDescriptor) bool {
	key := string(md.FullName())
	if v, ok := hasMapCache[key]; ok {
		return v
	}
	hasMapCache[key] = false // recursion guard
	res := false
	fds := md.Fields()
	for i := 0; i < fds.Len() && !res; i++ {
		fd := fds.Get(i)
		if fd.IsMap() {
			res = true
			break
		}
		if fd.Message() != nil && hasMap(fd.Message()) {
			res = true
		}
	}
	hasMapCache[key] = res
	return res
}

// ---- structural generator -------------------------------------------------------

// MsgDesc describes one generated message; the message is a pure function of it.
type MsgDesc struct {
	Kind     string   `json:"kind"`
	Seed     uint64   `json:"seed"`
	Depth    int      `json:"depth"`              // nesting budget for message-typed fields
	Width    int      `json:"width"`              // max elements of a repeated field
	Presence int      `json:"presence"`           // percent: how likely a field is populated
	Big      *Payload `json:"big,omitempty"`      // a large bytes field, placed in the BigSkip-th bytes field met
	BigSkip  int      `json:"big_skip,omitempty"` //
}

type mgen struct {
	r        *core.Rand
	presence float64
	width    int
	big      *Payload
	bigSkip  int
	arms     []string
	nbytes   int
}

var u64Edges = []uint64{1, 2, 127, 128, 255, 300, 16383, 16384, 1<<21 - 1, 1 << 21, 1<<31 - 1, 1 << 31, 1<<32 - 1, 1 << 32, 1<<56 - 1, 1 << 56, 1<<63 - 1, 1 << 63, 1<<64 - 1}
var i64Edges = []int64{1, -1, 63, 64, -64, -65, 127, 128, 1<<31 - 1, -(1 << 31), 1 << 32, 1<<63 - 1, -(1 << 63), 1000000007}

func (g *mgen) present() bool { return g.r.Float() < g.presence }

func (g *mgen) smallBytes() []byte {
	switch g.r.Pick([]int{2, 5, 3, 1}) {
	case 0:
		return []byte{}
	case 1:
		return g.r.Bytes(g.r.Range(1, 12))
	case 2:
		return g.r.Bytes(g.r.Range(13, 200))
	default:
		return g.r.Bytes(g.r.Range(201, 3000))
	}
}

func (g *mgen) bytesVal() []byte {
	if g.big != nil {
		if g.bigSkip <= 0 {
			b := g.big.Bytes()
			g.big = nil
			return b
		}
		g.bigSkip--
	}
	return g.smallBytes()
}

func (g *mgen) str() string {
	const al = "abcdefghijklmnopqrstuvwxyz0123456789-_./:"
	n := g.r.Pick([]int{1, 6, 2})
	ln := 0
	switch n {
	case 1:
		ln = g.r.Range(1, 16)
	case 2:
		ln = g.r.Range(17, 300)
	}
	var sb strings.Builder
	for i := 0; i < ln; i++ {
		sb.WriteByte(al[g.r.Intn(len(al))])
	}
	if ln > 0 && g.r.Chance(0.1) {
		sb.WriteString("žlutý-kůň") // multi-byte, valid UTF-8
	}
	return sb.String()
}

// scalar returns a non-default value most of the time (a default value of a
// field without presence is the same message as an unset one).
func (g *mgen) scalar(fd protoreflect.FieldDescriptor, zero bool) protoreflect.Value {
	switch fd.Kind() {
	case protoreflect.BoolKind:
		return protoreflect.ValueOfBool(!zero)
	case protoreflect.EnumKind:
		if zero {
			return protoreflect.ValueOfEnum(0)
		}
		vs := fd.Enum().Values()
		if g.r.Chance(0.03) {
			return protoreflect.ValueOfEnum(99) // open enum: unknown numbers are preserved
		}
		return protoreflect.ValueOfEnum(vs.Get(g.r.Intn(vs.Len())).Number())
	case protoreflect.Int32Kind, protoreflect.Sint32Kind, protoreflect.Sfixed32Kind:
		if zero {
			return protoreflect.ValueOfInt32(0)
		}
		return protoreflect.ValueOfInt32(int32(i64Edges[g.r.Intn(len(i64Edges))]))
	case protoreflect.Uint32Kind, protoreflect.Fixed32Kind:
		if zero {
			return protoreflect.ValueOfUint32(0)
		}
		return protoreflect.ValueOfUint32(uint32(u64Edges[g.r.Intn(len(u64Edges))]))
	case protoreflect.Int64Kind, protoreflect.Sint64Kind, protoreflect.Sfixed64Kind:
		if zero {
			return protoreflect.ValueOfInt64(0)
		}
		if g.r.Chance(0.3) {
			return protoreflect.ValueOfInt64(int64(g.r.Uint64()))
		}
		return protoreflect.ValueOfInt64(i64Edges[g.r.Intn(len(i64Edges))])
	case protoreflect.Uint64Kind, protoreflect.Fixed64Kind:
		if zero {
			return protoreflect.ValueOfUint64(0)
		}
		if g.r.Chance(0.3) {
			return protoreflect.ValueOfUint64(g.r.Uint64())
		}
		return protoreflect.ValueOfUint64(u64Edges[g.r.Intn(len(u64Edges))])
	case protoreflect.FloatKind:
		if zero {
			return protoreflect.ValueOfFloat32(0)
		}
		return protoreflect.ValueOfFloat32([]float32{0.5, -1, 3, 1e30, 16777216}[g.r.Intn(5)])
	case protoreflect.DoubleKind:
		if zero {
			return protoreflect.ValueOfFloat64(0)
		}
		return protoreflect.ValueOfFloat64([]float64{0.5, -1, 3, 1e300, 9007199254740993, 1e-300}[g.r.Intn(6)])
	case protoreflect.StringKind:
		if zero {
			return protoreflect.ValueOfString("")
		}
		return protoreflect.ValueOfString(g.str())
	case protoreflect.BytesKind:
		if zero {
			return protoreflect.ValueOfBytes([]byte{})
		}
		g.nbytes++
		return protoreflect.ValueOfBytes(g.bytesVal())
	}
	panic(fmt.Sprintf("c18codec: unhandled kind %v", fd.Kind()))
}

func (g *mgen) count(depthOK bool) int {
	if !depthOK || g.width <= 0 || !g.present() {
		return 0
	}
	return g.r.Range(1, g.width)
}

func (g *mgen) fill(m protoreflect.Message, depth int) {
	fds := m.Descriptor().Fields()
	for i := 0; i < fds.Len(); i++ {
		fd := fds.Get(i)
		forced := g.big != nil // until the big payload is placed, keep descending
		if oo := fd.ContainingOneof(); oo != nil && !oo.IsSynthetic() {
			if oo.Fields().Get(0).Number() != fd.Number() {
				continue
			}
			if !forced && g.r.Chance(0.12) {
				continue // oneof not set
			}
			arm := oo.Fields().Get(g.r.Intn(oo.Fields().Len()))
			g.arms = append(g.arms, string(arm.Name()))
			if arm.Kind() == protoreflect.MessageKind {
				sub := m.Mutable(arm).Message() // present, possibly empty
				if depth > 0 {
					g.fill(sub, depth-1)
				}
			} else {
				m.Set(arm, g.scalar(arm, g.r.Chance(0.2)))
			}
			continue
		}
		if forced && fd.Kind() == protoreflect.BytesKind && !fd.IsList() && !fd.IsMap() {
			m.Set(fd, g.scalar(fd, false)) // consumes one big-skip or places the big payload
			continue
		}
		switch {
		case fd.IsMap():
			if fd.MapKey().Kind() != protoreflect.StringKind {
				continue
			}
			n := g.count(depth > 0 || fd.MapValue().Kind() != protoreflect.MessageKind)
			if n == 0 {
				continue
			}
			mp := m.Mutable(fd).Map()
			for k := 0; k < n; k++ {
				key := protoreflect.ValueOfString(fmt.Sprintf("k%d-%s", k, g.str())).MapKey()
				if fd.MapValue().Kind() == protoreflect.MessageKind {
					v := mp.NewValue()
					g.fill(v.Message(), depth-1)
					mp.Set(key, v)
				} else {
					mp.Set(key, g.scalar(fd.MapValue(), false))
				}
			}
		case fd.IsList():
			isMsg := fd.Kind() == protoreflect.MessageKind
			n := g.count(depth > 0 || !isMsg)
			if forced && n == 0 && depth > 0 && g.width > 0 {
				n = 1
			}
			if n == 0 {
				continue
			}
			l := m.Mutable(fd).List()
			for k := 0; k < n; k++ {
				if isMsg {
					e := l.NewElement()
					g.fill(e.Message(), depth-1)
					l.Append(e)
				} else {
					l.Append(g.scalar(fd, g.r.Chance(0.1)))
				}
			}
		case fd.Kind() == protoreflect.MessageKind:
			if depth <= 0 || !(forced || g.present()) {
				continue
			}
			sub := m.Mutable(fd).Message()
			if !g.r.Chance(0.1) || forced {
				g.fill(sub, depth-1)
			}
		case fd.HasOptionalKeyword():
			// proto3 optional: absent / present with the zero value / present with a value
			switch g.r.Pick([]int{35, 30, 35}) {
			case 0:
			case 1:
				m.Set(fd, g.scalar(fd, true))
			default:
				m.Set(fd, g.scalar(fd, false))
			}
		default:
			if !g.present() {
				continue
			}
			m.Set(fd, g.scalar(fd, g.r.Chance(0.08)))
		}
	}
}

// GenMsg builds the message described by d. arms lists the oneof arms chosen.
func GenMsg(d MsgDesc) (m proto.Message, arms []string) {
	m = newKind(d.Kind)
	if m == nil {
		m = &regattapb.Command{}
	}
	depth, width := d.Depth, d.Width
	if depth < 0 {
		depth = 0
	}
	if depth > 4 {
		depth = 4
	}
	if width < 0 {
		width = 0
	}
	if width > 6 {
		width = 6
	}
	g := &mgen{r: core.NewRand(core.Mix(d.Seed, core.HashString(d.Kind))), presence: float64(d.Presence) / 100, width: width, big: d.Big, bigSkip: d.BigSkip}
	if g.big != nil && g.big.Len <= 0 {
		g.big = nil
	}
	g.fill(m.ProtoReflect(), depth)
	return m, g.arms
}

// ---- inspection helpers -----------------------------------------------------------

// walkCommands visits c and every command nested in its sequence.
func walkCommands(c *regattapb.Command, f func(*regattapb.Command)) {
	if c == nil {
		return
	}
	f(c)
	for _, s := range c.Sequence {
		walkCommands(s, f)
	}
}

// diffPath names the first field (by descriptor order) in which a and b differ:
// a stable class string for signatures. "" when no difference is found.
func diffPath(a, b protoreflect.Message) string {
	if a.Descriptor() != b.Descriptor() {
		return "type"
	}
	fds := a.Descriptor().Fields()
	for i := 0; i < fds.Len(); i++ {
		fd := fds.Get(i)
		name := string(fd.Name())
		ha, hb := a.Has(fd), b.Has(fd)
		if ha != hb {
			return name + ":presence"
		}
		if !ha {
			continue
		}
		va, vb := a.Get(fd), b.Get(fd)
		switch {
		case fd.IsList():
			la, lb := va.List(), vb.List()
			if la.Len() != lb.Len() {
				return name + ":len"
			}
			for k := 0; k < la.Len(); k++ {
				if fd.Kind() == protoreflect.MessageKind {
					if p := diffPath(la.Get(k).Message(), lb.Get(k).Message()); p != "" {
						return name + "." + p
					}
				} else if !scalarEq(fd, la.Get(k), lb.Get(k)) {
					return name + ":value"
				}
			}
		case fd.IsMap():
			ma, mb := va.Map(), vb.Map()
			if ma.Len() != mb.Len() {
				return name + ":len"
			}
			var keys []string
			ma.Range(func(k protoreflect.MapKey, _ protoreflect.Value) bool { keys = append(keys, k.String()); return true })
			sort.Strings(keys)
			for _, ks := range keys {
				k := protoreflect.ValueOfString(ks).MapKey()
				if !mb.Has(k) {
					return name + ":key"
				}
				if fd.MapValue().Kind() == protoreflect.MessageKind {
					if p := diffPath(ma.Get(k).Message(), mb.Get(k).Message()); p != "" {
						return name + "." + p
					}
				} else if !scalarEq(fd.MapValue(), ma.Get(k), mb.Get(k)) {
					return name + ":value"
				}
			}
		case fd.Kind() == protoreflect.MessageKind:
			if p := diffPath(va.Message(), vb.Message()); p != "" {
				return name + "." + p
			}
		default:
			if !scalarEq(fd, va, vb) {
				return name + ":value"
			}
		}
	}
	return ""
}

func scalarEq(fd protoreflect.FieldDescriptor, a, b protoreflect.Value) bool {
	if fd.Kind() == protoreflect.BytesKind {
		return string(a.Bytes()) == string(b.Bytes())
	}
	return a.Interface() == b.Interface()
}
