package c18codec

import (
	"bytes"
	"fmt"
	"io"
	"os"
	"runtime"
	"runtime/debug"
	"strings"
	"testing/synctest"
	"time"

	"github.com/jamf/regatta/regattapb"
	_ "github.com/jamf/regatta/regattaserver/encoding/gzip"
	_ "github.com/jamf/regatta/regattaserver/encoding/proto"
	_ "github.com/jamf/regatta/regattaserver/encoding/snappy"
	_ "github.com/jamf/regatta/regattaserver/encoding/zstd"
	"google.golang.org/grpc/encoding"
	"google.golang.org/protobuf/proto"
	"verif/sim/core"
)

const prop = "C18"

type vtMsg interface {
	MarshalVT() ([]byte, error)
	UnmarshalVT([]byte) error
}

type ex struct {
	out   *core.Outcome
	dig   core.Digest
	step  int
	codec encoding.Codec

	// compressor family
	streams  map[int]*cstream
	order    []*cstream
	closedW  map[string][]any // writer objects handed back to the pool, per compressor
	closedR  map[string][]any
	tmpDir   string
	oldTmp   string
	hadTmp   bool
	tmpSet   bool
	snapSeen int
}

func (x *ex) failed() bool { return x.out.Violation != nil }

func (x *ex) fail(oracle, sig, f string, a ...any) {
	x.out.Fail(prop, oracle, sig, x.step, f, a...)
}

func firstFrame(stack string) string {
	first := ""
	for _, ln := range strings.Split(stack, "\n") {
		ln = strings.TrimSpace(ln)
		if strings.HasPrefix(ln, "github.com/jamf/regatta/") {
			if i := strings.Index(ln, "("); i > 0 {
				ln = ln[:i]
			}
			return strings.TrimPrefix(ln, "github.com/jamf/regatta/")
		}
		if first == "" && strings.Contains(ln, "(") && !strings.HasPrefix(ln, "runtime") && !strings.HasPrefix(ln, "panic(") &&
			!strings.HasPrefix(ln, "verif/sim/") && !strings.HasPrefix(ln, "goroutine ") && !strings.Contains(ln, ".go:") {
			if i := strings.Index(ln, "("); i > 0 {
				first = ln[:i]
			}
		}
	}
	if first == "" {
		return "?"
	}
	return first
}

func trim(v any) string {
	s := fmt.Sprint(v)
	if len(s) > 60 {
		s = s[:60]
	}
	return s
}

// guard runs code under test on the calling goroutine and turns a panic into a violation.
func (x *ex) guard(what string, f func()) (ok bool) {
	defer func() {
		if r := recover(); r != nil {
			st := string(debug.Stack())
			x.fail("panic", "panic:"+what+":"+trim(r)+"@"+firstFrame(st), "panic in %s: %v\n%s", what, r, st)
			ok = false
		}
	}()
	f()
	return true
}

// async runs one stimulus on its own goroutine inside the bubble and waits for
// quiescence: the schedule decides the interleaving, one stimulus at a time.
func (x *ex) async(what string, f func()) bool {
	done := make(chan struct{})
	var pv any
	var stack string
	go func() {
		defer close(done)
		defer func() {
			if r := recover(); r != nil {
				pv, stack = r, string(debug.Stack())
			}
		}()
		f()
	}()
	synctest.Wait()
	select {
	case <-done:
	default:
		x.fail("blocked", "blocked:"+what, "%s did not return although every goroutine of the bubble is durably blocked", what)
		return false
	}
	if pv != nil {
		x.fail("panic", "panic:"+what+":"+trim(pv)+"@"+firstFrame(stack), "panic in %s: %v\n%s", what, pv, stack)
		return false
	}
	return true
}

func clone(b []byte) []byte {
	c := make([]byte, len(b))
	copy(c, b)
	return c
}

func scribble(b []byte) {
	for i := range b {
		b[i] ^= 0xa5
	}
}

func sizeProbes(out *core.Outcome, n int) {
	if n >= 1<<20 {
		out.Probe("payload>=1MiB")
	}
}

// Exec runs one schedule. Must run inside a bubble.
func Exec(s core.Schedule) *core.Outcome {
	sc := s.(*Sched)
	x := &ex{out: core.NewOutcome(), codec: encoding.GetCodec("proto"), streams: map[int]*cstream{}, closedW: map[string][]any{}, closedR: map[string][]any{}}
	start := time.Now()
	defer x.cleanupTmp()
	if x.codec == nil {
		x.out.Fail("HARNESS", "no-codec", "no-codec", -1, "no codec registered under the name proto")
		return x.out
	}
	for i := range sc.Steps {
		if x.failed() {
			break
		}
		x.step = i
		st := &sc.Steps[i]
		switch st.Op {
		case "rt":
			x.stepRT(st)
		case "c.open", "c.write", "c.close", "d.open", "d.read":
			x.stepStream(st)
		case "c.par":
			x.stepPar(st)
		case "snap":
			x.stepSnap(st)
		}
	}
	if !x.failed() {
		x.step = len(sc.Steps)
		x.finishStreams()
	}
	synctest.Wait()
	x.out.NonTrivial = x.out.Probes["interleaved-compress-streams"] > 0 || x.out.Probes["chunk-boundary-inside-length-prefix"] > 0
	x.out.Digest = x.dig.Sum()
	x.out.Steps = len(sc.Steps)
	x.out.SimMs = time.Since(start).Milliseconds()
	return x.out
}

// ---- (a) codec round trips ------------------------------------------------------------

func (x *ex) inspect(m proto.Message) {
	cmdProbe := func(c *regattapb.Command) {
		walkCommands(c, func(c *regattapb.Command) {
			x.out.Probe("command-type-" + c.Type.String())
			if c.LeaderIndex != nil {
				if *c.LeaderIndex == 0 {
					x.out.Probe("leader-index-present-zero")
				}
			} else {
				x.out.Probe("leader-index-absent")
			}
			switch {
			case c.RangeEnd == nil:
				x.out.Probe("range-end-absent")
			case len(c.RangeEnd) == 0:
				x.out.Probe("range-end-present-empty")
			default:
				x.out.Probe("range-end-present")
			}
			if c.Txn != nil {
				x.out.Probe("command-with-txn")
			}
			if len(c.Sequence) > 0 {
				x.out.Probe("command-with-nested-sequence")
			}
		})
	}
	switch v := m.(type) {
	case *regattapb.Command:
		cmdProbe(v)
	case *regattapb.ReplicateResponse:
		for _, c := range v.GetCommandsResponse().GetCommands() {
			cmdProbe(c.Command)
		}
	}
}

func (x *ex) equal(want, got proto.Message, oracle, sigPrefix, what string) bool {
	if proto.Equal(want, got) {
		return true
	}
	p := diffPath(want.ProtoReflect(), got.ProtoReflect())
	sp := p
	if strings.Contains(sigPrefix, "pooled:Command") {
		// Observation, not an oracle: regatta recycles pooled Commands only as ENCODE sources
		// (fsm.writeCommand, worker.proposeBatch), never as decode targets; the property speaks of
		// receiving objects recycled "as the snapshot stream readers do", i.e. SnapshotChunk. The
		// generated Command.ResetVT keeps `RangeEnd[:0]`, so a recycled Command that once had
		// range_end decodes a message without it as present-but-empty: latent, recorded in DESIGN.md.
		// The relaxation is exactly that class: with present-but-empty range_end read as absent on both
		// sides the recycled object must equal the message; any other stale field (a batch entry that
		// keeps the value or revisions of the message the object held before, say) is a failure.
		if strings.HasSuffix(p, "range_end:presence") {
			nw, ng := proto.Clone(want), proto.Clone(got)
			for _, c := range []proto.Message{nw, ng} {
				if cc, ok := c.(*regattapb.Command); ok {
					walkCommands(cc, func(c *regattapb.Command) {
						if c.RangeEnd != nil && len(c.RangeEnd) == 0 {
							c.RangeEnd = nil
						}
					})
				}
			}
			if proto.Equal(nw, ng) {
				x.out.Probe("pooled-command-decode-differs(observed,not-asserted):range_end:presence")
				return true
			}
			want, got = nw, ng
			p = diffPath(want.ProtoReflect(), got.ProtoReflect())
			sp = p
		}
	}
	if strings.HasPrefix(sigPrefix, "pooled:") {
		// one class per leaking field, wherever the recycled (nested) object sits and whichever decode flavour was used
		if i := strings.LastIndex(sp, "."); i >= 0 {
			sp = sp[i+1:]
		}
		// the shrinker accepts any failure of the same oracle: keep it inside the class
		oracle += "-" + sp
	}
	x.fail(oracle, sigPrefix+":"+sp, "%s: decoded message differs from the original in field %s\n want: %s\n got:  %s", what, p, short(want), short(got))
	return false
}

func short(m proto.Message) string {
	s := fmt.Sprint(m)
	if len(s) > 600 {
		s = s[:600] + "..."
	}
	return s
}

func (x *ex) marshal(m proto.Message, what string) ([]byte, bool) {
	var enc []byte
	var err error
	if !x.guard("codec.Marshal", func() { enc, err = x.codec.Marshal(m) }) {
		return nil, false
	}
	if err != nil {
		x.fail("marshal-error", "marshal-error:"+what, "codec.Marshal(%s): %v", what, err)
		return nil, false
	}
	return enc, true
}

func (x *ex) unmarshal(data []byte, m proto.Message, what string) bool {
	var err error
	if !x.guard("codec.Unmarshal", func() { err = x.codec.Unmarshal(data, m) }) {
		return false
	}
	if err != nil {
		x.fail("unmarshal-error", "unmarshal-error:"+what, "codec.Unmarshal(%s, %d bytes): %v", what, len(data), err)
		return false
	}
	return true
}

func (x *ex) stepRT(st *Step) {
	if st.Msg == nil || kindByName[st.Msg.Kind] == nil {
		return
	}
	kind := st.Msg.Kind
	m, arms := GenMsg(*st.Msg)
	for _, a := range arms {
		x.out.Probe("oneof-arm-" + a)
	}
	x.inspect(m)
	enc, ok := x.marshal(m, kind)
	if !ok {
		return
	}
	sizeProbes(x.out, len(enc))
	if len(enc) == 0 {
		x.out.Probe("empty-encoding")
	}
	mapKind := hasMap(m.ProtoReflect().Descriptor())
	if mapKind {
		x.dig.Add(uint64(len(enc)))
	} else {
		x.dig.AddBytes(enc)
	}
	// The encoding is valid wire format: the reference implementation reads the same message from it.
	ref := newKind(kind)
	if err := proto.Unmarshal(enc, ref); err != nil {
		x.fail("marshal-wire-invalid", "wire-invalid:"+kind, "protobuf-go cannot parse the codec's encoding of %s: %v", kind, err)
		return
	}
	if !x.equal(m, ref, "marshal-wire-mismatch", "wire:"+kind, "codec.Marshal then protobuf-go Unmarshal of "+kind) {
		return
	}
	// (i) fresh receiver through the registered codec
	buf1 := clone(enc)
	d1 := newKind(kind)
	if !x.unmarshal(buf1, d1, kind) || !x.equal(m, d1, "roundtrip-fresh", "fresh:"+kind, "registered codec round trip of "+kind+" into a fresh object") {
		return
	}
	if mapKind {
		if det, err := (proto.MarshalOptions{Deterministic: true}).Marshal(d1); err == nil {
			x.dig.AddBytes(det)
		}
	}
	// the reference encoding is read back by the registered codec too
	if enc2, err := (proto.MarshalOptions{Deterministic: true}).Marshal(m); err == nil {
		d2 := newKind(kind)
		if !x.unmarshal(clone(enc2), d2, kind) || !x.equal(m, d2, "decode-reference-encoding", "refenc:"+kind, "protobuf-go Marshal then registered codec Unmarshal of "+kind) {
			return
		}
	}
	// safe variant: UnmarshalVT (or the codec's proto.Message fallback) must not alias its input
	d3 := newKind(kind)
	buf3 := clone(enc)
	if vm, isVT := d3.(vtMsg); isVT {
		var err error
		if !x.guard("UnmarshalVT", func() { err = vm.UnmarshalVT(buf3) }) {
			return
		}
		if err != nil {
			x.fail("unmarshal-error", "unmarshalvt-error:"+kind, "UnmarshalVT(%s): %v", kind, err)
			return
		}
	} else if !x.unmarshal(buf3, d3, kind) {
		return
	}
	if !x.equal(m, d3, "roundtrip-safe", "safe:"+kind, "safe unmarshal of "+kind) {
		return
	}
	scribble(buf3)
	if !x.equal(m, d3, "safe-unmarshal-aliases-input", "alias:"+kind, "safe unmarshal of "+kind+" after its input buffer was overwritten") {
		return
	}
	x.out.Probe("safe-unmarshal-buffer-overwritten")
	// observation only: the registered codec prefers UnmarshalVTUnsafe, whose result may alias the input
	scribble(buf1)
	if !proto.Equal(m, d1) {
		x.out.Probe("codec-unmarshal-aliases-input(observed,not-asserted)")
	}
	if st.Pool != nil && (kind == "Command" || kind == "SnapshotChunk") {
		x.pooled(kind, m, enc, st.Pool)
	}
}

type pooledObj interface {
	proto.Message
	ReturnToVTPool()
	ResetVT()
	Reset()
}

func poolGet(kind string) pooledObj {
	if kind == "SnapshotChunk" {
		return regattapb.SnapshotChunkFromVTPool()
	}
	return regattapb.CommandFromVTPool()
}

// pooled decodes into an object recycled from the vtproto pool that held a
// different, larger message before. One flavour of decoding is used on the
// object for its whole life (registered codec = UnmarshalVTUnsafe, or UnmarshalVT).
func (x *ex) pooled(kind string, m proto.Message, enc []byte, pa *PoolArg) {
	pd := pa.Prev
	pd.Kind = kind
	prev, _ := GenMsg(pd)
	encPrev, ok := x.marshal(prev, kind)
	if !ok {
		return
	}
	refPrev := newKind(kind)
	if err := proto.Unmarshal(encPrev, refPrev); err != nil {
		x.fail("marshal-wire-invalid", "wire-invalid:"+kind, "protobuf-go cannot parse the codec's encoding of %s: %v", kind, err)
		return
	}
	if !x.equal(prev, refPrev, "marshal-wire-mismatch", "wire:"+kind, "codec.Marshal then protobuf-go Unmarshal of "+kind) {
		return
	}
	safe := pa.Flavor == "safe"
	fl := "codec"
	if safe {
		fl = "safe"
	}
	decode := func(o pooledObj, data []byte) bool {
		if !safe {
			return x.unmarshal(data, o, kind)
		}
		var err error
		if !x.guard("UnmarshalVT", func() { err = o.(vtMsg).UnmarshalVT(data) }) {
			return false
		}
		if err != nil {
			x.fail("unmarshal-error", "unmarshalvt-error:"+kind, "UnmarshalVT(%s) into a pooled object: %v", kind, err)
			return false
		}
		return true
	}
	loose := false // the object is (still) inside the pool: never put it twice
	recycle := func(o pooledObj) pooledObj {
		if loose {
			o.ResetVT()
			return o
		}
		o.ReturnToVTPool()
		n := poolGet(kind)
		if n == o {
			x.out.Probe("pooled-object-reused")
			return o
		}
		// the pool handed out another object (the goroutine changed its P): keep the outcome
		// a function of the schedule by using the recycled object in the state the pool holds it
		x.out.Probe("pool-miss-fallback")
		n.ReturnToVTPool()
		loose = true
		return o
	}
	o := poolGet(kind)
	// Which object the pool hands out here depends on earlier steps and on the P the goroutine runs
	// on; start from a clean one so that the step is a function of its arguments. The recycling
	// under test happens below, inside the step.
	o.Reset()
	defer func() {
		switch {
		case loose || !safe:
			// an object that aliases decode buffers must not reach a later safe decode
			if loose {
				o.Reset()
			}
		default:
			o.ReturnToVTPool()
		}
	}()
	if pa.Fill == "merge" {
		proto.Merge(o, prev)
	} else {
		if !decode(o, clone(encPrev)) || !x.equal(prev, o, "roundtrip-pooled", "pooled:"+kind, fmt.Sprintf("decode (%s) of %s into an object taken from the vtproto pool", fl, kind)) {
			return
		}
	}
	o = recycle(o)
	buf := clone(enc)
	if !decode(o, buf) || !x.equal(m, o, "roundtrip-pooled", "pooled:"+kind, fmt.Sprintf("decode (%s) of %s into a pool-recycled object that held a larger %s before", fl, kind, kind)) {
		return
	}
	if safe {
		scribble(buf)
		if !x.equal(m, o, "safe-unmarshal-aliases-input", "alias-pooled:"+kind, "UnmarshalVT of "+kind+" into a pool-recycled object after its input buffer was overwritten") {
			return
		}
	}
	// once more the other way round: small message out, larger message in
	o = recycle(o)
	buf2 := clone(encPrev)
	if !decode(o, buf2) || !x.equal(prev, o, "roundtrip-pooled", "pooled:"+kind, fmt.Sprintf("decode (%s) of %s into a pool-recycled object that held a smaller %s before", fl, kind, kind)) {
		return
	}
	x.dig.Add(uint64(len(encPrev)))
}

// ---- (b) compressors ---------------------------------------------------------------------

type cstream struct {
	id      int
	comp    string
	c       encoding.Compressor
	payload []byte
	buf     bytes.Buffer
	w       io.WriteCloser
	wOff    int
	closed  bool
	src     *bytes.Reader
	r       io.Reader
	got     []byte
	eof     bool
	zeroRd  int
}

func (x *ex) openOthers(s *cstream) (writers, readers int) {
	for _, o := range x.order {
		if o == s || o.comp != s.comp {
			continue
		}
		if o.w != nil && !o.closed {
			writers++
		}
		if o.r != nil && !o.eof {
			readers++
		}
	}
	return
}

func identIn(list []any, v any) bool {
	for _, e := range list {
		if e == v {
			return true
		}
	}
	return false
}

func (x *ex) sOpen(id int, comp string, p Payload) {
	if x.streams[id] != nil {
		return
	}
	c := encoding.GetCompressor(comp)
	if c == nil {
		x.out.Fail("HARNESS", "no-compressor", "no-compressor:"+comp, x.step, "compressor %q is not registered", comp)
		return
	}
	s := &cstream{id: id, comp: comp, c: c, payload: p.Bytes()}
	sizeProbes(x.out, len(s.payload))
	if len(s.payload) == 0 {
		x.out.Probe("empty-payload")
	}
	var err error
	if !x.async("Compress:"+comp, func() { s.w, err = c.Compress(&s.buf) }) {
		return
	}
	if err != nil || s.w == nil {
		x.fail("compress-error", "compress-open:"+comp, "%s.Compress: %v", comp, err)
		return
	}
	x.streams[id] = s
	x.order = append(x.order, s)
	x.out.Probe("compress-stream-" + comp)
	if identIn(x.closedW[comp], any(s.w)) {
		x.out.Probe("pool-state-reused")
		if w, r := x.openOthers(s); w+r > 0 {
			x.out.Probe("pool-state-reused-while-other-stream-open")
		}
	}
}

func (x *ex) sWrite(s *cstream, n int) {
	if s.w == nil || s.closed {
		return
	}
	rest := len(s.payload) - s.wOff
	if n > rest {
		n = rest
	}
	if n < 0 {
		n = 0
	}
	if w, _ := x.openOthers(s); w > 0 {
		x.out.Probe("interleaved-compress-streams")
	}
	p := s.payload[s.wOff : s.wOff+n]
	var got int
	var err error
	if !x.async("Write:"+s.comp, func() { got, err = s.w.Write(p) }) {
		return
	}
	if err != nil || got != n {
		x.fail("compress-error", "compress-write:"+s.comp, "%s writer: Write(%d bytes) = %d, %v", s.comp, n, got, err)
		return
	}
	s.wOff += n
}

func (x *ex) sClose(s *cstream) {
	if s.w == nil || s.closed {
		return
	}
	if s.wOff < len(s.payload) {
		x.sWrite(s, len(s.payload)-s.wOff)
		if x.failed() {
			return
		}
	}
	var err error
	if !x.async("Close:"+s.comp, func() { err = s.w.Close() }) {
		return
	}
	if err != nil {
		x.fail("compress-error", "compress-close:"+s.comp, "%s writer: Close: %v", s.comp, err)
		return
	}
	s.closed = true
	x.closedW[s.comp] = append(x.closedW[s.comp], any(s.w))
	x.dig.AddBytes(s.buf.Bytes())
	if sz, ok := s.c.(interface{ DecompressedSize([]byte) int }); ok {
		var v int
		if x.guard("DecompressedSize", func() { v = sz.DecompressedSize(s.buf.Bytes()) }) && v != -1 && v != len(s.payload) {
			x.fail("decompressed-size", "decompressed-size:"+s.comp, "%s.DecompressedSize = %d for a payload of %d bytes", s.comp, v, len(s.payload))
		}
	}
}

func (x *ex) sDopen(s *cstream) {
	if !s.closed || s.r != nil {
		return
	}
	s.src = bytes.NewReader(s.buf.Bytes())
	var err error
	if !x.async("Decompress:"+s.comp, func() { s.r, err = s.c.Decompress(s.src) }) {
		return
	}
	if err != nil || s.r == nil {
		x.fail("decompress-error", "decompress-open:"+s.comp, "%s.Decompress of %d compressed bytes (payload %d bytes): %v", s.comp, s.buf.Len(), len(s.payload), err)
		return
	}
	if identIn(x.closedR[s.comp], any(s.r)) {
		x.out.Probe("pool-reader-reused")
		if w, r := x.openOthers(s); w+r > 0 {
			x.out.Probe("pool-reader-reused-while-other-stream-open")
		}
	}
}

func (x *ex) sRead(s *cstream, n int) {
	if s.r == nil || s.eof {
		return
	}
	if n < 1 {
		n = 1
	}
	if n > 5<<20 {
		n = 5 << 20
	}
	if _, r := x.openOthers(s); r > 0 {
		x.out.Probe("interleaved-decompress-streams")
	}
	p := make([]byte, n)
	var got int
	var err error
	if !x.async("Read:"+s.comp, func() { got, err = s.r.Read(p) }) {
		return
	}
	if got < 0 || got > n {
		x.fail("decompress-error", "decompress-read-count:"+s.comp, "%s reader: Read(%d byte buffer) returned n=%d", s.comp, n, got)
		return
	}
	if err != nil && err != io.EOF {
		x.fail("decompress-error", "decompress-read:"+s.comp, "%s reader: Read after %d of %d bytes: %v", s.comp, len(s.got), len(s.payload), err)
		return
	}
	s.got = append(s.got, p[:got]...)
	if len(s.got) > len(s.payload) || !bytes.Equal(s.got[len(s.got)-got:], s.payload[len(s.got)-got:len(s.got)]) {
		x.fail("decompress-mismatch", "decompress-mismatch:"+s.comp, "%s stream %d: decompressed bytes [%d,%d) differ from the original payload (%d bytes)", s.comp, s.id, len(s.got)-got, len(s.got), len(s.payload))
		return
	}
	if got == 0 && err == nil {
		s.zeroRd++
		if s.zeroRd > 1000 {
			x.fail("decompress-error", "decompress-no-progress:"+s.comp, "%s reader: 1000 reads in a row returned 0, nil", s.comp)
		}
		return
	}
	s.zeroRd = 0
	if err == io.EOF {
		s.eof = true
		x.closedR[s.comp] = append(x.closedR[s.comp], any(s.r))
		if len(s.got) != len(s.payload) {
			x.fail("decompress-mismatch", "decompress-short:"+s.comp, "%s stream %d: EOF after %d bytes, the payload has %d", s.comp, s.id, len(s.got), len(s.payload))
			return
		}
		x.out.Probe("stream-verified")
	}
}

func (x *ex) stepStream(st *Step) {
	if st.Op == "c.open" {
		if st.P != nil {
			x.sOpen(st.S, st.Comp, *st.P)
		}
		return
	}
	s := x.streams[st.S]
	if s == nil {
		return
	}
	switch st.Op {
	case "c.write":
		x.sWrite(s, st.N)
	case "c.close":
		x.sClose(s)
	case "d.open":
		x.sDopen(s)
	case "d.read":
		x.sRead(s, st.N)
	}
}

// finishStreams completes every stream the schedule left unfinished: each one is verified.
func (x *ex) finishStreams() {
	for _, s := range x.order {
		if x.failed() {
			return
		}
		x.sClose(s)
		if x.failed() {
			return
		}
		x.sDopen(s)
		for !s.eof && !x.failed() {
			x.sRead(s, 32*1024)
		}
	}
	// how many bytes one Read returns (and so at which step EOF shows) is the decoder's business
	// (zstd decodes ahead on goroutines): the outcome enters the digest here, in stream order
	for _, s := range x.order {
		x.dig.Add(uint64(s.id))
		x.dig.Add(uint64(len(s.got)))
	}
}

// yieldSink is a byte sink whose Write gives the processor away on a keyed subset of calls.
type yieldSink struct {
	bytes.Buffer
	seed, id, n uint64
}

func (y *yieldSink) Write(p []byte) (int, error) {
	y.n++
	if core.Mix(y.seed, y.id, y.n)%3 != 0 {
		runtime.Gosched()
	}
	return y.Buffer.Write(p)
}

// stepPar: concurrent goroutines use one compressor's pools at the same time.
func (x *ex) stepPar(st *Step) {
	c := encoding.GetCompressor(st.Comp)
	if c == nil || len(st.Par) == 0 {
		return
	}
	type res struct {
		done  bool
		err   string
		pv    any
		stack string
		clen  int
	}
	rs := make([]res, len(st.Par))
	pl := make([][]byte, len(st.Par))
	for i := range st.Par {
		pl[i] = st.Par[i].Bytes()
		sizeProbes(x.out, len(pl[i]))
	}
	for i := range st.Par {
		go func() {
			r := &rs[i]
			defer func() {
				if v := recover(); v != nil {
					r.pv, r.stack = v, string(debug.Stack())
				}
				r.done = true
			}()
			// the sink yields the processor inside some of its Write calls (a stream under flow control):
			// which ones is part of the schedule, so streams interleave at exactly the points where a real
			// sink would block - also inside Close, which flushes
			buf := &yieldSink{seed: uint64(st.N), id: uint64(i)}
			w, err := c.Compress(buf)
			if err != nil {
				r.err = "open: " + err.Error()
				return
			}
			// the way gRPC uses it: one Write of the whole message, Close
			if n, err := w.Write(pl[i]); err != nil || n != len(pl[i]) {
				r.err = fmt.Sprintf("write: n=%d err=%v", n, err)
				return
			}
			if err := w.Close(); err != nil {
				r.err = "close: " + err.Error()
				return
			}
			r.clen = buf.Len()
			rd, err := c.Decompress(bytes.NewReader(buf.Bytes()))
			if err != nil {
				r.err = "decompress open: " + err.Error()
				return
			}
			got, err := io.ReadAll(rd)
			if err != nil {
				r.err = "decompress read: " + err.Error()
				return
			}
			if !bytes.Equal(got, pl[i]) {
				r.err = fmt.Sprintf("decompressed %d bytes differ from the %d byte payload", len(got), len(pl[i]))
			}
		}()
	}
	synctest.Wait()
	for i := range rs {
		r := &rs[i]
		switch {
		case !r.done:
			x.fail("blocked", "blocked:par:"+st.Comp, "concurrent stream %d on %s never finished", i, st.Comp)
		case r.pv != nil:
			x.fail("panic", "panic:par:"+st.Comp+":"+trim(r.pv)+"@"+firstFrame(r.stack), "panic in concurrent %s stream %d: %v\n%s", st.Comp, i, r.pv, r.stack)
		case r.err != "":
			x.fail("decompress-mismatch", "par:"+st.Comp, "concurrent %s stream %d of %d (payload %+v): %s", st.Comp, i, len(rs), st.Par[i], r.err)
		}
		if x.failed() {
			return
		}
		x.dig.Add(uint64(r.clen))
	}
	x.out.Probe("parallel-streams")
}

// ---- temp dir ----------------------------------------------------------------------------------

func (x *ex) ensureTmp() bool {
	if x.tmpSet {
		return true
	}
	base := ""
	if fi, err := os.Stat("/dev/shm"); err == nil && fi.IsDir() {
		base = "/dev/shm"
	}
	d, err := os.MkdirTemp(base, "c18-*")
	if err != nil && base != "" {
		d, err = os.MkdirTemp("", "c18-*")
	}
	if err != nil {
		x.out.Fail("HARNESS", "tmpdir", "tmpdir", x.step, "cannot create a temp dir: %v", err)
		return false
	}
	x.tmpDir = d
	x.oldTmp, x.hadTmp = os.LookupEnv("TMPDIR")
	_ = os.Setenv("TMPDIR", d) // snapshot.NewTemp creates its files in os.TempDir()
	x.tmpSet = true
	return true
}

func (x *ex) cleanupTmp() {
	if !x.tmpSet {
		return
	}
	if x.hadTmp {
		_ = os.Setenv("TMPDIR", x.oldTmp)
	} else {
		_ = os.Unsetenv("TMPDIR")
	}
	_ = os.RemoveAll(x.tmpDir)
	x.tmpSet = false
}
