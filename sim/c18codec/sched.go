package c18codec

import (
	"encoding/json"

	"verif/sim/core"
)

// ---- schedule ---------------------------------------------------------------------

// Step is one stimulus. Families:
//
//	rt                               codec round trip of the message Msg (+ pooled receiver when Pool != nil)
//	c.open c.write c.close           a Compress stream S on compressor Comp over payload P, N bytes per write
//	d.open d.read                    the Decompress stream of S, N = read buffer size
//	c.par                            Par payloads compressed+decompressed by concurrent goroutines on Comp
//	snap                             a command sequence through snapshot file, chunk stream and back
type Step struct {
	Op   string    `json:"op"`
	Msg  *MsgDesc  `json:"msg,omitempty"`
	Pool *PoolArg  `json:"pool,omitempty"`
	S    int       `json:"s,omitempty"`
	Comp string    `json:"comp,omitempty"`
	P    *Payload  `json:"p,omitempty"`
	N    int       `json:"n,omitempty"`
	Par  []Payload `json:"par,omitempty"`
	Snap *SnapArg  `json:"snap,omitempty"`
}

// PoolArg: the receiving object comes from the vtproto pool after it held Prev.
type PoolArg struct {
	Prev   MsgDesc `json:"prev"`
	Fill   string  `json:"fill"`   // decode: Prev was decoded into it; merge: Prev's fields were copied into it
	Flavor string  `json:"flavor"` // codec: registered codec (UnmarshalVTUnsafe); safe: UnmarshalVT
}

// CmdDesc describes one command of a snapshot: a PUT of (key,value) as the FSM
// snapshot writes it, or (Any) a structurally generated Command.
type CmdDesc struct {
	Seed    uint64 `json:"s"`
	KeyLen  int    `json:"k"`
	ValLen  int    `json:"v"`
	ValKind string `json:"vk,omitempty"`
	Any     bool   `json:"any,omitempty"`
}

type PrefixCut struct {
	Rec int `json:"rec"` // record number (0-based; the closing DUMMY is record len(Cmds))
	Off int `json:"off"` // 1..7: bytes of the 8-byte length prefix before the boundary
}

type SnapArg struct {
	Table      string      `json:"table"`
	Cmds       []CmdDesc   `json:"cmds"`
	Final      *uint64     `json:"final,omitempty"` // closing DUMMY command carrying this leader index
	Producer   string      `json:"producer"`        // iocopy | readfrom | write
	Cuts       []int       `json:"cuts,omitempty"`  // chunk sizes, used cyclically (readfrom, write)
	PrefixCuts []PrefixCut `json:"prefix_cuts,omitempty"`
	EmptyAt    []int       `json:"empty_at,omitempty"`  // producer write: an empty Write (empty chunk) before these chunk numbers
	WireComp   string      `json:"wire_comp,omitempty"` // compressor applied to every frame on the fake wire
	Consumer   string      `json:"consumer"`            // writeto | read | backup
	ReadBufs   []int       `json:"read_bufs,omitempty"` // Reader.Read buffer sizes (raised to the largest chunk)
	RestoreCut []int       `json:"restore_cuts,omitempty"`
}

type Sched struct {
	Steps []Step `json:"steps"`
}

func (s *Sched) Len() int { return len(s.Steps) }
func (s *Sched) Subset(keep []int) core.Schedule {
	c := &Sched{}
	for _, i := range keep {
		c.Steps = append(c.Steps, s.Steps[i])
	}
	return c
}

func Decode(raw json.RawMessage) (core.Schedule, error) {
	s := &Sched{}
	return s, json.Unmarshal(raw, s)
}

func (s *Sched) clone() *Sched {
	b, _ := json.Marshal(s)
	c := &Sched{}
	_ = json.Unmarshal(b, c)
	return c
}

// Simplify proposes schedules with simpler arguments.
func (s *Sched) Simplify() []core.Schedule {
	var out []core.Schedule
	add := func(i int, f func(st *Step) bool) {
		if len(out) > 60 {
			return
		}
		c := s.clone()
		if f(&c.Steps[i]) {
			out = append(out, c)
		}
	}
	for i := range s.Steps {
		st := &s.Steps[i]
		switch st.Op {
		case "rt":
			if st.Msg == nil {
				continue
			}
			if st.Msg.Big != nil {
				add(i, func(t *Step) bool { t.Msg.Big = nil; return true })
				add(i, func(t *Step) bool { t.Msg.Big.Len /= 2; return true })
			}
			if st.Msg.Depth > 0 {
				add(i, func(t *Step) bool { t.Msg.Depth--; return true })
			}
			if st.Msg.Width > 0 {
				add(i, func(t *Step) bool { t.Msg.Width--; return true })
			}
			if st.Pool != nil {
				add(i, func(t *Step) bool {
					if t.Pool.Prev.Depth == 0 {
						return false
					}
					t.Pool.Prev.Depth--
					return true
				})
				add(i, func(t *Step) bool {
					if t.Pool.Prev.Width <= 1 {
						return false
					}
					t.Pool.Prev.Width--
					return true
				})
			}
		case "c.open":
			if st.P != nil && st.P.Len > 0 {
				add(i, func(t *Step) bool { t.P.Len /= 2; return true })
				add(i, func(t *Step) bool {
					if t.P.Kind == "zeros" {
						return false
					}
					t.P.Kind = "zeros"
					return true
				})
			}
		case "c.par":
			if len(st.Par) > 1 {
				add(i, func(t *Step) bool { t.Par = t.Par[:len(t.Par)/2]; return true })
			}
		case "snap":
			if st.Snap == nil {
				continue
			}
			if n := len(st.Snap.Cmds); n > 0 {
				add(i, func(t *Step) bool { t.Snap.Cmds = t.Snap.Cmds[:n/2]; return true })
				add(i, func(t *Step) bool { t.Snap.Cmds = t.Snap.Cmds[n/2:]; return true })
				add(i, func(t *Step) bool {
					ch := false
					for k := range t.Snap.Cmds {
						if t.Snap.Cmds[k].ValLen > 8 {
							t.Snap.Cmds[k].ValLen /= 2
							ch = true
						}
					}
					return ch
				})
			}
			if len(st.Snap.PrefixCuts) > 0 {
				add(i, func(t *Step) bool { t.Snap.PrefixCuts = nil; return true })
			}
			if len(st.Snap.EmptyAt) > 0 {
				add(i, func(t *Step) bool { t.Snap.EmptyAt = nil; return true })
			}
			if st.Snap.WireComp != "" {
				add(i, func(t *Step) bool { t.Snap.WireComp = ""; return true })
			}
			if st.Snap.Consumer != "writeto" {
				add(i, func(t *Step) bool { t.Snap.Consumer = "writeto"; return true })
			}
			if len(st.Snap.Cuts) > 1 {
				add(i, func(t *Step) bool { t.Snap.Cuts = t.Snap.Cuts[:1]; return true })
			}
		}
	}
	return out
}

// ---- generation --------------------------------------------------------------------

var compNames = []string{"gzip", "snappy", "zstd"}
var payloadKinds = []string{"random", "zeros", "rep", "text"}

func genPayloadLen(r *core.Rand, big bool) int {
	if big && r.Chance(0.6) {
		switch r.Intn(4) {
		case 0:
			return 1 << 20
		case 1:
			return r.Range(1<<20, 2<<20)
		case 2:
			return r.Range(2<<20, 4<<20)
		default:
			return 4 << 20
		}
	}
	switch r.Pick([]int{6, 16, 40, 28, 10}) {
	case 0:
		return 0
	case 1:
		return r.Range(1, 16)
	case 2:
		return r.Range(17, 4096)
	case 3:
		return r.Range(4097, 70000)
	default:
		return r.Range(70001, 300000)
	}
}

func genMsgDesc(r *core.Rand, kind string, big bool) MsgDesc {
	d := MsgDesc{Kind: kind, Seed: r.Uint64() >> 24, Depth: r.Pick([]int{1, 3, 4, 2}), Width: r.Pick([]int{1, 3, 4, 3, 1}),
		Presence: []int{15, 40, 60, 85, 100}[r.Intn(5)]}
	if big {
		d.Big = &Payload{Seed: r.Uint64() >> 40, Len: []int{1 << 16, 1 << 20, 1<<20 + 1, 2 << 20, 3<<20 + 17}[r.Intn(5)], Kind: payloadKinds[r.Intn(len(payloadKinds))]}
		d.BigSkip = r.Intn(4)
		if d.Depth == 0 {
			d.Depth = 1
		}
	} else if r.Chance(0.1) {
		d.Big = &Payload{Seed: r.Uint64() >> 40, Len: r.Range(3000, 40000), Kind: payloadKinds[r.Intn(len(payloadKinds))]}
		d.BigSkip = r.Intn(4)
	}
	return d
}

func pickKind(r *core.Rand, cmdHeavy bool) string {
	w := make([]int, len(kinds))
	for i, k := range kinds {
		w[i] = k.weight
		if cmdHeavy && k.name != "Command" && k.name != "SnapshotChunk" {
			w[i] = 0
		}
	}
	return kinds[r.Pick(w)].name
}

func genSnap(r *core.Rand, bigRun bool) *SnapArg {
	a := &SnapArg{Table: []string{"t", "regatta-test", "a-rather-long-table-name-0123456789"}[r.Intn(3)]}
	var n int
	many := false
	switch r.Pick([]int{5, 40, 45, 10, 4}) {
	case 0:
		n = 0
	case 1:
		n = r.Range(1, 5)
	case 2:
		n = r.Range(6, 40)
	case 3:
		n = r.Range(41, 200)
	default:
		// a few thousand small records: the file crosses several 64 KiB blocks of the snappy framing with
		// record length prefixes falling on every offset relative to the block boundaries
		n = r.Range(900, 4000)
		many = true
	}
	anyCmds := r.Chance(0.25) && !many
	valStyle := r.Pick([]int{5, 3, 2}) // tiny / mixed / medium
	if many {
		valStyle = 3
	}
	bigLeft := 0
	if bigRun {
		bigLeft = r.Range(1, 3)
	}
	est := 0
	for i := 0; i < n; i++ {
		c := CmdDesc{Seed: r.Uint64() >> 40, KeyLen: r.Range(1, 24), ValKind: payloadKinds[r.Intn(len(payloadKinds))]}
		if r.Chance(0.1) {
			c.KeyLen = r.Range(25, 1024)
		}
		switch {
		case bigLeft > 0 && r.Chance(float64(bigLeft)/float64(n-i)+0.02):
			c.ValLen = []int{1 << 20, 1<<20 - 8, 2 << 20, 1<<21 - 30, 600000}[r.Intn(5)]
			if r.Chance(0.6) {
				c.ValKind = "random" // stays large in the snappy-compressed file
			}
			bigLeft--
		case valStyle == 3:
			c.KeyLen = r.Range(1, 24)
			c.ValLen = r.Range(0, 140)
		case valStyle == 0:
			c.ValLen = r.Range(0, 32)
		case valStyle == 1:
			c.ValLen = []int{0, 1, 7, 8, 100, 4000, 65520, 65536, 70000}[r.Intn(9)]
			if c.ValLen > 60000 && est > 600000 {
				c.ValLen = 100
			}
		default:
			c.ValLen = r.Range(100, 5000)
		}
		if anyCmds && r.Chance(0.4) {
			c.Any = true
			c.ValLen = 0
		}
		est += c.ValLen + c.KeyLen + 16
		a.Cmds = append(a.Cmds, c)
	}
	if !r.Chance(0.1) {
		v := uint64(0)
		if !r.Chance(0.25) {
			v = r.Uint64() >> uint(r.Intn(64))
		}
		a.Final = &v
	}
	a.Producer = []string{"iocopy", "readfrom", "write"}[r.Pick([]int{2, 4, 4})]
	// chunk sizes: keep the number of chunks bounded
	minCut := est/1500 + 1
	cut := func() int {
		var c int
		switch r.Pick([]int{30, 25, 20, 10, 10, 5}) {
		case 0:
			c = r.Range(1, 9)
		case 1:
			c = r.Range(10, 600)
		case 2:
			c = r.Range(1000, 70000)
		case 3:
			c = 1 << 20
		case 4:
			c = []int{65536, 65546, 1<<20 - 1, 1<<20 + 1, 2 << 20}[r.Intn(5)]
		default:
			c = 2 << 20
		}
		if est > 1<<20 && r.Chance(0.6) {
			// a large file: chunks at and above the 1 MiB default
			c = []int{1 << 20, 1<<20 + 1, 2 << 20, 3<<20 + 5, 1<<20 - 1}[r.Intn(5)]
		}
		if c < minCut {
			c = minCut + r.Intn(minCut+1)
		}
		return c
	}
	nc := r.Pick([]int{0, 5, 2, 2, 1})
	for i := 0; i < nc; i++ {
		a.Cuts = append(a.Cuts, cut())
	}
	if a.Producer != "iocopy" {
		np := r.Pick([]int{3, 3, 2, 2})
		for i := 0; i < np; i++ {
			a.PrefixCuts = append(a.PrefixCuts, PrefixCut{Rec: r.Intn(n + 1), Off: r.Range(1, 7)})
		}
	}
	if a.Producer == "write" && r.Chance(0.35) {
		ne := r.Range(1, 2)
		for i := 0; i < ne; i++ {
			a.EmptyAt = append(a.EmptyAt, r.Pick([]int{3, 3, 2, 1, 1, 1, 1, 1, 1, 2}))
		}
	}
	if r.Chance(0.2) {
		a.WireComp = compNames[r.Intn(3)]
	}
	a.Consumer = []string{"writeto", "read", "backup"}[r.Pick([]int{5, 3, 3})]
	if est > 1<<20 {
		a.Consumer = []string{"writeto", "read", "backup"}[r.Pick([]int{3, 3, 4})]
	}
	if a.Consumer == "read" {
		nb := r.Range(1, 3)
		for i := 0; i < nb; i++ {
			a.ReadBufs = append(a.ReadBufs, []int{1, 512, 32 * 1024, 1 << 20, 1<<20 + 1, 4 << 20}[r.Intn(6)])
		}
	}
	if a.Consumer == "backup" && (r.Chance(0.6) || est > 1<<20) {
		nb := r.Range(1, 3)
		for i := 0; i < nb; i++ {
			c := cut()
			a.RestoreCut = append(a.RestoreCut, c)
		}
	}
	return a
}

// Gen draws one schedule (swarm style: families and knobs first, then steps).
func Gen(r *core.Rand, tier string) core.Schedule {
	s := &Sched{}
	bigP := 0.05
	if tier == "thorough" {
		bigP = 0.1
	}
	bigRun := r.Chance(bigP)
	famRT, famC, famS := r.Chance(0.6), r.Chance(0.55), r.Chance(0.45)
	if bigRun && r.Chance(0.5) {
		famS = true
	}
	if !famRT && !famC && !famS {
		switch r.Intn(3) {
		case 0:
			famRT = true
		case 1:
			famC = true
		default:
			famS = true
		}
	}
	n := r.Range(3, 22)
	if bigRun {
		n = r.Range(2, 8)
	}
	cmdHeavy := r.Chance(0.3)
	poolP := []float64{0.2, 0.6, 1}[r.Intn(3)]
	oneComp := ""
	if r.Chance(0.6) {
		oneComp = compNames[r.Intn(3)]
	}
	maxOpen := r.Range(1, 4)
	snapLeft := 0
	if famS {
		snapLeft = r.Pick([]int{0, 6, 3, 1})
	}
	bigLeft := 0
	if bigRun {
		bigLeft = r.Range(1, 2)
	}

	type cs struct {
		id              int
		comp            string
		len, off        int
		closed, dopened bool
	}
	var streams []*cs
	nextS := 1
	wRT, wC, wS := 0, 0, 0
	if famRT {
		wRT = 10
	}
	if famC {
		wC = 14
	}
	if bigRun && famS && r.Chance(0.7) {
		// the large snapshot first: short big runs would rarely draw it otherwise
		snapLeft--
		s.Steps = append(s.Steps, Step{Op: "snap", Snap: genSnap(r, true)})
	}
	for len(s.Steps) < n {
		if snapLeft > 0 {
			wS = 3
		} else {
			wS = 0
		}
		if wRT+wC+wS == 0 {
			break
		}
		switch r.Pick([]int{wRT, wC, wS}) {
		case 0:
			kind := pickKind(r, cmdHeavy)
			big := bigLeft > 0 && r.Chance(0.5)
			if big {
				bigLeft--
			}
			st := Step{Op: "rt"}
			d := genMsgDesc(r, kind, big)
			st.Msg = &d
			if (kind == "Command" || kind == "SnapshotChunk") && r.Chance(poolP) {
				prev := genMsgDesc(r, kind, false)
				// "a different, larger message": richer than the one decoded next
				prev.Presence = []int{85, 100}[r.Intn(2)]
				prev.Width = d.Width + r.Range(1, 2)
				prev.Depth = d.Depth + r.Intn(2)
				if prev.Depth == 0 {
					prev.Depth = 1
				}
				if kind == "SnapshotChunk" && prev.Big == nil {
					prev.Big = &Payload{Seed: r.Uint64() >> 40, Len: r.Range(100, 5000), Kind: "random"}
				}
				st.Pool = &PoolArg{Prev: prev, Fill: []string{"decode", "merge"}[r.Pick([]int{3, 1})], Flavor: []string{"codec", "safe"}[r.Pick([]int{3, 2})]}
			}
			s.Steps = append(s.Steps, st)
		case 1:
			// a compressor stream operation
			var open, closed, dop []*cs
			for _, c := range streams {
				switch {
				case !c.closed:
					open = append(open, c)
				case !c.dopened:
					closed = append(closed, c)
				default:
					dop = append(dop, c)
				}
			}
			wOpen := 6
			if len(open) >= maxOpen {
				wOpen = 0
			}
			wWrite, wClose, wDopen, wDread, wPar := 0, 0, 0, 0, 1
			if len(open) > 0 {
				wWrite, wClose = 10, 4
			}
			if len(closed) > 0 {
				wDopen = 5
			}
			if len(dop) > 0 {
				wDread = 6
			}
			switch r.Pick([]int{wOpen, wWrite, wClose, wDopen, wDread, wPar}) {
			case 0:
				comp := oneComp
				if comp == "" {
					comp = compNames[r.Intn(3)]
				}
				big := bigLeft > 0 && r.Chance(0.5)
				if big {
					bigLeft--
				}
				p := &Payload{Seed: r.Uint64() >> 40, Len: genPayloadLen(r, big), Kind: payloadKinds[r.Intn(len(payloadKinds))]}
				if big && p.Len < 1<<20 {
					p.Len = 1 << 20
				}
				c := &cs{id: nextS, comp: comp, len: p.Len}
				nextS++
				streams = append(streams, c)
				s.Steps = append(s.Steps, Step{Op: "c.open", S: c.id, Comp: comp, P: p})
			case 1:
				c := open[r.Intn(len(open))]
				rest := c.len - c.off
				nn := []int{1, 2, 7, 100, 4096, 65536, 70001, rest, rest/2 + 1}[r.Intn(9)]
				c.off += nn
				if c.off > c.len {
					c.off = c.len
				}
				s.Steps = append(s.Steps, Step{Op: "c.write", S: c.id, N: nn})
			case 2:
				c := open[r.Intn(len(open))]
				c.closed = true
				s.Steps = append(s.Steps, Step{Op: "c.close", S: c.id})
			case 3:
				c := closed[r.Intn(len(closed))]
				c.dopened = true
				s.Steps = append(s.Steps, Step{Op: "d.open", S: c.id})
			case 4:
				c := dop[r.Intn(len(dop))]
				s.Steps = append(s.Steps, Step{Op: "d.read", S: c.id, N: []int{1, 3, 512, 4096, 32 * 1024, 1 << 20, 5 << 20}[r.Intn(7)]})
			default:
				comp := oneComp
				if comp == "" {
					comp = compNames[r.Intn(3)]
				}
				st := Step{Op: "c.par", Comp: comp, N: int(r.Uint64() >> 40)} // N: which sink writes yield
				k := r.Range(2, 5)
				for i := 0; i < k; i++ {
					st.Par = append(st.Par, Payload{Seed: r.Uint64() >> 40, Len: genPayloadLen(r, false), Kind: payloadKinds[r.Intn(len(payloadKinds))]})
				}
				s.Steps = append(s.Steps, st)
			}
		default:
			snapLeft--
			s.Steps = append(s.Steps, Step{Op: "snap", Snap: genSnap(r, bigRun && r.Chance(0.8))})
		}
	}
	return s
}
