package c18codec

import (
	"bufio"
	"bytes"
	"context"
	"crypto/md5"
	"encoding/binary"
	"errors"
	"fmt"
	"io"
	"os"
	"path/filepath"
	"sort"

	"github.com/jamf/regatta/regattapb"
	"github.com/jamf/regatta/regattaserver"
	"github.com/jamf/regatta/replication/backup"
	"github.com/jamf/regatta/replication/snapshot"
	"github.com/jamf/regatta/storage/table"
	"google.golang.org/grpc"
	"google.golang.org/grpc/encoding"
	"google.golang.org/protobuf/proto"
	"verif/sim/core"
)

// ---- fake wire: what gRPC does with a message, minus the transport ---------------------------

// wire carries frames encoded by the registered codec (and optionally a
// registered compressor, used the way grpc uses it: one Write, Close; read to EOF).
type wire struct {
	x      *ex
	comp   encoding.Compressor
	frames [][]byte
	next   int
	lens   []int // data length of every SnapshotChunk sent
}

func (w *wire) send(m any) error {
	b, err := w.x.codec.Marshal(m)
	if err != nil {
		return err
	}
	w.x.dig.AddBytes(b)
	if w.comp != nil {
		var buf bytes.Buffer
		z, err := w.comp.Compress(&buf)
		if err != nil {
			return err
		}
		if _, err := z.Write(b); err != nil {
			return err
		}
		if err := z.Close(); err != nil {
			return err
		}
		b = buf.Bytes()
	}
	w.frames = append(w.frames, b)
	return nil
}

func (w *wire) recv(m any) error {
	if w.next >= len(w.frames) {
		return io.EOF
	}
	b := w.frames[w.next]
	w.frames[w.next] = nil
	w.next++
	if w.comp != nil {
		r, err := w.comp.Decompress(bytes.NewReader(b))
		if err != nil {
			return err
		}
		if b, err = io.ReadAll(r); err != nil {
			return err
		}
	}
	return w.x.codec.Unmarshal(b, m)
}

type snapSrv struct {
	grpc.ServerStream
	w *wire
}

func (s *snapSrv) Send(c *regattapb.SnapshotChunk) error {
	s.w.lens = append(s.w.lens, len(c.Data))
	if len(c.Data) >= 1<<20 {
		s.w.x.out.Probe("snapshot-chunk>=1MiB")
	}
	return s.w.send(c)
}
func (s *snapSrv) Context() context.Context { return context.Background() }

type snapCli struct {
	grpc.ClientStream
	w *wire
}

func (s *snapCli) Recv() (*regattapb.SnapshotChunk, error) {
	m := new(regattapb.SnapshotChunk)
	if err := s.w.recv(m); err != nil {
		return nil, err
	}
	return m, nil
}
func (s *snapCli) RecvMsg(m any) error      { return s.w.recv(m) }
func (s *snapCli) Context() context.Context { return context.Background() }

type restCli struct {
	grpc.ClientStream
	w *wire
}

func (s *restCli) Send(m *regattapb.RestoreMessage) error {
	if n := len(m.GetChunk().GetData()); n > 1<<20 {
		s.w.x.out.Probe("restore-chunk>1MiB")
	}
	return s.w.send(m)
}
func (s *restCli) CloseAndRecv() (*regattapb.RestoreResponse, error) {
	return &regattapb.RestoreResponse{}, nil
}
func (s *restCli) Context() context.Context { return context.Background() }

type restSrv struct {
	grpc.ServerStream
	w    *wire
	resp *regattapb.RestoreResponse
}

func (s *restSrv) Recv() (*regattapb.RestoreMessage, error) {
	m := new(regattapb.RestoreMessage)
	if err := s.w.recv(m); err != nil {
		return nil, err
	}
	return m, nil
}
func (s *restSrv) SendAndClose(r *regattapb.RestoreResponse) error { s.resp = r; return nil }
func (s *restSrv) Context() context.Context                        { return context.Background() }

// stubTables is the TableService behind BackupServer.Restore: Restore reads the
// commands from the reader the way table.Manager.readIntoTable does.
type stubTables struct {
	name string
	read func(r io.Reader) error
}

func (t *stubTables) GetTables() ([]table.Table, error) { return nil, errors.New("stub") }
func (t *stubTables) GetTable(string) (table.ActiveTable, error) {
	return table.ActiveTable{}, errors.New("stub")
}
func (t *stubTables) CreateTable(string) (table.Table, error) {
	return table.Table{}, errors.New("stub")
}
func (t *stubTables) DeleteTable(string) error { return errors.New("stub") }
func (t *stubTables) Restore(name string, r io.Reader) error {
	t.name = name
	return t.read(r)
}

// ---- snappy framing format (from the format description), for probes only ---------------------

type sframe struct {
	hdr, data, n int
	typ          byte
	uStart, uLen int
}

func parseSnappy(b []byte) ([]sframe, int, bool) {
	var fs []sframe
	pos, u := 0, 0
	for pos < len(b) {
		if pos+4 > len(b) {
			return nil, 0, false
		}
		typ := b[pos]
		n := int(b[pos+1]) | int(b[pos+2])<<8 | int(b[pos+3])<<16
		data := pos + 4
		if data+n > len(b) {
			return nil, 0, false
		}
		f := sframe{hdr: pos, data: data, n: n, typ: typ, uStart: u}
		switch typ {
		case 0x00:
			if n < 5 {
				return nil, 0, false
			}
			l, k := binary.Uvarint(b[data+4 : data+n])
			if k <= 0 {
				return nil, 0, false
			}
			f.uLen = int(l)
		case 0x01:
			if n < 4 {
				return nil, 0, false
			}
			f.uLen = n - 4
		}
		u += f.uLen
		fs = append(fs, f)
		pos = data + n
	}
	return fs, u, true
}

// fileOff maps an offset of the uncompressed record stream to a file offset when
// the byte is stored raw (uncompressed frame); ok=false otherwise.
func fileOff(fs []sframe, u int) (off int, fr *sframe, ok bool) {
	i := sort.Search(len(fs), func(i int) bool { return fs[i].uStart+fs[i].uLen > u })
	if i >= len(fs) {
		return 0, nil, false
	}
	f := &fs[i]
	if f.typ != 0x01 {
		return 0, f, false
	}
	return f.data + 4 + (u - f.uStart), f, true
}

// ---- the snapshot step -----------------------------------------------------------------------------

var msgBuf = make([]byte, 4<<20) // readIntoTable's message buffer

func (x *ex) snapCommands(a *SnapArg) []*regattapb.Command {
	tbl := a.Table
	if tbl == "" {
		tbl = "t" // the producer always names the table: no command encodes to zero bytes
	}
	var cmds []*regattapb.Command
	for _, d := range a.Cmds {
		if d.Any {
			m, _ := GenMsg(MsgDesc{Kind: "Command", Seed: d.Seed, Depth: 2, Width: 3, Presence: 60})
			c := m.(*regattapb.Command)
			c.Table = []byte(tbl)
			cmds = append(cmds, c)
			continue
		}
		kl := d.KeyLen
		if kl < 1 {
			kl = 1
		}
		if kl > 4096 {
			kl = 4096
		}
		vl := d.ValLen
		if vl > 2<<20 {
			vl = 2 << 20
		}
		sizeProbes(x.out, vl)
		c := &regattapb.Command{Table: []byte(tbl), Type: regattapb.Command_PUT, Kv: &regattapb.KeyValue{
			Key:   Payload{Seed: d.Seed, Len: kl, Kind: "text"}.Bytes(),
			Value: Payload{Seed: core.Mix(d.Seed, 1), Len: vl, Kind: d.ValKind}.Bytes(),
		}}
		cmds = append(cmds, c)
	}
	if a.Final != nil {
		idx := *a.Final
		if idx == 0 {
			x.out.Probe("leader-index-present-zero")
		}
		cmds = append(cmds, &regattapb.Command{Table: []byte(tbl), Type: regattapb.Command_DUMMY, LeaderIndex: &idx})
	}
	return cmds
}

// chunkSizes turns cyclic cut sizes plus extra boundaries into the list of chunk lengths.
func chunkSizes(fileLen int, cuts []int, extra []int) []int {
	if fileLen == 0 {
		return nil
	}
	minCut := fileLen/4096 + 1
	bset := map[int]bool{}
	if len(cuts) == 0 {
		cuts = []int{snapshot.DefaultSnapshotChunkSize}
	}
	for pos, i := 0, 0; ; i++ {
		c := cuts[i%len(cuts)]
		if c < minCut {
			c = minCut
		}
		pos += c
		if pos >= fileLen {
			break
		}
		bset[pos] = true
	}
	for _, e := range extra {
		if e > 0 && e < fileLen {
			bset[e] = true
		}
	}
	bs := make([]int, 0, len(bset)+1)
	for b := range bset {
		bs = append(bs, b)
	}
	sort.Ints(bs)
	bs = append(bs, fileLen)
	sizes := make([]int, len(bs))
	prev := 0
	for i, b := range bs {
		sizes[i] = b - prev
		prev = b
	}
	return sizes
}

// cutReader returns at most the next scheduled size per Read.
type cutReader struct {
	r     io.Reader
	sizes []int
	i     int
}

func (c *cutReader) Read(p []byte) (int, error) {
	n := len(p)
	if c.i < len(c.sizes) {
		if c.sizes[c.i] < n {
			n = c.sizes[c.i]
		}
	}
	got, err := io.ReadFull(c.r, p[:n])
	if err == io.ErrUnexpectedEOF {
		err = nil
	}
	if c.i < len(c.sizes) {
		c.sizes[c.i] -= got
		if c.sizes[c.i] <= 0 {
			c.i++
		}
	}
	return got, err
}

func (x *ex) stepSnap(st *Step) {
	a := st.Snap
	if a == nil || !x.ensureTmp() {
		return
	}
	x.snapSeen++
	x.guard("snapshot", func() { x.snap(a) })
}

func (x *ex) snap(a *SnapArg) {
	want := x.snapCommands(a)
	wantEnc := make([][]byte, len(want))
	x.out.ProbeN("snapshot-commands", int64(len(want)))
	if len(want) == 0 {
		x.out.Probe("snapshot-empty")
	}

	// ---- producer: SnapshotServer.Stream / BackupServer.Backup
	sf, err := snapshot.NewTemp()
	if err != nil {
		x.out.Fail("HARNESS", "newtemp", "newtemp", x.step, "snapshot.NewTemp: %v", err)
		return
	}
	closeSf := func() { _ = sf.Close(); _ = os.Remove(sf.Path()) }
	var prefixU []int // offset of every record's length prefix in the uncompressed record stream
	u := 0
	for i, c := range want {
		b, err := c.MarshalVT()
		if err != nil || len(b) == 0 {
			closeSf()
			x.fail("marshal-error", "marshal-error:snapshot-command", "MarshalVT of snapshot command %d: %d bytes, %v", i, len(b), err)
			return
		}
		wantEnc[i] = b
		n, err := sf.Write(b)
		if err != nil || n != len(b) {
			closeSf()
			x.fail("snapshot-file-write", "snapshot-file-write", "snapshot file Write(%d bytes) = %d, %v", len(b), n, err)
			return
		}
		prefixU = append(prefixU, u)
		u += 8 + len(b)
	}
	if err := sf.Sync(); err != nil {
		closeSf()
		x.fail("snapshot-file-write", "snapshot-file-sync", "snapshot file Sync: %v", err)
		return
	}
	if _, err := sf.Seek(0, io.SeekStart); err != nil {
		closeSf()
		x.out.Fail("HARNESS", "seek", "seek", x.step, "%v", err)
		return
	}
	file, err := os.ReadFile(sf.Path())
	if err != nil {
		closeSf()
		x.out.Fail("HARNESS", "readfile", "readfile", x.step, "%v", err)
		return
	}
	frames, uTotal, parsed := parseSnappy(file)
	if parsed && uTotal != u {
		parsed = false
	}
	// resolve the requested boundaries inside length prefixes
	var extra []int
	if parsed && len(want) > 0 {
		for _, pc := range a.PrefixCuts {
			rec := pc.Rec % len(want)
			if rec < 0 {
				rec = 0
			}
			off := pc.Off
			if off < 1 || off > 7 {
				off = 4
			}
			if fo, fr, ok := fileOff(frames, prefixU[rec]+off); ok {
				extra = append(extra, fo)
			} else if fr != nil {
				extra = append(extra, fr.hdr+1+off%3) // inside the frame's own 3-byte length
			}
		}
	}
	w := &wire{x: x}
	if a.WireComp != "" {
		w.comp = encoding.GetCompressor(a.WireComp)
	}
	srv := &snapSrv{w: w}
	var sent int64
	switch a.Producer {
	case "readfrom":
		sizes := chunkSizes(len(file), a.Cuts, extra)
		sent, err = (&snapshot.Writer{Sender: srv}).ReadFrom(&cutReader{r: sf.File, sizes: sizes})
	case "write":
		sizes := chunkSizes(len(file), a.Cuts, extra)
		sw := &snapshot.Writer{Sender: srv}
		pos := 0
		emptyAt := func(i int) bool {
			for _, e := range a.EmptyAt {
				if e == i || (e > len(sizes) && i == len(sizes)) {
					return true
				}
			}
			return false
		}
		for i, sz := range sizes {
			if emptyAt(i) {
				// a zero-length Write is a legal io.Writer call: it becomes an empty chunk
				if _, err = sw.Write(file[pos:pos]); err != nil {
					break
				}
				x.out.Probe("empty-chunk")
			}
			var n int
			n, err = sw.Write(file[pos : pos+sz])
			if err == nil && n != sz {
				err = fmt.Errorf("Write(%d bytes) = %d", sz, n)
			}
			if err != nil {
				break
			}
			pos += sz
			sent += int64(n)
		}
		if err == nil && emptyAt(len(sizes)) {
			_, err = sw.Write(file[pos:pos])
			x.out.Probe("empty-chunk")
		}
	default: // exactly what the servers do
		sent, err = io.Copy(&snapshot.Writer{Sender: srv}, bufio.NewReaderSize(sf.File, snapshot.DefaultSnapshotChunkSize))
	}
	closeSf()
	if err != nil || sent != int64(len(file)) {
		x.fail("snapshot-send", "snapshot-send:"+a.Producer, "streaming a %d byte snapshot file (%s): sent %d bytes, %v", len(file), a.Producer, sent, err)
		return
	}
	x.out.ProbeN("chunks", int64(len(w.lens)))
	if len(w.lens) > 1 {
		x.out.Probe("multi-chunk-stream")
	}
	maxChunk := 0
	var bounds []int
	pos := 0
	for _, l := range w.lens {
		if l > maxChunk {
			maxChunk = l
		}
		pos += l
		if pos < len(file) {
			bounds = append(bounds, pos)
		}
	}
	if parsed {
		x.boundaryProbes(frames, prefixU, bounds)
	}

	// ---- consumer
	cli := &snapCli{w: w}
	readBack := func(r io.Reader) error { return x.readBack(r, want, wantEnc) }
	switch a.Consumer {
	case "backup":
		x.consumeBackup(a, cli, file, readBack)
	default:
		sf2, err := snapshot.NewTemp()
		if err != nil {
			x.out.Fail("HARNESS", "newtemp", "newtemp", x.step, "snapshot.NewTemp: %v", err)
			return
		}
		defer func() { _ = sf2.Close(); _ = os.Remove(sf2.Path()) }()
		var n int64
		if a.Consumer == "read" {
			rd := snapshot.Reader{Stream: cli}
			big := make([]byte, 0)
			for i := 0; ; i++ {
				sz := 32 * 1024
				if len(a.ReadBufs) > 0 {
					sz = a.ReadBufs[i%len(a.ReadBufs)]
				}
				if sz < maxChunk {
					sz = maxChunk // Reader.Read demands a buffer that holds a whole chunk (io.ErrShortBuffer otherwise)
				}
				if sz < 1 {
					sz = 1
				}
				if cap(big) < sz {
					big = make([]byte, sz)
				}
				p := big[:sz]
				k, err := rd.Read(p)
				if k > 0 {
					if _, werr := sf2.File.Write(p[:k]); werr != nil {
						x.out.Fail("HARNESS", "write", "write", x.step, "%v", werr)
						return
					}
					n += int64(k)
				}
				if err == io.EOF {
					break
				}
				if err != nil {
					x.fail("snapshot-recv", "snapshot-recv:read", "snapshot.Reader.Read (buffer %d, largest chunk %d): %v", sz, maxChunk, err)
					return
				}
			}
			x.out.Probe("consumer-read")
		} else {
			// worker.recover: io.Copy(sf.File, r) (uses Reader.WriteTo)
			r := &snapshot.Reader{Stream: cli}
			n, err = io.Copy(sf2.File, r)
			if err != nil {
				x.fail("snapshot-recv", "snapshot-recv:writeto", "io.Copy(file, snapshot.Reader): %v", err)
				return
			}
			x.out.Probe("consumer-writeto")
		}
		if err := sf2.Sync(); err != nil {
			x.fail("snapshot-file-write", "snapshot-file-sync", "consumer snapshot file Sync: %v", err)
			return
		}
		got, err := os.ReadFile(sf2.Path())
		if err != nil {
			x.out.Fail("HARNESS", "readfile", "readfile", x.step, "%v", err)
			return
		}
		if n != int64(len(file)) || !bytes.Equal(got, file) {
			x.fail("stream-bytes-differ", "stream-bytes-differ:"+a.Consumer, "the consumer's file (%d bytes, %d copied) differs from the producer's file (%d bytes) after %d chunks; first difference at offset %d", len(got), n, len(file), len(w.lens), firstDiff(got, file))
			return
		}
		if _, err := sf2.Seek(0, io.SeekStart); err != nil {
			x.out.Fail("HARNESS", "seek", "seek", x.step, "%v", err)
			return
		}
		if err := readBack(sf2); err != nil {
			return
		}
	}
	if !x.failed() {
		x.out.Probe("snapshot-verified")
	}
}

func firstDiff(a, b []byte) int {
	n := len(a)
	if len(b) < n {
		n = len(b)
	}
	for i := 0; i < n; i++ {
		if a[i] != b[i] {
			return i
		}
	}
	return n
}

func (x *ex) boundaryProbes(frames []sframe, prefixU []int, bounds []int) {
	if len(bounds) == 0 {
		return
	}
	// a boundary b splits the byte range [s,e] when s < b <= e
	splits := func(s, e int) bool {
		i := sort.SearchInts(bounds, s+1)
		return i < len(bounds) && bounds[i] <= e
	}
	rec, frm := false, false
	for _, pu := range prefixU {
		s, _, ok1 := fileOff(frames, pu)
		e, _, ok2 := fileOff(frames, pu+7)
		if ok1 && ok2 && e == s+7 && splits(s, e) {
			rec = true
			break
		}
	}
	for i := range frames {
		if splits(frames[i].hdr, frames[i].hdr+3) {
			frm = true
			break
		}
	}
	if rec {
		x.out.Probe("chunk-boundary-inside-record-length-prefix")
	}
	if frm {
		x.out.Probe("chunk-boundary-inside-frame-length-header")
	}
	if rec || frm {
		x.out.Probe("chunk-boundary-inside-length-prefix")
	}
}

// readBack consumes a snapshot file the way table.Manager.readIntoTable does:
// one reused message buffer, one length-prefixed record per Read, UnmarshalVT of
// the record, decoded parts retained while the buffer is reused.
func (x *ex) readBack(r io.Reader, want []*regattapb.Command, wantEnc [][]byte) error {
	bad := errors.New("violation")
	cmd := &regattapb.Command{}
	var got []*regattapb.Command
	maxN := 0
	for {
		n, err := r.Read(msgBuf)
		if err == io.EOF {
			break
		}
		if err != nil {
			x.fail("snapshot-read", "snapshot-read-error", "reading record %d of %d from the received snapshot: %v", len(got), len(want), err)
			return bad
		}
		i := len(got)
		if i >= len(want) {
			x.fail("snapshot-sequence", "extra-record", "the received snapshot yields more than the %d commands written (extra record of %d bytes)", len(want), n)
			return bad
		}
		if n != len(wantEnc[i]) {
			x.fail("snapshot-sequence", "record-boundary-moved", "record %d of the received snapshot has %d bytes, written were %d", i, n, len(wantEnc[i]))
			return bad
		}
		if !bytes.Equal(msgBuf[:n], wantEnc[i]) {
			x.fail("snapshot-sequence", "record-bytes-differ", "record %d (%d bytes) of the received snapshot differs from what was written at offset %d", i, n, firstDiff(msgBuf[:n], wantEnc[i]))
			return bad
		}
		if n > maxN {
			maxN = n
		}
		cmd.Reset()
		if err := cmd.UnmarshalVT(msgBuf[:n]); err != nil {
			x.fail("snapshot-sequence", "record-undecodable", "record %d: UnmarshalVT: %v", i, err)
			return bad
		}
		x.dig.AddBytes(msgBuf[:n])
		// readIntoTable keeps cmd.Table, cmd.LeaderIndex and cmd.Kv while msg is overwritten by the next Read
		got = append(got, &regattapb.Command{Table: cmd.Table, Type: cmd.Type, Kv: cmd.Kv, LeaderIndex: cmd.LeaderIndex, Batch: cmd.Batch,
			Txn: cmd.Txn, RangeEnd: cmd.RangeEnd, PrevKvs: cmd.PrevKvs, Sequence: cmd.Sequence, Count: cmd.Count})
	}
	if len(got) != len(want) {
		x.fail("snapshot-sequence", "missing-records", "the received snapshot ends (EOF) after %d commands, written were %d", len(got), len(want))
		return bad
	}
	if n, err := r.Read(msgBuf); err != io.EOF {
		x.fail("snapshot-sequence", "eof-not-sticky", "Read after EOF returned %d, %v", n, err)
		return bad
	}
	scribble(msgBuf[:maxN])
	for i := range want {
		if !proto.Equal(want[i], got[i]) {
			p := diffPath(want[i].ProtoReflect(), got[i].ProtoReflect())
			x.fail("snapshot-sequence", "record-decoded-differs:"+p, "command %d read back from the snapshot differs from the one written in field %s (after the read buffer was reused)\n want: %s\n got:  %s", i, p, short(want[i]), short(got[i]))
			return bad
		}
	}
	x.dig.Add(uint64(len(got)))
	return nil
}

// consumeBackup: backup.Backup stores the stream in a plain file (+md5), backup.Restore
// ships that file as RestoreMessage chunks through backup.Writer, BackupServer.Restore
// collects them into a snapshot file and hands it to the table service.
func (x *ex) consumeBackup(a *SnapArg, cli *snapCli, file []byte, readBack func(io.Reader) error) {
	path := filepath.Join(x.tmpDir, fmt.Sprintf("t%d.bak", x.snapSeen))
	bf, err := os.Create(path)
	if err != nil {
		x.out.Fail("HARNESS", "create", "create", x.step, "%v", err)
		return
	}
	defer func() { _ = bf.Close(); _ = os.Remove(path) }()
	hash := md5.New()
	n, err := io.Copy(io.MultiWriter(hash, bf), snapshot.Reader{Stream: cli})
	if err != nil {
		x.fail("snapshot-recv", "snapshot-recv:backup", "io.Copy(backup file, snapshot.Reader): %v", err)
		return
	}
	_ = bf.Sync()
	got, err := os.ReadFile(path)
	if err != nil {
		x.out.Fail("HARNESS", "readfile", "readfile", x.step, "%v", err)
		return
	}
	want := md5.Sum(file)
	if n != int64(len(file)) || !bytes.Equal(got, file) || !bytes.Equal(hash.Sum(nil), want[:]) {
		x.fail("stream-bytes-differ", "stream-bytes-differ:backup", "the backup file (%d bytes, %d copied) differs from the producer's snapshot file (%d bytes); first difference at offset %d", len(got), n, len(file), firstDiff(got, file))
		return
	}
	// restore
	tf, err := os.Open(path)
	if err != nil {
		x.out.Fail("HARNESS", "open", "open", x.step, "%v", err)
		return
	}
	defer tf.Close()
	w2 := &wire{x: x, comp: cli.w.comp}
	rc := &restCli{w: w2}
	tbl := a.Table
	if tbl == "" {
		tbl = "t"
	}
	if err := rc.Send(&regattapb.RestoreMessage{Data: &regattapb.RestoreMessage_Info{Info: &regattapb.RestoreInfo{Table: []byte(tbl)}}}); err != nil {
		x.fail("snapshot-send", "restore-send", "sending RestoreInfo: %v", err)
		return
	}
	if len(a.RestoreCut) == 0 {
		_, err = io.Copy(&backup.Writer{Sender: rc}, bufio.NewReaderSize(tf, 2*1024*1024))
	} else {
		bw := backup.Writer{Sender: rc}
		pos := 0
		for _, sz := range chunkSizes(len(file), a.RestoreCut, nil) {
			var k int
			k, err = bw.Write(got[pos : pos+sz])
			if err == nil && k != sz {
				err = fmt.Errorf("Write(%d bytes) = %d", sz, k)
			}
			if err != nil {
				break
			}
			pos += sz
		}
	}
	if err != nil {
		x.fail("snapshot-send", "restore-send", "streaming the backup file through backup.Writer: %v", err)
		return
	}
	x.out.ProbeN("restore-chunks", int64(len(w2.frames)-1))
	called := false
	var rbErr error
	tables := &stubTables{read: func(r io.Reader) error { called = true; rbErr = readBack(r); return rbErr }}
	srv := &restSrv{w: w2}
	err = (&regattaserver.BackupServer{Tables: tables}).Restore(srv)
	if x.failed() {
		return
	}
	if err != nil {
		x.fail("snapshot-recv", "restore-recv", "BackupServer.Restore: %v", err)
		return
	}
	if !called || tables.name != tbl || srv.resp == nil {
		x.fail("snapshot-recv", "restore-incomplete", "BackupServer.Restore returned nil but table service called=%v table=%q response=%v", called, tables.name, srv.resp)
		return
	}
	x.out.Probe("consumer-backup-restore")
}
