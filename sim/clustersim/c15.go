package clustersim

import (
	"encoding/json"
	"errors"
	"fmt"
	"strings"
	"time"

	serrors "github.com/jamf/regatta/storage/errors"
	"github.com/jamf/regatta/storage/kv"
	"verif/sim/core"
	"verif/sim/fsmsim"
)

// GenC15 draws lease / renew / return calls by 2-3 follower nodes, interleaved at the granularity
// of individual metadata-store reads and writes.
func GenC15(r *core.Rand, tier string) core.Schedule {
	cfg := &Cfg{Prop: "C15", Seed: r.Uint64()}
	kg := fsmsim.NewKeyGen(r.Fork("keys"), false, 3)
	cfg.Keys = kg.Keys()
	cfg.Leaders = 1
	cfg.Followers = r.Range(2, 3)
	cfg.Tables = []string{"t1"}
	cfg.InitialTables = 1
	cfg.MaxInMemLogSize = 1 << 20
	cfg.PollMs, cfg.LeaseMs, cfg.ReconcileMs, cfg.LogTimeoutMs = 503, 1009, 1013, 5003
	cfg.RecoveryTypes = []int{0, 0, 0, 0}
	cfg.FollowerFirst = true
	cfg.NoReplication = true // only the harness leases; the workers' own lease loops would share the gate
	var steps []Step
	n := r.Range(8, 36)
	for len(steps) < n {
		nd := r.Intn(cfg.Followers)
		switch r.Pick([]int{30, 12, 40, 10, 5, 5}) {
		case 0:
			// long, short, or already expired lease durations
			steps = append(steps, Step{Op: "lease", N: nd, Ms: []int{-5000, -1, 50, 400, 2000, 60000}[r.Intn(6)]})
		case 1:
			steps = append(steps, Step{Op: "leasereturn", N: nd})
		case 2:
			steps = append(steps, Step{Op: "release", N: nd})
		case 3:
			steps = append(steps, Step{Op: "advance", Ms: []int{1, 53, 401, 2003}[r.Intn(4)]})
		case 4:
			steps = append(steps, Step{Op: "lag", F: true, Shard: "meta", Replica: uint64(r.Range(1, cfg.Followers)), On: r.Chance(0.7)})
		case 5:
			steps = append(steps, Step{Op: "catchup", F: true, Shard: "meta", Replica: uint64(r.Range(1, cfg.Followers)), Cnt: r.Range(0, 2)})
		}
	}
	return &Sched{Cfg: *cfg, Steps: steps}
}

type leaseTask struct {
	node    *Node
	kind    string // lease | return
	dur     time.Duration
	active  bool
	parked  bool
	release chan struct{}
	done    bool
	err     error
	held    bool // ReturnTable's boolean
	callAt  uint64
	retAt   uint64
	started time.Time
	ops     int
}

func isLeaseKey(kind string, payload any) bool {
	switch p := payload.(type) {
	case kv.QueryKey:
		return strings.HasSuffix(p.Key, "/lease")
	case []byte:
		return strings.Contains(string(p), "/lease")
	}
	return false
}

func (r *run) installLeaseGate() {
	r.w.u.Gate = func(kind, addr string, shard uint64, payload any) {
		if shard != 1000 || !isLeaseKey(kind, payload) {
			return
		}
		t := r.leaseTasks[addr]
		if t == nil || !t.active {
			return
		}
		t.ops++
		t.parked = true
		<-t.release
		t.parked = false
	}
}

func (r *run) metaLast() uint64 {
	s, _ := r.w.u.Shard("F", 1000)
	return s.Last
}

func (r *run) execLease(st *Step) {
	n := r.node(true, st.N)
	if n == nil || !n.up {
		return
	}
	switch st.Op {
	case "lease", "leasereturn":
		if t := r.leaseTasks[n.raftAddr]; t != nil && t.active {
			return // one outstanding call per node
		}
		t := &leaseTask{node: n, kind: "lease", dur: time.Duration(st.Ms) * time.Millisecond, active: true, release: make(chan struct{}), callAt: r.metaLast(), started: time.Now()}
		if st.Op == "leasereturn" {
			t.kind = "return"
		}
		r.leaseTasks[n.raftAddr] = t
		r.leaseHist = append(r.leaseHist, t)
		go func() {
			if t.kind == "lease" {
				t.err = n.engine.LeaseTable("t1", t.dur)
			} else {
				t.held, t.err = n.engine.ReturnTable("t1")
			}
			t.retAt = r.metaLast()
			t.active = false
			t.done = true
		}()
		r.out.Probe("lease-call-" + t.kind)
	case "release":
		t := r.leaseTasks[n.raftAddr]
		if t == nil || !t.active || !t.parked {
			return
		}
		// did another node act between this task's read and its write?
		for _, o := range r.leaseHist {
			if o != t && o.active && o.parked && o.ops >= 1 && t.ops >= 1 {
				r.out.Probe("calls-overlapped-between-read-and-write")
			}
		}
		t.release <- struct{}{}
	}
}

func (r *run) drainLeaseTasks() {
	for k := 0; k < 200; k++ {
		busy := false
		for _, t := range r.leaseHist {
			if t.active {
				busy = true
				if t.parked {
					t.release <- struct{}{}
					settle()
				}
			}
		}
		if !busy {
			return
		}
		settle()
		time.Sleep(time.Millisecond)
	}
}

type leaseRec struct {
	ID    uint64    `json:"id"`
	Until time.Time `json:"until"`
}

// checkLeases decides C15 over the order of successful writes in the metadata shard's log.
func (r *run) checkLeases() {
	if r.failed() {
		return
	}
	log := r.w.u.Log("F", 1000)
	type ver struct {
		val string
		ver uint64
	}
	cur := map[string]ver{}
	type evt struct {
		index uint64
		op    string
		rec   leaseRec
		prev  *leaseRec
		ver   uint64 // the version the proposer had read
	}
	var evts []evt
	const key = "/tables/t1/lease"
	for _, e := range log {
		if !e.Regular {
			continue
		}
		var u struct {
			Op     string
			KVPair struct {
				Key   string
				Value string
				Ver   uint64
			}
		}
		if json.Unmarshal(e.Payload, &u) != nil {
			continue
		}
		c, exists := cur[u.KVPair.Key]
		if exists && c.ver != u.KVPair.Ver {
			continue // compare-and-set refused it
		}
		if u.KVPair.Key == key {
			ev := evt{index: e.Index, op: u.Op, ver: u.KVPair.Ver}
			if exists {
				var p leaseRec
				_ = json.Unmarshal([]byte(c.val), &p)
				ev.prev = &p
			}
			if u.Op == "set" {
				_ = json.Unmarshal([]byte(u.KVPair.Value), &ev.rec)
			}
			evts = append(evts, ev)
		}
		if u.Op == "set" {
			cur[u.KVPair.Key] = ver{u.KVPair.Value, e.Index}
		} else {
			delete(cur, u.KVPair.Key)
		}
	}
	// who owned the record a deleter had read: its version is the log index of the set that wrote it
	ownerOfVersion := map[uint64]uint64{}
	for _, e := range evts {
		if e.op == "set" {
			ownerOfVersion[e.index] = e.rec.ID
		}
	}
	claimed := map[uint64]bool{}
	for _, t := range r.leaseHist {
		if !t.done {
			r.fail("C15", "call-never-returned", "call-never-returned", "%s call on %s never returned", t.kind, t.node.name)
			return
		}
		what := fmt.Sprintf("%s on %s (metadata log %d..%d)", t.kind, t.node.name, t.callAt, t.retAt)
		var mine *evt
		for i := range evts {
			e := &evts[i]
			if e.index > t.callAt && e.index <= t.retAt && !claimed[e.index] {
				if t.kind == "lease" && e.op == "set" && e.rec.ID == t.node.cfg.ID {
					mine = e
					break
				}
				// a compare-and-set delete carries the version its proposer read; ReturnTable deletes only
				// after reading a record of its own node, so the delete of this call is the one whose read
				// version belongs to a record of this node
				if t.kind == "return" && e.op == "delete" && ownerOfVersion[e.ver] == t.node.cfg.ID {
					mine = e
					break
				}
			}
		}
		switch t.kind {
		case "lease":
			if t.err == nil {
				if mine == nil {
					r.fail("C15", "lease-ok-without-record", "lease-ok-without-record", "%s reported success but no lease record owned by node %d was successfully written during the call", what, t.node.cfg.ID)
					return
				}
				claimed[mine.index] = true
				at := mine.rec.Until.Add(-t.dur) // the acquiring node's clock when it decided
				if p := mine.prev; p != nil && p.ID != t.node.cfg.ID && !p.Until.Before(at) {
					r.fail("C15", "lease-stolen", "lease-stolen", "%s succeeded at %v although node %d held an unexpired lease until %v (metadata log index %d)", what, at.Format("15:04:05.000"), p.ID, p.Until.Format("15:04:05.000"), mine.index)
					return
				}
				r.out.Probe("lease-acquired")
				if mine.prev != nil && mine.prev.ID != t.node.cfg.ID {
					r.out.Probe("expired-lease-taken-over")
				}
			} else {
				if mine != nil {
					r.fail("C15", "lease-error-with-record", "lease-error-with-record", "%s failed with %v but a lease record owned by the node was written (index %d)", what, t.err, mine.index)
					return
				}
				if errors.Is(t.err, serrors.ErrLeaseNotAcquired) {
					r.out.Probe("lease-refused")
				} else if errors.Is(t.err, kv.ErrVersionMismatch) {
					r.out.Probe("lease-lost-race")
				}
			}
		case "return":
			if t.err == nil && t.held {
				if mine == nil {
					r.fail("C15", "return-ok-without-delete", "return-ok-without-delete", "%s reported that it returned its lease but no delete of the lease record succeeded during the call", what)
					return
				}
				claimed[mine.index] = true
				if mine.prev == nil {
					// the record was already gone (a lagging replica showed the caller its own old lease): the
					// delete removed nothing, which is all the property asks for
					r.out.Probe("return-of-already-removed-lease")
				} else if mine.prev.ID != t.node.cfg.ID {
					r.fail("C15", "foreign-lease-removed", "foreign-lease-removed", "%s removed the lease record of node %d (metadata log index %d)", what, mine.prev.ID, mine.index)
					return
				} else {
					r.out.Probe("lease-returned")
				}
			} else if mine != nil && t.err != nil {
				// a failed return must not have removed anything
				if mine.prev != nil {
					r.fail("C15", "return-error-with-delete", "return-error-with-delete", "%s failed with %v but a lease record was deleted during the call (index %d)", what, t.err, mine.index)
					return
				}
			}
		}
		r.dig.AddString(t.kind)
		if t.err == nil {
			r.dig.Add(1)
		} else {
			r.dig.Add(2)
		}
	}
	// every delete that removed a record must have removed a record of the node whose read it was based on
	// (a delete issued on the strength of somebody else's record is a foreign removal whoever got the answer)
	for _, e := range evts {
		if e.op == "delete" && e.prev != nil && !claimed[e.index] {
			var who *leaseTask
			for _, t := range r.leaseHist {
				if t.kind == "return" && e.index > t.callAt && e.index <= t.retAt && t.node.cfg.ID != e.prev.ID {
					who = t
				}
			}
			unexplained := true
			for _, t := range r.leaseHist {
				if t.kind == "return" && e.index > t.callAt && e.index <= t.retAt && t.node.cfg.ID == e.prev.ID {
					unexplained = false // the owner itself was returning at that time (answer lost or call failed later)
				}
			}
			if unexplained && who != nil {
				r.fail("C15", "foreign-lease-removed", "foreign-lease-removed", "the lease record of node %d was deleted at metadata log index %d while only node %d was returning a lease", e.prev.ID, e.index, who.node.cfg.ID)
				return
			}
		}
	}
}
