//go:debug randautoseed=0
package clustersim

import (
	"testing"

	"verif/sim/core"
)

var w3Real = []string{"storage.Engine", "table.Manager (catalogue, leases, reconcile, Restore/readIntoTable)", "kv.RaftStore + kv.LFSM", "storage/table/fsm on Pebble", "storage/logreader (Simple/Cached)", "replication.Manager + workers", "regattaserver: KV, ForwardingKV, Tables, ReadonlyTables, Backup, Reset, Log, Snapshot, Metadata, Cluster", "real gRPC client/server incl. regatta's codec and gzip compressor", "storage.IndexNotificationQueue", "storage/cluster (memberlist on an isolated mock transport)"}
var w3Stub = []string{"Raft library: simdragonboat (single-copy log per shard, keyed batching/lag/faults; contract in DESIGN appendix A)", "network: simnet (net.Conn pairs, delay, blackhole, reset)", "disk of table state machines: crashfs", "clock: testing/synctest fake clock", "cmd/* wiring: replicated by clustersim/node.go", "snapshot temp files: real files under the OS temp dir"}

var Specs = map[string]*core.Spec{
	"C05": {Prop: "C05", World: "W3 clustersim", Gen: GenC05, Decode: Decode, Exec: Exec,
		Rule: "leader cluster (1|3 nodes) + follower cluster (1|3 nodes), seeded leader write histories incl. non-idempotent transactions and range deletes, clock quanta, leader log compaction (USE_SNAPSHOT path), follower start before/after compaction, worker restarts, follower node stop/crash/restart, connection resets, Raft leader changes and replica lag in both clusters, proposal faults, table creation; after every step every follower node is observed in local and linearizable mode; non-trivial = a follower advanced through >=2 distinct leader indices and >=1 fault fired; distinct = digests of observed leader-index sequences",
		Real: w3Real, Stub: w3Stub,
		RequiredProbes: []string{"follower-advanced", "converged", "kv-put"},
		Assumptions:    []string{"the Raft stand-in honours dragonboat's contract (validated by reading; see DESIGN appendix A)", "Raft log durability is assumed", "goroutine choice inside regatta is the Go runtime's; runs are stimulated one event at a time"}},
}

func TestRun(t *testing.T) { core.Main(t, Specs) }
