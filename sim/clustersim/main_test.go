//go:debug randautoseed=0
//go:debug randseednop=0
package clustersim

import (
	"testing"

	"verif/sim/core"
)

var w3Real = []string{"storage.Engine", "table.Manager (catalogue, leases, reconcile, Restore/readIntoTable)", "kv.RaftStore + kv.LFSM", "storage/table/fsm on Pebble", "storage/logreader (Simple/Cached)", "replication.Manager + workers", "regattaserver: KV, ForwardingKV, Tables, ReadonlyTables, Backup, Reset, Log, Snapshot, Metadata, Cluster", "real gRPC client/server incl. regatta's codec and gzip compressor", "storage.IndexNotificationQueue", "storage/cluster (memberlist on an isolated mock transport)"}
var w3Stub = []string{"Raft library: simdragonboat (single-copy log per shard, keyed batching/lag/faults; contract in DESIGN appendix A)", "network: simnet (net.Conn pairs, delay, blackhole, reset)", "disk of table state machines: crashfs", "clock: testing/synctest fake clock", "cmd/* wiring: replicated by clustersim/node.go", "snapshot temp files: real files under the OS temp dir"}

var Specs = map[string]*core.Spec{
	"C05": {Prop: "C05", World: "W3 clustersim", Gen: GenC05, Decode: Decode, Exec: Exec,
		Rule: "leader cluster (1|3 nodes) + follower cluster (1|3 nodes), seeded leader write histories incl. non-idempotent transactions and range deletes, clock quanta, leader log compaction (USE_SNAPSHOT path), follower start before/after compaction, worker restarts, follower node stop/crash/restart, connection resets, Raft leader changes and replica lag in both clusters, proposal faults, table creation; after every step every follower node is observed in local and linearizable mode; non-trivial = a follower advanced through >=2 distinct leader indices and >=1 fault fired; distinct = digests of observed leader-index sequences",
		Real: w3Real, Stub: w3Stub,
		RequiredProbes: []string{"follower-advanced", "converged", "kv-put"},
		Assumptions:    []string{"the Raft stand-in honours dragonboat's contract (validated by reading; see DESIGN appendix A)", "Raft log durability is assumed", "goroutine choice inside regatta is the Go runtime's; runs are stimulated one event at a time"}},
	"C10": {Prop: "C10", World: "W3 clustersim", Gen: GenC10, Decode: Decode, Exec: Exec,
		Rule: "1- or 3-node cluster, one table, 2-5 clients bound to nodes issuing Put/DeleteRange/Txn (incl. transactions whose taken branch is empty)/Range(linearizable|serializable)/read-only Txn through real gRPC, many asynchronously with request delays so that call windows overlap; replica lag, catch-up steps, term changes (index gaps), dropped/busy/indeterminate proposals; oracle = ground truth: every acknowledged mutation's revision is the index of its own entry in the table's log (non-zero, unique, inside its call window) and its response equals applying the log in revision order; every linearizable read / read-only txn equals the table state at some log index between the last write acknowledged before it started and the log end at its return; serializable reads equal some prefix; non-trivial = overlapping calls or a linearizable read served by a lagging replica; distinct = digests of acknowledged revisions",
		Real: w3Real, Stub: w3Stub,
		RequiredProbes: []string{"acked-write-checked", "linearizable-read-checked", "raft-linearizable-read-on-lagging-replica", "overlapping-calls", "acked-txn-empty-branch"},
		Assumptions:    []string{"the Raft stand-in honours dragonboat's contract (DESIGN appendix A): a proposal completes when the proposing node's replica applied it; SyncRead applies everything committed at call time first", "state-machine calls are atomic with respect to each other in W3 (stand-in lock); sub-call interleavings are W1's business"}},
	"C16": {Prop: "C16", World: "W3 clustersim", Gen: GenC16, Decode: Decode, Exec: Exec,
		Rule: "valid client traffic mixed with requests drawn from a grammar of violations (missing table/key, negative limit, keys_only+count_only, each unsupported revision filter, keys 1025/4096 bytes, range end 1025, values 2 MiB+1, unknown table, table mutations on a follower, empty names, empty oneofs), each also nested inside transaction operations, plus the valid boundary cases (key 1024, value 2 MiB), sent through real gRPC to a leader node and to a follower node; oracle: non-OK status in the allowed code set, no new command in any table shard of the leader cluster, catalogue unchanged, the node still answers, no state-machine failure; the input space has no schedule dimension - stated plainly; non-trivial = every run (each sends several violating requests); distinct = digests of status-code sequences",
		Real: w3Real, Stub: w3Stub,
		RequiredProbes: []string{"raw-nested", "raw-key-1025", "raw-ok-huge-limit", "raw-key-1025-with-range-end", "raw-value-2mib+1", "raw-ok-key-1024", "raw-ok-value-2mib", "raw-follower-table-create", "raw-empty-oneof"},
		Assumptions:    []string{"a process-killing panic in a handler kills the worker process; the runner attributes it to the schedule that was running and reports it as a violation of this property"}},
	"C14": {Prop: "C14", World: "W3 clustersim", Gen: GenC14, Decode: Decode, Exec: Exec,
		Rule: "1- or 3-node cluster; create / delete / list over 2-4 names through the real Tables gRPC service on different nodes, pairs of them racing (asynchronous with delays), interleaved with data operations, metadata-replica lag, node restarts and clock advances across the reconcile (30 s) and clean-up (5 min) periods; oracle = compare-and-set replay of the ground-truth metadata log: every acknowledged create/delete has its own successful entry inside its call window, creates of an existing name never succeed, ids strictly increase and are never reused, refusals without any overlapping catalogue change are violations, lists equal the catalogue at some index the node could have seen; every catalogued table equals the replay of its own shard log (new tables empty, no cross-table effects); after two quiet reconcile periods every node runs exactly the catalogued shards; non-trivial = every run with >=1 successful create and >=1 racing pair or delete; distinct = digests of catalogue outcomes",
		Real: w3Real, Stub: w3Stub,
		RequiredProbes: []string{"create-ok", "delete-ok", "list-ok", "create-refused-exists", "table-content-checked", "reconciled-node-checked"},
		Assumptions:    []string{"the catalogue is read with local (stale) reads by design: a change a node's metadata replica has not applied yet counts as overlapping for that node"}},
	"C07": {Prop: "C07", World: "W3 clustersim", Gen: GenC07, Decode: Decode, Exec: Exec,
		Rule: "operator tasks through the real replication/backup client and the real Maintenance service: backup (also with writes in flight), later restore into the same cluster after the tables changed, restore of a backup with one flipped byte; follower snapshot recovery observed with the C05 oracle; MaxInMemLogSize in {0, values within a few bytes of cumulative record sizes, default}, value sizes chosen around those thresholds; oracles: the backup file (decoded independently: snappy stream of length-prefixed commands) equals the table at some log index inside the backup call (point-in-time); after Restore returned nil every restored table equals the captured content exactly, got a new larger shard id, other tables are untouched; a corrupted file is refused and the refused table unchanged; non-trivial = a restore of >=2 pairs, a backup overlapping writes, or a follower snapshot install; distinct = digests",
		Real: append([]string{"replication/backup (Backup, Restore client)"}, w3Real...), Stub: w3Stub,
		RequiredProbes: []string{"backup-ok", "restore-checked", "restore-multi-pair", "corrupt-backup-refused", "backup-with-concurrent-writes"},
		Assumptions:    []string{"backup files live in real temporary directories (the backup client takes a directory name)"}},
	"C15": {Prop: "C15", World: "W3 clustersim (lease tasks gated at store-call granularity)", Gen: GenC15, Decode: Decode, Exec: Exec,
		Rule: "2-3 follower nodes (real table.Manager over real kv.RaftStore on one simulated metadata shard with one LFSM replica per node, replication workers off so that only the harness leases); tasks call LeaseTable (long / short / already expired durations) and ReturnTable; every metadata-store read and write of a task is a gate where the task parks until the schedule releases it, so calls of different nodes interleave between one's read and the other's write; metadata replicas lag; clock advances; oracle over the order of successful writes in the metadata shard's log: an acknowledged acquisition has its own record, and the record before it is absent, the node's own, or expired at the acquiring node's decision time; a return deletes only the caller's record; errors never leave a record; non-trivial = two calls overlapped between read and write; distinct = digests of outcomes",
		Real: w3Real, Stub: w3Stub,
		RequiredProbes: []string{"lease-acquired", "lease-returned", "calls-overlapped-between-read-and-write", "expired-lease-taken-over"},
		Assumptions:    []string{"all nodes of a bubble share one clock: clock skew between nodes is not injected (the property quantifies over schedules and histories)"}},
	"C06": {Prop: "C06", World: "W3 clustersim (in situ)", Gen: GenC06, Decode: Decode, Exec: Exec,
		Rule: "in-situ part of C06: leader nodes with a log cache (sizes 0..100), snapshot/compaction cycles whose LogCompacted events travel through the engine's real event dispatch, term changes, message-size limits; a simulated follower polls Log.Replicate over real gRPC at start indices from 0 to beyond the log end; each stream is compared with the ground-truth log, the node's own compaction point and the state machine's applied index at call time (the kernel is the only runnable goroutine, so 'at call time' is exact); non-trivial = entries checked and a USE_SNAPSHOT answer or a multi-message stream; distinct = digests of streamed lengths",
		Real: w3Real, Stub: w3Stub,
		RequiredProbes: []string{"poll-entries-checked", "poll-use-snapshot", "poll-leader-behind", "poll-up-to-date", "poll-multi-message"},
		Assumptions:    []string{"compaction events are delivered before the next poll (the kernel waits for quiescence after every step)"}},
}

func TestRun(t *testing.T) { core.Main(t, Specs) }
