package clustersim

import (
	"bytes"
	"context"
	"fmt"
	"time"

	"github.com/jamf/regatta/regattapb"
	"google.golang.org/grpc/codes"
	"google.golang.org/grpc/status"
	"verif/sim/core"
	"verif/sim/fsmsim"
)

var c16Violations = []string{
	"missing-table", "missing-key", "negative-limit", "keys-and-count-only", "min-mod-revision", "max-mod-revision", "min-create-revision", "max-create-revision",
	"key-1025", "key-4096", "value-2mib+1", "unknown-table", "follower-table-create", "follower-table-delete", "create-empty-name", "delete-empty-name",
	"empty-oneof", "range-end-1025", "key-1025-with-range-end", "missing-key-with-range-end",
	// valid boundary cases: must be accepted
	"ok-key-1024", "ok-value-2mib", "ok-huge-limit",
}

var c16Methods = []string{"range", "iterate", "put", "delete", "txn"}

// GenC16 draws valid traffic mixed with requests from the grammar of violations.
func GenC16(r *core.Rand, tier string) core.Schedule {
	g := &wgen{r: r}
	cfg := &Cfg{Prop: "C16", Seed: r.Uint64()}
	g.cfg = cfg
	g.kg = fsmsim.NewKeyGen(r.Fork("keys"), false, 3)
	cfg.Keys = g.kg.Keys()
	cfg.Leaders = 1
	cfg.Followers = r.Intn(2)
	cfg.Tables = []string{"t1", "t2"}
	cfg.InitialTables = r.Range(1, 2)
	cfg.SnapshotEntries = []uint64{0, 20}[r.Intn(2)]
	cfg.CompactionOverhead = 5
	cfg.MaxInMemLogSize = 1 << 20
	cfg.PollMs, cfg.LeaseMs, cfg.ReconcileMs, cfg.LogTimeoutMs = 503, 1009, 1013, 5003
	cfg.RecoveryTypes = []int{r.Intn(2), r.Intn(2)}
	cfg.FollowerFirst = true
	var steps []Step
	if cfg.Followers > 0 {
		steps = append(steps, Step{Op: "advance", Ms: 4001})
	}
	n := r.Range(10, 30)
	for len(steps) < n {
		switch r.Pick([]int{30, 55, 15}) {
		case 0:
			steps = append(steps, g.write(r.Intn(cfg.InitialTables), 0))
		case 1:
			raw := &RawReq{Violation: c16Violations[r.Intn(len(c16Violations))], Method: c16Methods[r.Intn(len(c16Methods))], Nested: r.Chance(0.35)}
			steps = append(steps, Step{Op: "raw", F: cfg.Followers > 0 && r.Chance(0.4), T: r.Intn(cfg.InitialTables), K: g.key(), Raw: raw})
		default:
			steps = append(steps, Step{Op: "advance", Ms: []int{53, 601, 2003}[r.Intn(3)]})
		}
	}
	return &Sched{Cfg: *cfg, Steps: steps}
}

func bigBytes(n int, b byte) []byte { return bytes.Repeat([]byte{b}, n) }

// buildRaw materialises one request of the violation grammar. It returns a function performing the
// call, the set of acceptable status codes (nil = any non-OK), and whether the request is in fact valid.
func (r *run) buildRaw(n *Node, st *Step) (call func(ctx context.Context) error, allowed []codes.Code, valid bool, desc string) {
	raw := st.Raw
	table := []byte(r.table(st.T))
	key := r.kc.Key(st.K)
	val := []byte("v")
	var rangeEnd []byte
	limit := int64(0)
	keysOnly, countOnly := false, false
	var minMod, maxMod, minCreate, maxCreate int64
	kvc := r.w.kvOf(7, n)
	tc := regattapb.NewTablesClient(r.w.client(n))
	v := raw.Violation
	method := raw.Method
	nested := raw.Nested
	inval := []codes.Code{codes.InvalidArgument}
	unimpl := []codes.Code{codes.Unimplemented}
	switch v {
	case "missing-table":
		table, allowed = nil, inval
		nested = false
	case "missing-key":
		key, allowed = nil, inval
		if method == "txn" {
			nested = true
		}
	case "missing-key-with-range-end":
		// no key, but a well-formed range end (also the '\0' wildcard): a range needs its start
		key, allowed = nil, inval
		rangeEnd = []byte{0}
		if st.K%2 == 0 {
			rangeEnd = []byte("zzzz")
		}
		if method == "put" {
			method = "range"
		}
		if method == "txn" {
			nested = true
		}
	case "negative-limit":
		limit, allowed = -1, inval
		if method != "iterate" {
			method = "range"
		}
		nested = false
	case "keys-and-count-only":
		keysOnly, countOnly, allowed = true, true, inval
		if method != "iterate" {
			method = "range"
		}
		nested = false
	case "min-mod-revision", "max-mod-revision", "min-create-revision", "max-create-revision":
		switch v {
		case "min-mod-revision":
			minMod = 3
		case "max-mod-revision":
			maxMod = 3
		case "min-create-revision":
			minCreate = 3
		default:
			maxCreate = 3
		}
		allowed = unimpl
		if method != "iterate" {
			method = "range"
		}
		nested = false
	case "key-1025":
		key = bigBytes(1025, 'k')
	case "key-4096":
		key = bigBytes(4096, 'k')
	case "key-1025-with-range-end":
		key = bigBytes(1025, 'k')
		rangeEnd = []byte{0}
		if st.K%2 == 0 {
			rangeEnd = []byte("zzzz")
		}
		if method == "put" {
			method = "delete"
		}
	case "ok-huge-limit":
		// a huge limit is a valid request
		limit, valid = []int64{1 << 62, 9223372036854775807, 1 << 45}[st.K%3], true
		key, rangeEnd = []byte{0}, []byte{0}
		if method != "iterate" {
			method = "range"
		}
		nested = false
	case "range-end-1025":
		rangeEnd = bigBytes(1025, 'z')
		if method == "put" {
			method = "range"
		}
	case "value-2mib+1":
		val = bigBytes(2*1024*1024+1, 'v')
		if method != "txn" {
			method = "put"
		}
	case "unknown-table":
		table, allowed = []byte("no-such-table"), []codes.Code{codes.NotFound}
		nested = false
	case "ok-key-1024":
		key, valid = bigBytes(1024, 'k'), true
	case "ok-value-2mib":
		val, valid = bigBytes(2*1024*1024, 'v'), true
		if method != "txn" {
			method = "put"
		}
	case "follower-table-create":
		if n.cfg.Cluster != "F" {
			return nil, nil, false, ""
		}
		return func(ctx context.Context) error {
			_, err := tc.Create(ctx, &regattapb.CreateTableRequest{Name: "made-on-follower"})
			return err
		}, unimpl, false, "Tables.Create on a follower"
	case "follower-table-delete":
		if n.cfg.Cluster != "F" {
			return nil, nil, false, ""
		}
		return func(ctx context.Context) error {
			_, err := tc.Delete(ctx, &regattapb.DeleteTableRequest{Name: string(table)})
			return err
		}, unimpl, false, "Tables.Delete on a follower"
	case "create-empty-name":
		if n.cfg.Cluster != "L" {
			return nil, nil, false, ""
		}
		return func(ctx context.Context) error {
			_, err := tc.Create(ctx, &regattapb.CreateTableRequest{Name: ""})
			return err
		}, inval, false, "Tables.Create without a name"
	case "delete-empty-name":
		if n.cfg.Cluster != "L" {
			return nil, nil, false, ""
		}
		return func(ctx context.Context) error {
			_, err := tc.Delete(ctx, &regattapb.DeleteTableRequest{Name: ""})
			return err
		}, inval, false, "Tables.Delete without a name"
	case "empty-oneof":
		// an operation / predicate with nothing set: must not bring the server down; any answer
		return func(ctx context.Context) error {
			_, err := kvc.Txn(ctx, &regattapb.TxnRequest{Table: table, Compare: []*regattapb.Compare{{}}, Success: []*regattapb.RequestOp{{}}, Failure: []*regattapb.RequestOp{{}, nil}})
			return err
		}, []codes.Code{}, true, "Txn with empty oneofs"
	}
	desc = fmt.Sprintf("%s %s (nested=%v)", method, v, nested)
	if method == "txn" || nested {
		// the violating operation sits inside a transaction
		var op *regattapb.RequestOp
		switch {
		case v == "range-end-1025" && st.K%2 == 0:
			op = &regattapb.RequestOp{Request: &regattapb.RequestOp_RequestDeleteRange{RequestDeleteRange: &regattapb.RequestOp_DeleteRange{Key: key, RangeEnd: rangeEnd}}}
		case v == "range-end-1025":
			op = &regattapb.RequestOp{Request: &regattapb.RequestOp_RequestRange{RequestRange: &regattapb.RequestOp_Range{Key: key, RangeEnd: rangeEnd}}}
		case v == "value-2mib+1" || v == "ok-value-2mib" || raw.Method == "put":
			op = &regattapb.RequestOp{Request: &regattapb.RequestOp_RequestPut{RequestPut: &regattapb.RequestOp_Put{Key: key, Value: val}}}
		case raw.Method == "delete":
			op = &regattapb.RequestOp{Request: &regattapb.RequestOp_RequestDeleteRange{RequestDeleteRange: &regattapb.RequestOp_DeleteRange{Key: key, RangeEnd: rangeEnd}}}
		case raw.Method == "txn":
			op = &regattapb.RequestOp{Request: &regattapb.RequestOp_RequestPut{RequestPut: &regattapb.RequestOp_Put{Key: key, Value: val}}}
		default:
			op = &regattapb.RequestOp{Request: &regattapb.RequestOp_RequestRange{RequestRange: &regattapb.RequestOp_Range{Key: key, RangeEnd: rangeEnd}}}
		}
		// the violating operation sits in one branch only (two copies of a 2 MiB value would exceed the
		// transport's own 4 MiB message limit, which is not the limit under test)
		// ... and among well-formed neighbours of every kind, before and after it, in its own branch and in
		// the other one: a request is refused as a whole, wherever its invalid part sits
		h := core.Mix(uint64(st.K), 0x6e6269)
		neighbour := func(i uint64) *regattapb.RequestOp {
			k := []byte(fmt.Sprintf("nb-%d", i%5))
			switch core.Mix(h, i) % 4 {
			case 0:
				return &regattapb.RequestOp{Request: &regattapb.RequestOp_RequestPut{RequestPut: &regattapb.RequestOp_Put{Key: k, Value: []byte("n")}}}
			case 1:
				return &regattapb.RequestOp{Request: &regattapb.RequestOp_RequestDeleteRange{RequestDeleteRange: &regattapb.RequestOp_DeleteRange{Key: k}}}
			case 2:
				return &regattapb.RequestOp{Request: &regattapb.RequestOp_RequestDeleteRange{RequestDeleteRange: &regattapb.RequestOp_DeleteRange{Key: k, RangeEnd: []byte("nb-9")}}}
			default:
				return &regattapb.RequestOp{Request: &regattapb.RequestOp_RequestRange{RequestRange: &regattapb.RequestOp_Range{Key: k}}}
			}
		}
		var branch, other []*regattapb.RequestOp
		for i := uint64(0); i < h%4; i++ {
			branch = append(branch, neighbour(i))
		}
		branch = append(branch, op)
		for i := uint64(0); i < (h>>8)%3; i++ {
			branch = append(branch, neighbour(10+i))
		}
		for i := uint64(0); i < (h>>16)%3; i++ {
			other = append(other, neighbour(20+i))
		}
		req := &regattapb.TxnRequest{Table: table, Success: branch, Failure: other}
		if st.K%2 == 1 {
			req = &regattapb.TxnRequest{Table: table, Compare: []*regattapb.Compare{{Key: []byte("never-there"), Result: regattapb.Compare_EQUAL, TargetUnion: &regattapb.Compare_Value{Value: []byte("x")}}}, Failure: branch, Success: other}
		}
		if len(branch) > 1 || len(other) > 0 {
			r.out.Probe("raw-nested-among-valid-neighbours")
		}
		desc = "Txn with nested " + desc
		if allowed != nil && (v == "missing-key" || v == "missing-key-with-range-end") {
			allowed = nil // nested: the property demands refusal, not a particular code
		}
		return func(ctx context.Context) error { _, err := kvc.Txn(ctx, req); return err }, allowed, valid, desc
	}
	switch method {
	case "range":
		req := &regattapb.RangeRequest{Table: table, Key: key, RangeEnd: rangeEnd, Limit: limit, KeysOnly: keysOnly, CountOnly: countOnly, MinModRevision: minMod, MaxModRevision: maxMod, MinCreateRevision: minCreate, MaxCreateRevision: maxCreate}
		return func(ctx context.Context) error { _, err := kvc.Range(ctx, req); return err }, allowed, valid, desc
	case "iterate":
		req := &regattapb.RangeRequest{Table: table, Key: key, RangeEnd: rangeEnd, Limit: limit, KeysOnly: keysOnly, CountOnly: countOnly, MinModRevision: minMod, MaxModRevision: maxMod, MinCreateRevision: minCreate, MaxCreateRevision: maxCreate}
		return func(ctx context.Context) error {
			s, err := kvc.IterateRange(ctx, req)
			if err != nil {
				return err
			}
			for {
				if _, err := s.Recv(); err != nil {
					if err.Error() == "EOF" {
						return nil
					}
					return err
				}
			}
		}, allowed, valid, desc
	case "put":
		req := &regattapb.PutRequest{Table: table, Key: key, Value: val}
		return func(ctx context.Context) error { _, err := kvc.Put(ctx, req); return err }, allowed, valid, desc
	default:
		req := &regattapb.DeleteRangeRequest{Table: table, Key: key, RangeEnd: rangeEnd}
		return func(ctx context.Context) error { _, err := kvc.DeleteRange(ctx, req); return err }, allowed, valid, desc
	}
}

func (r *run) tableLogEnds() map[string]uint64 {
	out := map[string]uint64{}
	for _, s := range r.w.u.Shards() {
		if s.Key.Cluster == "L" && s.Key.ShardID > 10000 {
			n := uint64(0)
			for _, e := range r.w.u.Log("L", s.Key.ShardID) {
				if e.Regular {
					n++
				}
			}
			out[s.Key.String()] = n
		}
	}
	return out
}

func (r *run) execRaw(st *Step) {
	n := r.node(st.F, st.N)
	if n == nil || !n.up || st.Raw == nil {
		return
	}
	call, allowed, valid, desc := r.buildRaw(n, st)
	if call == nil {
		return
	}
	before := r.tableLogEnds()
	tabsBefore, _ := r.w.leaders[0].engine.GetTables()
	ctx, cancel := ctxT(10 * time.Second)
	err := call(ctx)
	cancel()
	settle()
	code := status.Code(err)
	where := fmt.Sprintf("%s sent to %s", desc, n.name)
	r.out.Probe("raw-" + st.Raw.Violation)
	if st.Raw.Nested {
		r.out.Probe("raw-nested")
	}
	if valid {
		if len(allowed) == 0 && allowed != nil {
			// anything goes (empty oneofs); only liveness matters
		} else if err != nil {
			r.fail("C16", "valid-request-refused", "valid-request-refused:"+st.Raw.Violation, "%s is within the documented limits but was refused: %v", where, err)
			return
		}
	} else {
		if err == nil {
			sig := "accepted:" + st.Raw.Violation
			if st.Raw.Nested || st.Raw.Method == "txn" {
				sig += ":nested"
			}
			r.fail("C16", "invalid-request-accepted", sig, "%s was accepted (status OK)", where)
			return
		}
		if allowed != nil {
			ok := false
			for _, c := range allowed {
				if c == code {
					ok = true
				}
			}
			if !ok {
				r.fail("C16", "wrong-status", "wrong-status:"+st.Raw.Violation+":"+code.String(), "%s answered %v, want one of %v", where, code, allowed)
				return
			}
		}
		after := r.tableLogEnds()
		for k, v := range after {
			if before[k] != v {
				r.fail("C16", "refused-request-had-effect", "refused-request-had-effect:"+st.Raw.Violation, "%s was refused (%v) but table shard %s received %d new command(s)", where, code, k, v-before[k])
				return
			}
		}
		tabsAfter, _ := r.w.leaders[0].engine.GetTables()
		if len(tabsAfter) != len(tabsBefore) {
			r.fail("C16", "refused-request-had-effect", "refused-request-changed-catalogue", "%s was refused (%v) but the table catalogue changed from %d to %d tables", where, code, len(tabsBefore), len(tabsAfter))
			return
		}
	}
	// the serving process is alive and answers a plain valid request
	c2, cancel2 := ctxT(5 * time.Second)
	_, perr := r.w.kvOf(7, n).Range(c2, &regattapb.RangeRequest{Table: []byte(r.table(0)), Key: []byte("probe")})
	cancel2()
	if perr != nil && status.Code(perr) != codes.NotFound {
		r.fail("C16", "server-unresponsive", "server-unresponsive", "after %s the node no longer answers a valid request: %v", where, perr)
	}
	r.dig.Add(uint64(code))
}
