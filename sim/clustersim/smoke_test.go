package clustersim

import (
	"testing"
	"testing/synctest"
	"time"

	"github.com/jamf/regatta/regattapb"
)

func TestSmoke(t *testing.T) {
	defer func() {
		if r := recover(); r != nil {
			t.Logf("recovered: %v", r)
		}
	}()
	synctest.Test(t, func(t *testing.T) {
		w := NewWorld(WorldCfg{Seed: 1, Leaders: 1, Followers: 1, SnapshotEntries: 10, CompactionOverhead: 2, MaxInMemLogSize: 1 << 20, PollMs: 500, LeaseMs: 1000, ReconcileMs: 2000, LogTimeoutMs: 5000})
		if err := w.StartAll(); err != nil {
			t.Fatal(err)
		}
		synctest.Wait()
		l := w.leaders[0]
		time.Sleep(200 * time.Millisecond)
		tab, err := l.engine.CreateTable("t1")
		t.Logf("create: %+v %v", tab, err)
		ctx, cancel := ctxT(5 * time.Second)
		defer cancel()
		for i := 0; i < 25; i++ {
			r, err := w.kv(l).Put(ctx, &regattapb.PutRequest{Table: []byte("t1"), Key: []byte{byte('a' + i)}, Value: []byte("v")})
			if err != nil {
				t.Fatalf("put: %v", err)
			}
			if i == 0 {
				t.Logf("put header: %+v", r.Header)
			}
		}
		start := time.Now()
		time.Sleep(20 * time.Second)
		synctest.Wait()
		f := w.follow[0]
		tabs, err := f.engine.GetTables()
		t.Logf("follower tables after %v: %+v %v", time.Since(start), tabs, err)
		rr, err := w.kv(f).Range(ctx, &regattapb.RangeRequest{Table: []byte("t1"), Key: []byte{0}, RangeEnd: []byte{0}})
		if err != nil {
			t.Logf("follower range err: %v", err)
		} else {
			t.Logf("follower range: count=%d", rr.Count)
		}
		at, err := f.engine.GetTable("t1")
		if err == nil {
			c2, cancel2 := ctxT(5 * time.Second)
			li, err := at.LeaderIndex(c2, false)
			cancel2()
			t.Logf("follower leader index: %+v %v", li, err)
		}
		t.Logf("universe stats: %v fatals: %v", w.u.Stats(), w.u.Fatals())
		for _, s := range w.u.Shards() {
			t.Logf("shard %v last=%d term=%d leader=%d replicas=%+v", s.Key, s.Last, s.Term, s.Leader, s.Replicas)
		}
		w.StopAll()
		synctest.Wait()
	})
}
