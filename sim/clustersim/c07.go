package clustersim

import (
	"crypto/md5"
	"encoding/binary"
	"encoding/hex"
	"fmt"
	"io"
	"os"
	"path/filepath"
	"sort"
	"time"

	"github.com/jamf/regatta/regattapb"
	"github.com/jamf/regatta/replication/backup"
	"github.com/klauspost/compress/snappy"
	dragonboat "github.com/lni/dragonboat/v4"
	"verif/sim/core"
	"verif/sim/fsmsim"
	"verif/sim/model"
)

type quietLog struct{}

func (quietLog) Info(args ...interface{})              {}
func (quietLog) Infof(msg string, args ...interface{}) {}

type backupRec struct {
	dir      string
	man      backup.Manifest
	captured map[string][]model.Pair
	corrupt  map[string]bool
}

// GenC07 draws backup / restore / follower-recovery scenarios.
func GenC07(r *core.Rand, tier string) core.Schedule {
	g := &wgen{r: r}
	cfg := &Cfg{Prop: "C07", Seed: r.Uint64()}
	g.cfg = cfg
	g.kg = fsmsim.NewKeyGen(r.Fork("keys"), r.Chance(0.3), 4)
	cfg.Keys = g.kg.Keys()
	cfg.Leaders = []int{1, 1, 3}[r.Intn(3)]
	cfg.Followers = []int{0, 1, 1}[r.Intn(3)]
	cfg.Tables = []string{"t1", "t2"}
	cfg.InitialTables = r.Range(1, 2)
	cfg.SnapshotEntries = []uint64{0, 4, 8, 15}[r.Intn(4)]
	cfg.CompactionOverhead = []uint64{0, 1, 2}[r.Intn(3)]
	cfg.MaxInMemLogSize = []uint64{0, 130, 160, 200, 260, 330, 400, 700, 1000, 2000, 1 << 20}[r.Intn(11)]
	cfg.LogCacheSize = []int{0, 2}[r.Intn(2)]
	cfg.PollMs, cfg.LeaseMs, cfg.ReconcileMs, cfg.LogTimeoutMs = 503, 1009, 1013, 5003
	for i := 0; i < cfg.Leaders+cfg.Followers; i++ {
		cfg.RecoveryTypes = append(cfg.RecoveryTypes, r.Intn(2))
	}
	cfg.CutPermille = []uint64{0, 400}[r.Intn(2)]
	cfg.FollowerFirst = r.Chance(0.4)
	var steps []Step
	if cfg.Leaders == 3 {
		steps = append(steps, Step{Op: "advance", Ms: 31013})
	}
	n := r.Range(8, 30)
	slots := 0
	if r.Chance(0.06) {
		// a table of a few thousand small pairs: backup file, restore stream and recovery snapshot cross several
		// 64 KiB blocks of the snappy framing and several proposal batches, with record boundaries at every
		// offset relative to them
		steps = append(steps, Step{Op: "load", T: r.Intn(cfg.InitialTables), N: r.Intn(cfg.Leaders), Cnt: r.Range(900, 3000), K: int(r.Uint64() >> 44)})
		n = r.Range(6, 14) + len(steps)
	}
	for len(steps) < n {
		t := r.Intn(cfg.InitialTables)
		switch r.Pick([]int{50, 15, 12, 12, 6, 5}) {
		case 0:
			k := r.Range(1, 7)
			for i := 0; i < k; i++ {
				st := g.write(t, r.Intn(cfg.Leaders))
				if st.Op == "put" {
					st.V.N = []int{0, 1, 7, 30, 60, 61, 62, 63, 64, 65, 100, 128, 129, 130, 200, 300}[r.Intn(16)]
				}
				steps = append(steps, st)
			}
		case 1:
			steps = append(steps, Step{Op: "advance", Ms: []int{53, 601, 4001, 9001}[r.Intn(4)]})
		case 2:
			// writes in flight while the backup streams
			if r.Chance(0.6) {
				for i, k := 0, r.Range(1, 4); i < k; i++ {
					st := g.write(t, r.Intn(cfg.Leaders))
					st.Async, st.DelayMs, st.Client = true, []int{1, 2, 3, 5}[r.Intn(4)], 3+i
					steps = append(steps, st)
				}
			}
			steps = append(steps, Step{Op: "backup", N: r.Intn(cfg.Leaders), Cnt: slots, DelayMs: []int{0, 1, 2}[r.Intn(3)]})
			slots++
		case 3:
			if slots > 0 {
				steps = append(steps, Step{Op: "restore", N: r.Intn(cfg.Leaders), Cnt: r.Intn(slots)})
			}
		case 4:
			if slots > 0 {
				steps = append(steps, Step{Op: "corrupt", Cnt: r.Intn(slots), T: t, Flip: r.Range(0, 5000)})
				steps = append(steps, Step{Op: "restore", N: r.Intn(cfg.Leaders), Cnt: slots - 1})
			}
		case 5:
			steps = append(steps, Step{Op: "snapshot", Shard: "table", T: t})
		}
	}
	return &Sched{Cfg: *cfg, Steps: steps}
}

func parseBackupFile(path string) ([]model.Pair, error) {
	f, err := os.Open(path)
	if err != nil {
		return nil, err
	}
	defer f.Close()
	rd := snappy.NewReader(f)
	var out []model.Pair
	lb := make([]byte, 8)
	for {
		if _, err := io.ReadFull(rd, lb); err != nil {
			if err == io.EOF {
				return out, nil
			}
			return nil, err
		}
		n := binary.LittleEndian.Uint64(lb)
		if n > 64<<20 {
			return nil, fmt.Errorf("record length %d", n)
		}
		buf := make([]byte, n)
		if _, err := io.ReadFull(rd, buf); err != nil {
			return nil, err
		}
		c := &regattapb.Command{}
		if err := c.UnmarshalVT(buf); err != nil {
			return nil, err
		}
		if c.Type == regattapb.Command_PUT && c.Kv != nil {
			out = append(out, model.Pair{Key: c.Kv.Key, Value: c.Kv.Value})
		}
	}
}

func (r *run) leaderTableIDs() map[string]uint64 {
	// the catalogue is read locally on a node: let every metadata replica apply what is committed first,
	// so that this observation is not a stale one
	r.w.u.CatchUp("L", 1000, 0, 0)
	for id := uint64(1); id <= 3; id++ {
		r.w.u.CatchUp("L", 1000, id, 0)
	}
	r.refreshLeaderTables()
	out := map[string]uint64{}
	for k, v := range r.leaderTables {
		out[k] = v
	}
	return out
}

func (r *run) shardLast(id uint64) uint64 {
	s, _ := r.w.u.Shard("L", id)
	return s.Last
}

func (r *run) execBackup(st *Step) {
	n := r.node(false, st.N)
	if n == nil || !n.up {
		return
	}
	ids := r.leaderTableIDs()
	start := map[string]uint64{}
	for name, id := range ids {
		start[name] = r.shardLast(id)
	}
	dir, err := os.MkdirTemp("", "verif-c07-*")
	if err != nil {
		panic(err)
	}
	r.tmpDirs = append(r.tmpDirs, dir)
	b := &backup.Backup{Conn: r.w.client(n), Dir: dir, Timeout: time.Hour, Log: quietLog{}}
	// the operator's connection is slow when asked: the backup then spans fake time in which writes land
	r.clientDelay["10.9.9.9:1"] = time.Duration(st.DelayMs) * time.Millisecond
	man, err := b.Backup()
	r.clientDelay["10.9.9.9:1"] = 0
	settle()
	if err != nil {
		r.out.Probe("backup-failed")
		return
	}
	rec := &backupRec{dir: dir, man: man, captured: map[string][]model.Pair{}, corrupt: map[string]bool{}}
	for _, mt := range man.Tables {
		pairs, err := parseBackupFile(filepath.Join(dir, mt.FileName))
		if err != nil {
			r.fail("C07", "backup-file-unreadable", "backup-file-unreadable", "backup file of table %s cannot be read back: %v", mt.Name, err)
			return
		}
		rec.captured[mt.Name] = pairs
		id, ok := ids[mt.Name]
		if !ok {
			continue
		}
		// point-in-time: the file equals the table at some log index between the start and the end of the backup
		end := r.shardLast(id)
		okAt := false
		var first string
		for i := start[mt.Name]; i <= end; i++ {
			m := r.modelAt(dragonboat.ShardKey{Cluster: "L", ShardID: id}, i)
			if m == nil {
				continue
			}
			if d := m.Diff(pairs); d == "" {
				okAt = true
				break
			} else if first == "" {
				first = d
			}
		}
		if !okAt {
			r.fail("C07", "backup-not-point-in-time", "backup-not-point-in-time", "backup of table %s (shard %d) equals the table at no log index between %d (backup started) and %d (backup finished): %s", mt.Name, id, start[mt.Name], end, first)
			return
		}
		if end > start[mt.Name] {
			r.out.Probe("backup-with-concurrent-writes")
		}
	}
	r.backups[st.Cnt] = rec
	r.out.Probe("backup-ok")
}

func (r *run) scanLeader(name string) ([]model.Pair, bool) {
	for _, n := range r.w.leaders {
		if !n.up {
			continue
		}
		ctx, cancel := ctxT(3 * time.Second)
		pairs, err := scanAll(ctx, n, name, true)
		cancel()
		if err == nil {
			return pairs, true
		}
	}
	return nil, false
}

func samePairs(a, b []model.Pair) string {
	m := model.NewKV()
	for _, p := range a {
		m.Put(p.Key, p.Value)
	}
	return m.Diff(b)
}

func (r *run) execCorrupt(st *Step) {
	rec := r.backups[st.Cnt]
	if rec == nil || len(rec.man.Tables) == 0 {
		return
	}
	mt := rec.man.Tables[st.T%len(rec.man.Tables)]
	p := filepath.Join(rec.dir, mt.FileName)
	data, err := os.ReadFile(p)
	if err != nil || len(data) == 0 {
		return
	}
	data[st.Flip%len(data)] ^= 0x20
	_ = os.WriteFile(p, data, 0o644)
	// two flips of the same byte give the original file back: corrupt means "differs from what the manifest
	// checksummed", decided from the bytes, not from the number of corrupt steps
	sum := md5.Sum(data)
	rec.corrupt[mt.Name] = hex.EncodeToString(sum[:]) != mt.MD5
	r.out.Fault("backup-file-byte-flipped")
}

func (r *run) execRestore(st *Step) {
	n := r.node(false, st.N)
	rec := r.backups[st.Cnt]
	if n == nil || !n.up || rec == nil {
		return
	}
	r.waitPending() // no client write in flight: what differs afterwards is the restore's doing
	// a restore gives the leader table a new incarnation (new shard, new log); followers of the old one
	// need an operator reset, which is outside these properties: stop comparing them for these tables
	for _, mt := range rec.man.Tables {
		r.deleted[mt.Name] = true
	}
	idsBefore := r.leaderTableIDs()
	before := map[string][]model.Pair{}
	names := make([]string, 0, len(idsBefore))
	for name := range idsBefore {
		names = append(names, name)
	}
	sort.Strings(names)
	for _, name := range names {
		if p, ok := r.scanLeader(name); ok {
			before[name] = p
		}
	}
	b := &backup.Backup{Conn: r.w.client(n), Dir: rec.dir, Timeout: time.Hour, Log: quietLog{}}
	ms0, _ := r.w.u.Shard("L", 1000)
	err := b.Restore()
	settle()
	ms1, _ := r.w.u.Shard("L", 1000)
	for _, mt := range rec.man.Tables {
		r.restoreWins[mt.Name] = append(r.restoreWins[mt.Name], [2]uint64{ms0.Last, ms1.Last})
	}
	time.Sleep(200 * time.Millisecond)
	settle()
	anyCorrupt := false
	firstCorrupt := ""
	for _, mt := range rec.man.Tables {
		if rec.corrupt[mt.Name] && !anyCorrupt {
			anyCorrupt = true
			firstCorrupt = mt.Name
		}
	}
	idsAfter := r.leaderTableIDs()
	if anyCorrupt {
		if err == nil {
			r.fail("C07", "corrupt-backup-accepted", "corrupt-backup-accepted", "restore of a backup whose file for table %s does not match its manifest checksum returned no error", firstCorrupt)
			return
		}
		// the refused table is untouched
		if pre, ok := before[firstCorrupt]; ok {
			if now, ok2 := r.scanLeader(firstCorrupt); ok2 {
				if d := samePairs(pre, now); d != "" {
					r.fail("C07", "corrupt-backup-had-effect", "corrupt-backup-had-effect", "the refused table %s changed: %s", firstCorrupt, d)
					return
				}
			}
		}
		r.out.Probe("corrupt-backup-refused")
		return
	}
	if err != nil {
		r.out.Probe("restore-failed")
		return
	}
	inManifest := map[string]bool{}
	for _, mt := range rec.man.Tables {
		inManifest[mt.Name] = true
		now, ok := r.scanLeader(mt.Name)
		if !ok {
			continue
		}
		if d := samePairs(rec.captured[mt.Name], now); d != "" {
			sig := "restore-content"
			if len(now) < len(rec.captured[mt.Name]) {
				sig += ":missing"
			} else if len(now) > len(rec.captured[mt.Name]) {
				sig += ":extra"
			}
			r.fail("C07", "restore-content", sig, "after Restore returned nil, table %s differs from the content captured in the backup (%d pairs): %s", mt.Name, len(rec.captured[mt.Name]), d)
			return
		}
		if old, had := idsBefore[mt.Name]; had {
			if idsAfter[mt.Name] == old {
				r.fail("C07", "restore-id-unchanged", "restore-id-unchanged", "table %s still has shard id %d after a restore", mt.Name, old)
				return
			}
		}
		for _, oid := range idsBefore {
			if idsAfter[mt.Name] != 0 && idsAfter[mt.Name] <= oid {
				r.fail("C14", "id-not-increasing", "restore-id-not-increasing", "restored table %s got shard id %d although id %d was in use before", mt.Name, idsAfter[mt.Name], oid)
				return
			}
		}
		r.out.Probe("restore-checked")
		if len(rec.captured[mt.Name]) >= 2 {
			r.out.Probe("restore-multi-pair")
		}
	}
	for _, name := range names {
		if inManifest[name] {
			continue
		}
		if now, ok := r.scanLeader(name); ok {
			if d := samePairs(before[name], now); d != "" {
				r.fail("C07", "restore-touched-other-table", "restore-touched-other-table", "table %s is not part of the backup but changed during the restore: %s", name, d)
				return
			}
		}
	}
	r.dig.Add(uint64(len(rec.man.Tables)))
}
