package clustersim

import (
	"fmt"
	"io"
	"time"

	"github.com/jamf/regatta/regattapb"
	dragonboat "github.com/lni/dragonboat/v4"
	"google.golang.org/grpc/codes"
	"google.golang.org/grpc/status"
	"google.golang.org/protobuf/proto"
	"verif/sim/core"
	"verif/sim/fsmsim"
)

// GenC06 draws leader histories with log compaction and a log cache, polled in situ by a simulated
// follower at arbitrary start indices (the W2 harness decides the reader in isolation; this part sees
// the cache invalidation travel through the engine's real event dispatch).
func GenC06(r *core.Rand, tier string) core.Schedule {
	g := &wgen{r: r}
	cfg := &Cfg{Prop: "C06", Seed: r.Uint64()}
	g.cfg = cfg
	g.kg = fsmsim.NewKeyGen(r.Fork("keys"), false, 3)
	cfg.Keys = g.kg.Keys()
	cfg.Leaders = []int{1, 1, 3}[r.Intn(3)]
	cfg.Followers = 0
	cfg.Tables = []string{"t1"}
	cfg.InitialTables = 1
	cfg.SnapshotEntries = []uint64{0, 6, 12}[r.Intn(3)]
	cfg.CompactionOverhead = []uint64{0, 2, 5}[r.Intn(3)]
	cfg.MaxInMemLogSize = 1 << 20
	cfg.LogCacheSize = []int{0, 1, 3, 8, 100, 100}[r.Intn(6)]
	cfg.MaxMsg = []uint64{0, 0, 150, 400, 5000}[r.Intn(5)]
	cfg.PollMs, cfg.LeaseMs, cfg.ReconcileMs, cfg.LogTimeoutMs = 503, 1009, 1013, 5003
	cfg.RecoveryTypes = []int{r.Intn(2), r.Intn(2), r.Intn(2)}
	cfg.CutPermille = []uint64{0, 400}[r.Intn(2)]
	var steps []Step
	if cfg.Leaders == 3 {
		steps = append(steps, Step{Op: "advance", Ms: 31013})
	}
	n := r.Range(10, 40)
	writes := 0
	for len(steps) < n {
		switch r.Pick([]int{40, 40, 8, 6, 6}) {
		case 0:
			for i, k := 0, r.Range(1, 5); i < k; i++ {
				steps = append(steps, g.write(0, r.Intn(cfg.Leaders)))
				writes++
			}
		case 1:
			st := Step{Op: "poll", N: r.Intn(cfg.Leaders)}
			// start index: anywhere from 0 to a little beyond what can have been written
			hi := writes + 6
			switch r.Intn(5) {
			case 0:
				st.Cnt = r.Range(0, 3)
			case 1:
				st.Cnt = hi + r.Range(0, 3)
			default:
				st.Cnt = r.Range(1, hi)
			}
			steps = append(steps, st)
		case 2:
			steps = append(steps, Step{Op: "snapshot", Shard: "table", Replica: 0})
		case 3:
			steps = append(steps, Step{Op: "advance", Ms: []int{1, 53, 601}[r.Intn(3)]})
		case 4:
			steps = append(steps, Step{Op: "leaderchange", Shard: "table"})
		}
	}
	return &Sched{Cfg: *cfg, Steps: steps}
}

// execPoll performs one Log.Replicate call against a leader node and compares the stream with the
// ground-truth log as it stands (nothing else runs: the kernel is the only runnable goroutine).
func (r *run) execPoll(st *Step) {
	n := r.node(false, st.N)
	if n == nil || !n.up {
		return
	}
	name := r.table(st.T)
	sid, ok := r.leaderTables[name]
	if !ok {
		return
	}
	ss, ok := r.w.u.Shard("L", sid)
	if !ok || ss.Leader == 0 {
		return
	}
	rep, ok := ss.Replicas[n.cfg.ID]
	if !ok || !rep.Running || rep.Lagging {
		return
	}
	log := r.w.u.Log("L", sid)
	applied := uint64(0) // what the table's state machine reports: the last command entry
	for _, e := range log {
		if e.Regular {
			applied = e.Index
		}
	}
	start := uint64(st.Cnt)
	ctx, cancel := ctxT(5 * time.Second)
	defer cancel()
	stream, err := regattapb.NewLogClient(r.w.client(n)).Replicate(ctx, &regattapb.ReplicateRequest{Table: []byte(name), LeaderIndex: start})
	var msgs []*regattapb.ReplicateResponse
	if err == nil {
		for {
			m, rerr := stream.Recv()
			if rerr == io.EOF {
				break
			}
			if rerr != nil {
				err = rerr
				break
			}
			msgs = append(msgs, m)
		}
	}
	where := fmt.Sprintf("Replicate(start=%d) on %s (log of shard %d: first available %d, last %d, applied %d; cache %d, max message %d)", start, n.name, sid, rep.Marker+1, ss.Last, applied, r.cfg.LogCacheSize, r.cfg.MaxMsg)
	r.out.Probe("poll")
	if start == 0 {
		if status.Code(err) != codes.InvalidArgument {
			r.fail("C06", "zero-index", "zero-index", "%s: want InvalidArgument, got %v", where, err)
		}
		return
	}
	if err != nil {
		if status.Code(err) == codes.Unavailable || status.Code(err) == codes.DeadlineExceeded {
			return
		}
		r.fail("C06", "replicate-error", "replicate-error", "%s: %v", where, err)
		return
	}
	if len(msgs) == 0 {
		r.fail("C06", "no-message", "no-message", "%s: no message", where)
		return
	}
	last := msgs[len(msgs)-1]
	terminal := "up-to-date"
	if e := last.GetErrorResponse(); e != nil {
		terminal = e.Error.String()
	} else if cr := last.GetCommandsResponse(); cr != nil && len(cr.Commands) > 0 {
		r.fail("C06", "terminal", "no-terminal-message", "%s: the stream does not end with the index message or an error response", where)
		return
	}
	var cmds []*regattapb.ReplicateCommand
	for _, m := range msgs[:len(msgs)-1] {
		cr := m.GetCommandsResponse()
		if cr == nil || len(cr.Commands) == 0 {
			r.fail("C06", "empty-mid-message", "empty-mid-message", "%s: a message that is not the last carries no command", where)
			return
		}
		cmds = append(cmds, cr.Commands...)
	}
	switch {
	case start > applied+1:
		if terminal != "LEADER_BEHIND" || len(cmds) > 0 {
			r.fail("C06", "beyond-applied", "beyond-applied", "%s: want LEADER_BEHIND, got %s after %d commands", where, terminal, len(cmds))
		}
		r.out.Probe("poll-leader-behind")
		return
	case start == applied+1:
		if terminal != "up-to-date" || len(cmds) > 0 || last.LeaderIndex != applied {
			r.fail("C06", "at-applied+1", "at-applied+1", "%s: want one empty message carrying %d, got %s, %d commands, index %d", where, applied, terminal, len(cmds), last.LeaderIndex)
		}
		r.out.Probe("poll-up-to-date")
		return
	case start <= rep.Marker:
		if terminal != "USE_SNAPSHOT" || len(cmds) > 0 {
			r.fail("C06", "compacted", "compacted-not-use-snapshot", "%s: the requested index is compacted, want USE_SNAPSHOT, got %s after %d commands", where, terminal, len(cmds))
		}
		r.out.Probe("poll-use-snapshot")
		return
	}
	if terminal != "up-to-date" {
		r.fail("C06", "spurious-terminal", "spurious-"+terminal, "%s: terminal %s although the index is in the log", where, terminal)
		return
	}
	if uint64(len(cmds)) != applied-start+1 {
		r.fail("C06", "stream-ended-early", "stream-ended-early", "%s: delivered %d of %d entries", where, len(cmds), applied-start+1)
		return
	}
	key := dragonboat.ShardKey{Cluster: "L", ShardID: sid}
	_ = key
	for i, c := range cmds {
		want := start + uint64(i)
		if c.LeaderIndex != want {
			r.fail("C06", "index-labels", "index-labels", "%s: command %d labelled %d, want %d", where, i, c.LeaderIndex, want)
			return
		}
		e := log[want-1]
		exp := &regattapb.Command{Type: regattapb.Command_DUMMY}
		if e.Regular {
			exp = &regattapb.Command{}
			if err := exp.UnmarshalVT(e.Payload); err != nil {
				panic(err)
			}
		}
		idx := want
		exp.LeaderIndex = &idx
		if !proto.Equal(exp, c.Command) {
			r.fail("C06", "command-content", "command-content", "%s: entry %d streamed as %v, the log holds %v", where, want, c.Command, exp)
			return
		}
	}
	if len(msgs) > 2 {
		r.out.Probe("poll-multi-message")
	}
	r.out.Probe("poll-entries-checked")
	r.dig.Add(uint64(len(cmds)))
}
