package clustersim

import (
	"fmt"
	"os"

	"go.uber.org/zap"
	"sort"
	"time"

	dragonboat "github.com/lni/dragonboat/v4"
	"verif/sim/core"
	"verif/sim/crashfs"
	"verif/sim/fsmsim"
	"verif/sim/simnet"
)

// Exec executes one W3 schedule inside a synctest bubble.
func Exec(s core.Schedule) *core.Outcome {
	sc := s.(*Sched)
	cfg := &sc.Cfg
	out := core.NewOutcome()
	if os.Getenv("VERIF_LOG") == "1" {
		l, _ := zap.NewDevelopment()
		zap.ReplaceGlobals(l)
	}
	r := &run{sc: sc, cfg: cfg, out: out, models: map[dragonboat.ShardKey]*shardModel{}, lastL: map[string]uint64{}, seenL: map[string]map[uint64]bool{}, onceChecked: map[uint64]uint64{}, onceLast: map[uint64]uint64{},
		blocked: map[string]bool{}, clientDelay: map[string]time.Duration{}, backups: map[int]*backupRec{}, restoreWins: map[string][][2]uint64{}, leaseTasks: map[string]*leaseTask{}, leaderTables: map[string]uint64{}, deleted: map[string]bool{}, start: time.Now()}
	r.kc = &fsmsim.Cfg{Keys: cfg.Keys}
	w := NewWorld(WorldCfg{Seed: cfg.Seed, Leaders: cfg.Leaders, Followers: cfg.Followers, SnapshotEntries: cfg.SnapshotEntries, CompactionOverhead: cfg.CompactionOverhead,
		MaxInMemLogSize: cfg.MaxInMemLogSize, LogCacheSize: cfg.LogCacheSize, MaxMsg: cfg.MaxMsg, PollMs: cfg.PollMs, LeaseMs: cfg.LeaseMs, ReconcileMs: cfg.ReconcileMs,
		LogTimeoutMs: cfg.LogTimeoutMs, RecoveryTypes: cfg.RecoveryTypes, CutPermille: cfg.CutPermille})
	r.w = w
	w.u.BusyPermille, w.u.DropPermille, w.u.TimeoutLostPermille, w.u.TimeoutAppliedPermille = cfg.BusyPermille, cfg.DropPermille, cfg.TOLostPermille, cfg.TOAppliedPermille
	w.u.TimeoutLatePermille, w.u.TimeoutLateMaxMs = cfg.TOLatePermille, cfg.TOLateMaxMs
	if os.Getenv("VERIF_LOG") == "2" || os.Getenv("VERIF_LOG") == "4" {
		// kept in memory and printed when the run is over: writing to a file descriptor inside the run is a
		// system call, and the run would not be the one without logging any more
		var evlog []string
		w.u.OnEvent = func(e string) {
			evlog = append(evlog, fmt.Sprintf("EVT %s %s draws=%d", time.Now().Format("04:05.000"), e, core.RuntimeDraws()))
		}
		r.trace = func(f string, a ...any) {
			evlog = append(evlog, fmt.Sprintf("TRC %s ", time.Now().Format("04:05.000"))+fmt.Sprintf(f, a...))
		}
		defer func() {
			for _, l := range evlog {
				fmt.Fprintln(os.Stderr, l)
			}
		}()
	}
	w.u.Yield = core.Yield
	w.u.GoID = core.GoID
	crashfs.Yield, simnet.Yield = core.Yield, core.Yield
	w.u.FaultMinShard = 10000 // metadata shards are not subjected to proposal faults
	w.u.ReadBusyPermille = cfg.ReadBusyPermille
	w.noReplication = cfg.NoReplication
	if cfg.Prop == "C15" {
		r.installLeaseGate()
	}
	w.net.Delay = func(from, to string) time.Duration {
		if d, ok := r.clientDelay[from]; ok && d > 0 {
			return d
		}
		if d, ok := r.clientDelay[to]; ok && d > 0 {
			return d
		}
		return r.netDelay
	}
	w.net.Blocked = func(from, to string) bool { return r.blocked[from] || r.blocked[to] }
	defer func() {
		for _, d := range r.tmpDirs {
			_ = os.RemoveAll(d)
		}
		w.u.Gate = nil
		w.StopAll()
		settle()
		dragonboat.SetUniverse(nil)
	}()
	// leaders first; followers after or before the initial tables exist
	for i, n := range w.leaders {
		// staggered starts: the periodic loops of different nodes never tick at the same fake instant
		time.Sleep(time.Duration(1000+37*i) * time.Microsecond)
		if err := n.start(); err != nil {
			out.Fail("HARNESS", "start", "start", 0, "leader %s: %v", n.name, err)
			return out
		}
	}
	settle()
	time.Sleep(150 * time.Millisecond)
	startFollowers := func() bool {
		for i, n := range w.follow {
			if n.up {
				continue
			}
			time.Sleep(time.Duration(700+53*i) * time.Microsecond)
			if err := n.start(); err != nil {
				out.Fail("HARNESS", "start", "start", 0, "follower %s: %v", n.name, err)
				return false
			}
		}
		return true
	}
	if cfg.FollowerFirst && !startFollowers() {
		return out
	}
	for i := 0; i < cfg.InitialTables && i < len(cfg.Tables); i++ {
		if _, err := w.leaders[0].engine.CreateTable(cfg.Tables[i]); err != nil {
			out.Fail("HARNESS", "create-initial", "create-initial", 0, "create %s: %v", cfg.Tables[i], err)
			return out
		}
	}
	settle()
	r.refreshLeaderTables()
	if ms, ok := w.u.Shard("L", 1000); ok {
		r.metaBaseline = ms.Last
	}
	followersUp := cfg.FollowerFirst
	for i := range sc.Steps {
		if r.failed() {
			break
		}
		r.step = i
		st := &sc.Steps[i]
		if st.Op == "startfollowers" {
			if !followersUp {
				followersUp = true
				if !startFollowers() {
					return out
				}
			}
		} else {
			r.execStep(st)
		}
		settle()
		r.checkFatals()
		r.observeFollowers(false)
	}
	r.step = len(sc.Steps)
	if !followersUp && !r.failed() {
		if !startFollowers() {
			return out
		}
	}
	if cfg.Prop == "C06" {
		r.waitPending()
		r.checkFatals()
	} else if cfg.Prop == "C15" {
		r.drainLeaseTasks()
		settle()
		r.checkFatals()
		r.checkLeases()
	} else if cfg.Prop == "C14" {
		r.waitPending()
		// quiet period: heal, then two reconcile periods (30 s each, hard-wired in table.Manager)
		for _, n := range w.nodes() {
			if !n.up {
				_ = n.start()
			}
		}
		for _, s := range w.u.Shards() {
			for id, rep := range s.Replicas {
				if rep.Lagging {
					w.u.SetLag(s.Key.Cluster, s.Key.ShardID, id, false)
				}
			}
		}
		w.u.CatchUpAll()
		time.Sleep(300 * time.Millisecond)
		settle()
		r.checkFatals()
		r.checkCatalogue()
		time.Sleep(61 * time.Second)
		settle()
		w.u.CatchUpAll()
		settle()
		r.checkFatals()
		r.checkReconciled()
	} else if cfg.Prop == "C11" {
		// every forwarded write has a deadline: let them all be answered, then heal, converge, and ask again
		for k := 0; k < 120; k++ {
			pending := false
			for _, op := range r.fwd {
				if !op.done {
					pending = true
				}
			}
			if !pending {
				break
			}
			time.Sleep(250 * time.Millisecond)
			settle()
		}
		r.checkFatals()
		r.checkForwarded()
		if !r.failed() {
			r.finalLiveness()
			r.finalForwarded()
		}
	} else if cfg.Prop == "C10" {
		r.waitPending()
		r.checkFatals()
		r.checkHistory()
	} else if !r.failed() {
		r.waitPending()
		r.finalLiveness()
	}
	r.finish()
	return out
}

func (r *run) checkFatals() {
	if fs := r.w.u.Fatals(); len(fs) > 0 && !r.failed() {
		r.fail("C01", "state-machine-fatal", "state-machine-fatal", "a state machine call failed or panicked; a real node would have halted: %v", fs)
	}
}

// finalLiveness: once faults stop and leader writes stop, every follower node reaches the leader's
// latest state and the follower's table set equals the leader's (C05 O3). The budget is derived from
// the run's own intervals and is deliberately generous: it is a bound for "never", not a performance
// statement.
func (r *run) finalLiveness() {
	w := r.w
	if len(w.follow) == 0 {
		return
	}
	// heal
	r.netDelay, r.delay = 0, 0
	for k := range r.blocked {
		delete(r.blocked, k)
	}
	for _, n := range w.nodes() {
		if !n.up {
			if err := n.start(); err != nil {
				r.fail("C04", "node-restart-failed", "node-restart-failed", "node %s cannot restart: %v", n.name, err)
				return
			}
		}
	}
	for _, s := range w.u.Shards() {
		for id, rep := range s.Replicas {
			if rep.Lagging {
				w.u.SetLag(s.Key.Cluster, s.Key.ShardID, id, false)
			}
			if rep.Stalled {
				w.u.SetStalled(s.Key.Cluster, s.Key.ShardID, id, false)
			}
		}
	}
	w.u.BusyPermille, w.u.DropPermille, w.u.TimeoutLostPermille, w.u.TimeoutAppliedPermille = 0, 0, 0, 0
	w.u.TimeoutLatePermille = 0
	w.u.CatchUpAll()
	settle()
	c := r.cfg
	unit := time.Duration(c.ReconcileMs+c.PollMs*12+c.LeaseMs*6+c.LogTimeoutMs) * time.Millisecond
	budget := 12*unit + 90*time.Second
	deadline := time.Now().Add(budget)
	var why string
	for time.Now().Before(deadline) && !r.failed() {
		time.Sleep(unit / 4)
		settle()
		r.checkFatals()
		r.observeFollowers(true)
		if why = r.converged(); why == "" {
			r.out.Probe("converged")
			break
		}
	}
	if r.failed() {
		return
	}
	if why != "" {
		sig := "no-convergence"
		if i := indexByte(why, ':'); i > 0 {
			sig += ":" + why[:i]
		}
		r.fail("C05", "no-convergence", sig, "%v of fault-free fake time after the last leader write the follower cluster has not reached the leader's state: %s", budget, why)
	}
}

func indexByte(s string, b byte) int {
	for i := 0; i < len(s); i++ {
		if s[i] == b {
			return i
		}
	}
	return -1
}

// converged reports "" when every follower node has the leader's table set and, for each table, the
// leader's latest state and index.
func (r *run) converged() string {
	w := r.w
	r.refreshLeaderTables()
	names := make([]string, 0, len(r.leaderTables))
	for n := range r.leaderTables {
		names = append(names, n)
	}
	sort.Strings(names)
	for _, n := range w.follow {
		tabs, err := n.engine.GetTables()
		if err != nil {
			return "tables: " + err.Error()
		}
		have := map[string]bool{}
		for _, t := range tabs {
			have[t.Name] = true
			if _, ok := r.leaderTables[t.Name]; !ok {
				return fmt.Sprintf("table-set: follower %s still has table %s which the leader does not have", n.name, t.Name)
			}
		}
		for _, name := range names {
			if !have[name] {
				return fmt.Sprintf("table-set: follower %s lacks table %s", n.name, name)
			}
			if r.deleted[name] {
				continue
			}
			// the leader's latest state: the applied index its own state machine reports (linearizable)
			var leaderIdx uint64
			gotLeader := false
			for _, ln := range w.leaders {
				if !ln.up {
					continue
				}
				lat, err := ln.engine.GetTable(name)
				if err != nil {
					continue
				}
				lctx, lcancel := ctxT(2 * time.Second)
				lli, err := lat.LocalIndex(lctx, true)
				lcancel()
				if err == nil {
					leaderIdx, gotLeader = lli.Index, true
					break
				}
			}
			if !gotLeader {
				return "leader: cannot read the leader's applied index of " + name
			}
			ctx, cancel := ctxT(2 * time.Second)
			at, err := n.engine.GetTable(name)
			if err != nil {
				cancel()
				return "table: " + err.Error()
			}
			li, err := at.LeaderIndex(ctx, false)
			cancel()
			if err != nil {
				return "leader-index: " + err.Error()
			}
			if li.Index != leaderIdx {
				return fmt.Sprintf("behind: follower %s table %s stands at leader index %d, the leader's applied index is %d", n.name, name, li.Index, leaderIdx)
			}
		}
	}
	return ""
}

func (r *run) finish() {
	out := r.out
	for k, v := range r.w.u.Stats() {
		switch k {
		case "snapshot-install", "log-compaction", "leader-elected", "leader-lost", "proposal-busy", "proposal-dropped", "proposal-timeout-lost", "proposal-timeout-applied", "proposal-timeout-late", "proposal-no-leader", "proposal-on-stalled-replica":
			out.Faults["raft-"+k] += v
		default:
			out.Probes["raft-"+k] += v
		}
	}
	out.Probes["net-dials"] += int64(r.w.net.Dials)
	for _, n := range r.w.nodes() {
		if n.abandoned > 0 {
			out.Probes["replication-close-never-returned"] += int64(n.abandoned)
		}
	}
	switch r.cfg.Prop {
	case "C11":
		out.NonTrivial = out.Probes["forwarded-waited"] > 0 && out.Probes["forwarded-acknowledged"] >= 2
	case "C05":
		out.NonTrivial = out.Probes["follower-advanced"] >= 2 && len(out.Faults) > 0
	case "C10":
		out.NonTrivial = out.Probes["raft-linearizable-read-on-lagging-replica"] > 0 || out.Probes["overlapping-calls"] > 0
	case "C06":
		out.NonTrivial = out.Probes["poll-entries-checked"] > 0 && (out.Probes["poll-use-snapshot"] > 0 || out.Probes["poll-multi-message"] > 0)
	case "C07":
		out.NonTrivial = out.Probes["restore-multi-pair"] > 0 || out.Probes["backup-with-concurrent-writes"] > 0 || out.Faults["raft-snapshot-install"] > 0
	case "C15":
		out.NonTrivial = out.Probes["calls-overlapped-between-read-and-write"] > 0
	default:
		out.NonTrivial = true
	}
	out.Digest = r.dig.Sum()
	out.Steps = len(r.sc.Steps)
	out.SimMs = time.Since(r.start).Milliseconds()
}
