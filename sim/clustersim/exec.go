package clustersim

import (
	"context"
	"encoding/json"
	"fmt"
	"os"
	"runtime/debug"
	"sort"
	"strings"
	"testing/synctest"
	"time"

	"github.com/jamf/regatta/regattapb"
	"github.com/jamf/regatta/replication"
	dragonboat "github.com/lni/dragonboat/v4"
	"verif/sim/core"
	"verif/sim/fsmsim"
	"verif/sim/model"
)

type shardModel struct {
	states []*model.KV // states[i] = content after log index i
}

type histOp struct {
	client  int
	node    string
	kind    string // put del txn range txnro
	lin     bool
	req     any
	call    int
	ret     int // 0 = never returned
	resp    any
	err     error
	lastAt  uint64 // ground truth: shard last index when the call started
	lastRet uint64 // ground truth: shard last index when the call returned
	shard   uint64
}

type run struct {
	sc           *Sched
	cfg          *Cfg
	kc           *fsmsim.Cfg
	w            *World
	out          *core.Outcome
	dig          core.Digest
	step         int
	models       map[dragonboat.ShardKey]*shardModel
	lastL        map[string]uint64
	seenL        map[string]map[uint64]bool
	trace        func(f string, a ...any) // VERIF_LOG=2: in-memory trace line
	fwd          []*fwdOp                 // C11 in situ: writes sent to follower nodes' own API
	onceChecked  map[uint64]uint64        // follower shard -> log index the once-in-order oracle has read up to
	onceLast     map[uint64]uint64        // follower shard -> leader index of the last replicated proposal seen
	hist         []*histOp
	seq          int
	faulted      bool
	delay        time.Duration
	netDelay     time.Duration
	clientDelay  map[string]time.Duration
	cat          []*catOp
	recoverIDs   map[string]uint64
	metaBaseline uint64
	restoreWins  map[string][][2]uint64
	backups      map[int]*backupRec
	tmpDirs      []string
	leaseTasks   map[string]*leaseTask
	leaseHist    []*leaseTask
	blocked      map[string]bool
	start        time.Time
	leaderTables map[string]uint64 // name -> current leader shard id, as last observed
	deleted      map[string]bool
}

func (r *run) fail(prop, oracle, sig, f string, a ...any) {
	if r.cfg.Prop == "C07" && prop == "C05" {
		// in C07 runs the follower-vs-leader oracle decides the snapshot-recovery half of C07
		prop = "C07"
	}
	if oracle == "state-machine-fatal" {
		// a state machine that failed or panicked halts its replica: whatever this run's property is, it
		// cannot hold on a node that stopped applying
		prop = r.cfg.Prop
	}
	if prop != r.cfg.Prop && prop != "HARNESS" {
		// an oracle of another property, watched here as well: counted, but it must not end the run
		// before this property's own oracles have looked (its own check reports it)
		r.out.Probe("other-property:" + prop + "/" + oracle)
		return
	}
	r.out.Fail(prop, oracle, sig, r.step, f, a...)
}
func (r *run) failed() bool { return r.out.Violation != nil }

func (r *run) node(f bool, i int) *Node {
	ns := r.w.leaders
	if f {
		ns = r.w.follow
	}
	if len(ns) == 0 {
		return nil
	}
	if i < 0 {
		i = 0
	}
	return ns[i%len(ns)]
}

func (r *run) table(i int) string {
	if i < 0 {
		i = 0
	}
	return r.cfg.Tables[i%len(r.cfg.Tables)]
}

func settle() { synctest.Wait() }

// modelAt returns the content of a shard after its ground-truth log index idx.
func (r *run) modelAt(key dragonboat.ShardKey, idx uint64) *model.KV {
	m := r.models[key]
	if m == nil {
		m = &shardModel{states: []*model.KV{model.NewKV()}}
		r.models[key] = m
	}
	if uint64(len(m.states)) <= idx {
		log := r.w.u.Log(key.Cluster, key.ShardID)
		for i := uint64(len(m.states)); i <= idx && i <= uint64(len(log)); i++ {
			st := m.states[i-1]
			e := log[i-1]
			if e.Regular {
				cmd := &regattapb.Command{}
				if err := cmd.UnmarshalVT(e.Payload); err != nil {
					panic(fmt.Sprintf("ground-truth log entry %d of %v does not decode: %v", i, key, err))
				}
				st = st.Clone()
				st.Apply(cmd)
			}
			m.states = append(m.states, st)
		}
	}
	if idx >= uint64(len(m.states)) {
		return nil
	}
	return m.states[idx]
}

func guard(f func()) (pv any, stack string) {
	defer func() {
		if r := recover(); r != nil {
			pv, stack = r, string(debug.Stack())
		}
	}()
	f()
	return
}

func repoFrame(stack string) string {
	for _, ln := range strings.Split(stack, "\n") {
		ln = strings.TrimSpace(ln)
		if strings.HasPrefix(ln, "github.com/jamf/regatta/") {
			if i := strings.LastIndex(ln, "("); i > 0 {
				ln = ln[:i]
			}
			return strings.TrimPrefix(ln, "github.com/jamf/regatta/")
		}
	}
	return "?"
}

// ---- kv calls ---------------------------------------------------------------------

func (r *run) rangeReq(st *Step) *regattapb.RangeRequest {
	o := &fsmsim.OpSpec{T: "range", K: st.K, E: st.E, Limit: st.Limit, KeysOnly: st.KeysOnly, CountOnly: st.CountOnly}
	rr := r.kc.ReqRange(o)
	return &regattapb.RangeRequest{Table: []byte(r.table(st.T)), Key: rr.Key, RangeEnd: rr.RangeEnd, Limit: rr.Limit, KeysOnly: rr.KeysOnly, CountOnly: rr.CountOnly, Linearizable: st.Lin}
}

func (r *run) txnReq(st *Step) *regattapb.TxnRequest {
	cmp, succ, fail := r.kc.TxnParts(st.Txn)
	return &regattapb.TxnRequest{Table: []byte(r.table(st.T)), Compare: cmp, Success: succ, Failure: fail}
}

// kvCall performs one client call through gRPC and records it.
func (r *run) kvCall(n *Node, st *Step, timeout time.Duration) *histOp {
	h := &histOp{client: st.Client, node: n.name, kind: st.Op, lin: st.Lin}
	r.seq++
	h.call = r.seq
	tname := r.table(st.T)
	if id, ok := r.leaderTables[tname]; ok && !st.F {
		h.shard = id
		if s, ok := r.w.u.Shard("L", id); ok {
			h.lastAt = s.Last
		}
	}
	r.hist = append(r.hist, h)
	do := func() {
		ctx, cancel := ctxT(timeout)
		defer cancel()
		kv := r.w.kvOf(st.Client, n)
		switch st.Op {
		case "put":
			req := &regattapb.PutRequest{Table: []byte(tname), Key: r.kc.Key(st.K), Value: st.V.Bytes(), PrevKv: st.Prev}
			h.req = req
			h.resp, h.err = kv.Put(ctx, req)
		case "del":
			req := &regattapb.DeleteRangeRequest{Table: []byte(tname), Key: r.kc.Key(st.K), RangeEnd: r.kc.Key(st.E), PrevKv: st.Prev, Count: st.Count}
			h.req = req
			h.resp, h.err = kv.DeleteRange(ctx, req)
		case "txn", "txnro":
			req := r.txnReq(st)
			h.req = req
			h.resp, h.err = kv.Txn(ctx, req)
		case "range":
			req := r.rangeReq(st)
			h.req = req
			h.resp, h.err = kv.Range(ctx, req)
		}
		r.seq++
		h.ret = r.seq
		if h.shard != 0 {
			if s, ok := r.w.u.Shard("L", h.shard); ok {
				h.lastRet = s.Last
			}
		}
	}
	if st.Async {
		go do()
	} else {
		do()
	}
	return h
}

// ---- observation (C05 O1/O2) ----------------------------------------------------------

func (r *run) refreshLeaderTables() {
	for _, n := range r.w.leaders {
		if !n.up {
			continue
		}
		tabs, err := n.engine.GetTables()
		if err != nil {
			continue
		}
		m := map[string]uint64{}
		for _, t := range tabs {
			if t.ClusterID != 0 {
				m[t.Name] = t.ClusterID
			}
		}
		// take the view of the most advanced metadata replica: the one with the most tables known is
		// not necessarily right, so prefer the metadata leader's host when it is up
		r.leaderTables = m
		if s, ok := r.w.u.Shard("L", 1000); ok && s.Leader == n.cfg.ID {
			return
		}
	}
}

func scanAll(ctx context.Context, n *Node, name string, lin bool) ([]model.Pair, error) {
	at, err := n.engine.GetTable(name)
	if err != nil {
		return nil, err
	}
	var out []model.Pair
	key := []byte{0}
	for {
		resp, err := at.Range(ctx, &regattapb.RangeRequest{Table: []byte(name), Key: key, RangeEnd: []byte{0}, Linearizable: lin})
		if err != nil {
			return nil, err
		}
		for _, kv := range resp.Kvs {
			out = append(out, model.Pair{Key: kv.Key, Value: kv.Value})
		}
		if !resp.More || len(resp.Kvs) == 0 {
			return out, nil
		}
		key = append(append([]byte(nil), resp.Kvs[len(resp.Kvs)-1].Key...), 0)
	}
}

// observeFollowers checks, on every follower node, that every replicated table equals the leader
// table at the leader index the follower has recorded, and that this index does not move backwards.
func (r *run) observeFollowers(final bool) {
	if r.failed() || len(r.w.follow) == 0 {
		return
	}
	r.refreshLeaderTables()
	for _, n := range r.w.follow {
		if !n.up {
			continue
		}
		tabs, err := n.engine.GetTables()
		if err != nil {
			continue
		}
		sort.Slice(tabs, func(i, j int) bool { return tabs[i].Name < tabs[j].Name })
		for _, t := range tabs {
			lid, ok := r.leaderTables[t.Name]
			if !ok || t.ClusterID == 0 || r.deleted[t.Name] {
				continue
			}
			if !r.checkOnceInOrder(t.Name, t.ClusterID) {
				return
			}
			for _, lin := range []bool{false, true} {
				ctx, cancel := ctxT(2 * time.Second)
				at, err := n.engine.GetTable(t.Name)
				if err != nil {
					cancel()
					continue
				}
				li, err := at.LeaderIndex(ctx, lin)
				if err != nil {
					cancel()
					continue
				}
				pairs, err := scanAll(ctx, n, t.Name, lin)
				cancel()
				if err != nil {
					continue
				}
				mode := "local"
				if lin {
					mode = "linearizable"
				}
				L := li.Index
				key := dragonboat.ShardKey{Cluster: "L", ShardID: lid}
				want := r.modelAt(key, L)
				if want == nil {
					r.fail("C05", "leader-index-ahead", "leader-index-ahead", "follower %s table %s (%s read): recorded leader index %d is beyond the leader's log", n.name, t.Name, mode, L)
					return
				}
				if d := want.Diff(pairs); d != "" {
					if os.Getenv("VERIF_LOG") != "" {
						for _, s := range r.w.u.Shards() {
							fmt.Fprintf(os.Stderr, "DBG shard %v last=%d leader=%d %+v\n", s.Key, s.Last, s.Leader, s.Replicas)
						}
						for _, e := range r.w.u.Log("F", t.ClusterID) {
							c := &regattapb.Command{}
							if e.Regular {
								_ = c.UnmarshalVT(e.Payload)
							}
							li := int64(-1)
							if c.LeaderIndex != nil {
								li = int64(*c.LeaderIndex)
							}
							fmt.Fprintf(os.Stderr, "DBG F/%d entry %d regular=%v type=%v li=%d nseq=%d nbatch=%d\n", t.ClusterID, e.Index, e.Regular, c.Type, li, len(c.Sequence), len(c.Batch))
						}
					}
					sig := "content-vs-leader-index:" + mode
					if len(pairs) < want.Len() {
						sig += ":missing"
					} else if len(pairs) > want.Len() {
						sig += ":extra"
					}
					r.fail("C05", "content-vs-leader-index", sig, "follower %s table %s (%s read, follower shard %d): content differs from the leader table (shard %d) at the recorded leader index %d: %s", n.name, t.Name, mode, t.ClusterID, lid, L, d)
					return
				}
				// O2: never backwards (per node incarnation, table incarnation and read mode)
				mk := fmt.Sprintf("%s|%d|%s|%d|%s", n.name, n.gen, t.Name, t.ClusterID, mode)
				if lin {
					mk = fmt.Sprintf("*|%s|%d|%s", t.Name, t.ClusterID, mode)
				}
				if prev, ok := r.lastL[mk]; ok && L < prev {
					r.fail("C05", "leader-index-backwards", "leader-index-backwards:"+mode, "follower %s table %s (%s read): recorded leader index moved from %d back to %d", n.name, t.Name, mode, prev, L)
					return
				}
				r.lastL[mk] = L
				if !lin {
					sk := n.name + "|" + t.Name
					if r.seenL[sk] == nil {
						r.seenL[sk] = map[uint64]bool{}
					}
					if L > 0 && !r.seenL[sk][L] {
						r.seenL[sk][L] = true
						r.out.Probe("follower-advanced")
						r.dig.Add(L)
					}
				}
			}
		}
	}
}

// checkOnceInOrder reads the committed log of a follower table's shard (ground truth) for replicated
// proposals that do not take the table beyond the leader index an earlier entry already reached: the same
// leader commands proposed again (the first proposal's outcome was indeterminate, or two nodes believed they
// held the lease). Since regatta's state machine skips such a sequence (fix "exactly once"), its presence
// in the log is legal; what C05 demands is that it has no effect, which the content oracle decides right
// after (most generated sequences contain state-dependent transactions, so a second application shows).
// Counted as a probe so that the evidence says how often the situation was reached.
func (r *run) checkOnceInOrder(table string, shardID uint64) bool {
	log := r.w.u.Log("F", shardID)
	from := r.onceChecked[shardID]
	last := r.onceLast[shardID]
	for _, e := range log {
		if e.Index <= from || !e.Regular {
			continue
		}
		from = e.Index
		c := &regattapb.Command{}
		if err := c.UnmarshalVT(e.Payload); err != nil || c.LeaderIndex == nil {
			continue
		}
		li := *c.LeaderIndex
		if li <= last {
			if c.Type == regattapb.Command_SEQUENCE {
				r.out.Probe("sequence-proposed-again-in-log")
			} else {
				r.out.Probe("restore-batch-proposed-again-in-log")
			}
			continue
		}
		if c.Type == regattapb.Command_SEQUENCE && len(c.Sequence) > 0 && c.Sequence[0].LeaderIndex != nil && last > 0 && *c.Sequence[0].LeaderIndex <= last {
			// a longer sequence whose head repeats what an earlier proposal already replicated
			r.out.Probe("sequence-head-proposed-again-in-log")
		}
		last = li
	}
	r.onceChecked[shardID], r.onceLast[shardID] = from, last
	return true
}

// leaseHolder reads the current owner of a table's replication lease off the committed log of the follower
// cluster's metadata shard (compare-and-set replayed), 0 when there is none.
func (r *run) leaseHolder(table string) uint64 {
	type ver struct {
		val string
		ver uint64
	}
	cur := map[string]ver{}
	for _, e := range r.w.u.Log("F", 1000) {
		if !e.Regular {
			continue
		}
		var u struct {
			Op     string
			KVPair struct {
				Key   string
				Value string
				Ver   uint64
			}
		}
		if json.Unmarshal(e.Payload, &u) != nil {
			continue
		}
		if c, exists := cur[u.KVPair.Key]; exists && c.ver != u.KVPair.Ver {
			continue
		}
		if u.Op == "set" {
			cur[u.KVPair.Key] = ver{u.KVPair.Value, e.Index}
		} else {
			delete(cur, u.KVPair.Key)
		}
	}
	var rec leaseRec
	if c, ok := cur["/tables/"+table+"/lease"]; ok {
		_ = json.Unmarshal([]byte(c.val), &rec)
	}
	return rec.ID
}

// ---- step execution -----------------------------------------------------------------------

func (r *run) shardID(f bool, st *Step) (string, uint64) {
	cl := "L"
	if f {
		cl = "F"
	}
	switch st.Shard {
	case "meta":
		return cl, 1000
	case "repl":
		return cl, 2000
	}
	name := r.table(st.T)
	n := r.node(f, 0)
	for _, cand := range append([]*Node{n}, r.w.nodes()...) {
		if cand == nil || !cand.up || cand.cfg.Cluster != cl {
			continue
		}
		if at, err := cand.engine.GetTable(name); err == nil {
			return cl, at.ClusterID
		}
	}
	return cl, 0
}

func (r *run) execStep(st *Step) {
	w := r.w
	switch st.Op {
	case "put", "del", "txn", "txnro", "range":
		n := r.node(st.F, st.N)
		if n == nil || !n.up {
			return
		}
		// the request (and answer) bytes of this client travel with the given delay until told otherwise
		r.clientDelay[clientAddr(st.Client)] = time.Duration(st.DelayMs) * time.Millisecond
		r.kvCall(n, st, 3*time.Second)
		r.out.Probe("kv-" + st.Op)
	case "fput", "fdel", "ftxn":
		r.execFwd(st)
	case "load":
		// Cnt small pairs through the leader API, 100 per transaction
		n := r.node(false, st.N)
		if n == nil || !n.up {
			return
		}
		tname := r.table(st.T)
		kv := r.w.kvOf(7, n)
		for at := 0; at < st.Cnt && !r.failed(); at += 100 {
			req := &regattapb.TxnRequest{Table: []byte(tname)}
			for i := at; i < at+100 && i < st.Cnt; i++ {
				h := core.Mix(uint64(st.K), uint64(i))
				val := make([]byte, h%141)
				for j := range val {
					val[j] = byte('a' + (h>>8+uint64(j)*7)%26)
				}
				key := []byte(fmt.Sprintf("l/%05d%s", i, strings.Repeat("k", int(h>>20)%17)))
				req.Success = append(req.Success, &regattapb.RequestOp{Request: &regattapb.RequestOp_RequestPut{RequestPut: &regattapb.RequestOp_Put{Key: key, Value: val}}})
			}
			ctx, cancel := ctxT(10 * time.Second)
			_, err := kv.Txn(ctx, req)
			cancel()
			if err != nil {
				// a refused or failed load only makes the run smaller; what is in the log is what counts
				r.out.Probe("load-txn-error")
			}
		}
		r.out.Probe("table-loaded-with-many-small-pairs")
	case "raw":
		r.execRaw(st)
	case "ccreate", "cdelete", "clist":
		r.execCat(st)
	case "poll":
		r.execPoll(st)
	case "backup":
		r.execBackup(st)
	case "restore":
		r.execRestore(st)
	case "corrupt":
		r.execCorrupt(st)
	case "lease", "leasereturn", "release":
		r.execLease(st)
	case "create":
		n := r.node(false, st.N)
		if n == nil || !n.up {
			return
		}
		ctx, cancel := ctxT(3 * time.Second)
		_, err := regattapb.NewTablesClient(w.client(n)).Create(ctx, &regattapb.CreateTableRequest{Name: r.table(st.T)})
		cancel()
		if err == nil {
			r.out.Probe("table-created")
			delete(r.deleted, r.table(st.T))
		}
	case "delete":
		n := r.node(false, st.N)
		if n == nil || !n.up {
			return
		}
		ctx, cancel := ctxT(3 * time.Second)
		_, err := regattapb.NewTablesClient(w.client(n)).Delete(ctx, &regattapb.DeleteTableRequest{Name: r.table(st.T)})
		cancel()
		if err == nil {
			r.out.Probe("table-deleted")
			r.deleted[r.table(st.T)] = true
		}
	case "advance":
		d := time.Duration(st.Ms) * time.Millisecond
		time.Sleep(d)
	case "lag":
		cl, id := r.shardID(st.F, st)
		if id != 0 {
			w.u.SetLag(cl, id, st.Replica, st.On)
			r.out.Fault("replica-lag")
			r.faulted = true
		}
	case "stall":
		cl, id := r.shardID(st.F, st)
		if id != 0 && st.Replica != 0 {
			w.u.SetStalled(cl, id, st.Replica, st.On)
			r.out.Fault("replica-stall")
			r.faulted = true
		}
	case "catchup":
		cl, id := r.shardID(st.F, st)
		if id != 0 {
			w.u.CatchUp(cl, id, st.Replica, st.Cnt)
		}
	case "leaderchange":
		cl, id := r.shardID(st.F, st)
		if id != 0 {
			w.u.ChangeLeader(cl, id)
			r.out.Fault("leader-change")
			r.faulted = true
		}
	case "snapshot":
		cl, id := r.shardID(st.F, st)
		if id != 0 {
			w.u.ForceSnapshot(cl, id, st.Replica)
			r.out.Fault("forced-snapshot-compaction")
		}
	case "stopnode":
		n := r.node(st.F, st.N)
		if n != nil && n.up {
			n.stop()
			r.out.Fault("node-stop")
			r.faulted = true
		}
	case "stopholder":
		// a fault aimed at state: the follower node that holds the replication lease of a table right now
		// (and is therefore the one polling the leader or recovering from a snapshot) is shut down,
		// crashed, or has its replication manager restarted
		id := r.leaseHolder(r.table(st.T))
		var n *Node
		for _, c := range r.w.follow {
			if c.cfg.ID == id && c.up {
				n = c
			}
		}
		if n == nil {
			return
		}
		r.out.Probe("lease-holder-targeted")
		switch st.Cnt % 3 {
		case 0:
			n.stop()
			r.out.Fault("node-stop")
		case 1:
			n.crash()
			r.out.Fault("node-crash")
		default:
			r.execStep(&Step{Op: "workerrestart", N: int(id) - 1})
		}
		r.faulted = true
	case "crashnode":
		n := r.node(st.F, st.N)
		if n != nil && n.up {
			n.crash()
			r.out.Fault("node-crash")
			r.faulted = true
		}
	case "startnode":
		n := r.node(st.F, st.N)
		if n != nil && !n.up {
			if err := n.start(); err != nil {
				r.fail("C04", "node-restart-failed", "node-restart-failed", "node %s cannot restart: %v", n.name, err)
			}
		}
	case "resetconns":
		n := r.node(st.F, st.N)
		if n != nil {
			w.net.ResetAll(n.apiAddr)
			r.out.Fault("conn-reset")
			r.faulted = true
		}
	case "netdelay":
		r.delayAll(time.Duration(st.Ms) * time.Millisecond)
	case "partition":
		n := r.node(st.F, st.N)
		if n != nil {
			r.blocked[n.apiAddr] = st.On
			if st.On {
				r.out.Fault("net-partition")
				r.faulted = true
			}
		}
	case "workerrestart":
		n := r.node(true, st.N)
		if n != nil && n.up && n.repl != nil {
			before := n.abandoned
			n.closeRepl(10 * time.Minute)
			if n.abandoned != before {
				// the old manager never finished closing (see closeRepl): two managers in one process is not
				// a state regatta can be in, so the process goes down instead
				r.out.Probe("replication-close-abandoned")
				n.crash()
				r.out.Fault("node-crash")
				r.faulted = true
				return
			}
			// the replication manager owns the replication metadata shard: a new manager starts it again
			_ = n.engine.NodeHost.StopShard(2000)
			n.repl = replication.NewManager(n.engine, n.queue, n.conn, replication.Config{
				ReconcileInterval: time.Duration(n.cfg.ReconcileMs) * time.Millisecond,
				Workers: replication.WorkerConfig{PollInterval: time.Duration(n.cfg.PollMs) * time.Millisecond, LeaseInterval: time.Duration(n.cfg.LeaseMs) * time.Millisecond,
					LogRPCTimeout: time.Duration(n.cfg.LogTimeoutMs) * time.Millisecond, SnapshotRPCTimeout: time.Hour, MaxRecoveryInFlight: 1},
			})
			if err := n.repl.Start(); err != nil {
				r.fail("HARNESS", "worker-restart", "worker-restart", "replication manager restart failed: %v", err)
				n.repl = nil
				return
			}
			r.out.Fault("worker-restart")
			r.faulted = true
		}
	}
}

func (r *run) delayAll(d time.Duration) { r.netDelay = d }
