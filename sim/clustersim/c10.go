package clustersim

import (
	"fmt"
	"os"
	"sort"
	"time"

	"github.com/jamf/regatta/regattapb"
	dragonboat "github.com/lni/dragonboat/v4"
	"google.golang.org/protobuf/proto"
	"verif/sim/core"
	"verif/sim/fsmsim"
	"verif/sim/model"
)

// GenC10 draws a concurrent client history on one table of a 1- or 3-node cluster.
func GenC10(r *core.Rand, tier string) core.Schedule {
	g := &wgen{r: r}
	cfg := &Cfg{Prop: "C10", Seed: r.Uint64()}
	g.cfg = cfg
	g.kg = fsmsim.NewKeyGen(r.Fork("keys"), false, 3)
	keys := g.kg.Keys()
	if len(keys) > 5 {
		keys = keys[:r.Range(3, 5)]
	}
	cfg.Keys = keys
	cfg.Leaders = []int{1, 3, 3}[r.Intn(3)]
	cfg.Tables = []string{"t1"}
	cfg.InitialTables = 1
	cfg.SnapshotEntries = []uint64{0, 10, 25}[r.Intn(3)]
	cfg.CompactionOverhead = []uint64{0, 3}[r.Intn(2)]
	cfg.MaxInMemLogSize = 1 << 20
	cfg.PollMs, cfg.LeaseMs, cfg.ReconcileMs, cfg.LogTimeoutMs = 500, 1000, 3000, 3000
	cfg.RecoveryTypes = []int{r.Intn(2), r.Intn(2), r.Intn(2)}
	cfg.CutPermille = []uint64{0, 300, 700}[r.Intn(3)]
	if r.Chance(0.4) {
		cfg.BusyPermille = uint64(r.Range(0, 80))
		cfg.DropPermille = uint64(r.Range(0, 50))
		cfg.TOAppliedPermille = uint64(r.Range(0, 80))
		cfg.TOLostPermille = uint64(r.Range(0, 40))
	}
	if r.Chance(0.3) {
		cfg.ReadBusyPermille = uint64(r.Range(50, 400)) // overloaded nodes refuse read-index requests
	}
	clients := r.Range(2, 5)
	var steps []Step
	if cfg.Leaders == 3 {
		// all three nodes must run the table shard before clients can use them: one reconcile period
		steps = append(steps, Step{Op: "advance", Ms: 31000})
	}
	n := r.Range(12, 40)
	async := r.Chance(0.8)
	for len(steps) < n {
		switch r.Pick([]int{45, 30, 12, 5, 4, 4}) {
		case 0:
			st := g.write(0, r.Intn(cfg.Leaders))
			if r.Chance(0.15) && st.Op == "txn" {
				// a transaction with one empty branch (it stays a write transaction: the other branch mutates);
				// whenever the empty branch is the one taken, the acknowledged mutation performs no operation
				if r.Chance(0.5) {
					st.Txn.Succ = nil
				} else {
					st.Txn.Fail = nil
				}
			}
			st.Client = r.Intn(clients)
			if async && r.Chance(0.6) {
				st.Async = true
				st.DelayMs = []int{0, 1, 5, 20, 80}[r.Intn(5)]
			}
			steps = append(steps, st)
		case 1:
			st := Step{Op: "range", N: r.Intn(cfg.Leaders), K: g.key(), E: fsmsim.KNil, Lin: r.Chance(0.65), Client: r.Intn(clients)}
			if r.Chance(0.5) {
				st.K, st.E = fsmsim.KWild, fsmsim.KWild
			}
			if r.Chance(0.25) {
				tx := &fsmsim.TxnSpec{Succ: []fsmsim.OpSpec{{T: "range", K: fsmsim.KWild, E: fsmsim.KWild}}, Fail: []fsmsim.OpSpec{{T: "range", K: g.key(), E: fsmsim.KNil}}}
				if r.Chance(0.5) {
					tx.Cmp = []fsmsim.CmpSpec{{K: g.key(), E: fsmsim.KNil, Res: r.Intn(4), HasVal: r.Chance(0.5), V: g.val()}}
				}
				st = Step{Op: "txnro", N: r.Intn(cfg.Leaders), Txn: tx, Client: r.Intn(clients)}
			}
			if async && r.Chance(0.6) {
				st.Async = true
				st.DelayMs = []int{0, 1, 5, 20, 80}[r.Intn(5)]
			}
			steps = append(steps, st)
		case 2:
			steps = append(steps, Step{Op: "advance", Ms: []int{1, 3, 10, 30, 100, 500}[r.Intn(6)]})
		case 3:
			if cfg.Leaders > 1 {
				steps = append(steps, Step{Op: "lag", Shard: "table", Replica: uint64(r.Range(1, 3)), On: r.Chance(0.75)})
			}
		case 4:
			if cfg.Leaders > 1 {
				steps = append(steps, Step{Op: "catchup", Shard: "table", Replica: uint64(r.Range(1, 3)), Cnt: r.Range(0, 3)})
			}
		case 5:
			steps = append(steps, Step{Op: "leaderchange", Shard: "table"})
		}
	}
	return &Sched{Cfg: *cfg, Steps: steps}
}

func pairsOfKvs(kvs []*regattapb.KeyValue) []model.Pair {
	out := make([]model.Pair, len(kvs))
	for i, kv := range kvs {
		out[i] = model.Pair{Key: kv.Key, Value: kv.Value}
	}
	return out
}

// waitPending lets outstanding asynchronous calls return (each has a deadline).
func (r *run) waitPending() {
	for k := 0; k < 40; k++ {
		pending := false
		for _, h := range r.hist {
			if h.ret == 0 {
				pending = true
			}
		}
		if !pending {
			return
		}
		time.Sleep(250 * time.Millisecond)
		settle()
	}
}

// checkHistory decides C10 over the recorded client history against the ground-truth log.
func (r *run) checkHistory() {
	if r.failed() {
		return
	}
	tname := r.cfg.Tables[0]
	sid, ok := r.leaderTables[tname]
	if !ok {
		return
	}
	key := dragonboat.ShardKey{Cluster: "L", ShardID: sid}
	log := r.w.u.Log("L", sid)
	if os.Getenv("VERIF_LOG") == "2" {
		for _, h := range r.hist {
			fmt.Fprintf(os.Stderr, "HIST client=%d node=%s kind=%s call=%d ret=%d lastAt=%d lastRet=%d err=%v req=%v resp=%v\n", h.client, h.node, h.kind, h.call, h.ret, h.lastAt, h.lastRet, h.err, h.req, h.resp)
		}
		for _, e := range log {
			c := &regattapb.Command{}
			if e.Regular {
				_ = c.UnmarshalVT(e.Payload)
			}
			fmt.Fprintf(os.Stderr, "LOG %d regular=%v %v\n", e.Index, e.Regular, c)
		}
	}
	claimed := map[uint64]*histOp{}
	type acked struct {
		ret int
		rev uint64
	}
	var acks []acked
	overlap := false
	for i, h := range r.hist {
		for _, o := range r.hist[:i] {
			if o.ret == 0 || o.ret > h.call {
				overlap = true
			}
		}
		if h.ret == 0 {
			r.fail("C10", "call-never-returned", "call-never-returned", "%s call of client %d on %s never returned although it carries a deadline", h.kind, h.client, h.node)
			return
		}
		if h.err != nil {
			continue
		}
		var rev uint64
		var cmdWant func(c *regattapb.Command) bool
		switch h.kind {
		case "put":
			resp := h.resp.(*regattapb.PutResponse)
			req := h.req.(*regattapb.PutRequest)
			rev = resp.GetHeader().GetRevision()
			cmdWant = func(c *regattapb.Command) bool {
				return c.Type == regattapb.Command_PUT && c.Kv != nil && string(c.Kv.Key) == string(req.Key) && string(c.Kv.Value) == string(req.Value) && c.PrevKvs == req.PrevKv
			}
		case "del":
			resp := h.resp.(*regattapb.DeleteRangeResponse)
			req := h.req.(*regattapb.DeleteRangeRequest)
			rev = resp.GetHeader().GetRevision()
			cmdWant = func(c *regattapb.Command) bool {
				return c.Type == regattapb.Command_DELETE && c.Kv != nil && string(c.Kv.Key) == string(req.Key) && string(c.RangeEnd) == string(req.RangeEnd) && c.PrevKvs == req.PrevKv && c.Count == req.Count
			}
		case "txn":
			resp := h.resp.(*regattapb.TxnResponse)
			req := h.req.(*regattapb.TxnRequest)
			rev = resp.GetHeader().GetRevision()
			cmdWant = func(c *regattapb.Command) bool {
				if c.Type != regattapb.Command_TXN || c.Txn == nil {
					return false
				}
				return proto.Equal(&regattapb.Txn{Compare: req.Compare, Success: req.Success, Failure: req.Failure}, c.Txn)
			}
		default:
			continue
		}
		what := fmt.Sprintf("acknowledged %s of client %d on %s", h.kind, h.client, h.node)
		if rev == 0 {
			sig := "revision-zero:" + h.kind
			r.fail("C10", "revision-zero", sig, "%s reports revision 0", what)
			return
		}
		if rev > uint64(len(log)) || !log[rev-1].Regular {
			r.fail("C10", "revision-not-in-log", "revision-not-in-log", "%s reports revision %d, which is no command entry of the table's log (length %d)", what, rev, len(log))
			return
		}
		cmd := &regattapb.Command{}
		if err := cmd.UnmarshalVT(log[rev-1].Payload); err != nil || !cmdWant(cmd) {
			// find where it really is, for the message
			at := uint64(0)
			for _, e := range log {
				if e.Regular {
					c := &regattapb.Command{}
					if c.UnmarshalVT(e.Payload) == nil && cmdWant(c) && claimed[e.Index] == nil {
						at = e.Index
						break
					}
				}
			}
			r.fail("C10", "revision-mismatch", "revision-mismatch:"+h.kind, "%s reports revision %d, but log entry %d is another command (its own entry sits at index %d)", what, rev, rev, at)
			return
		}
		if o := claimed[rev]; o != nil {
			r.fail("C10", "revision-claimed-twice", "revision-claimed-twice", "%s and an acknowledged %s of client %d both report revision %d", what, o.kind, o.client, rev)
			return
		}
		claimed[rev] = h
		if rev <= h.lastAt || rev > h.lastRet {
			r.fail("C10", "revision-outside-call", "revision-outside-call", "%s reports revision %d, but the log ended at %d when the call started and at %d when it returned", what, rev, h.lastAt, h.lastRet)
			return
		}
		// the response is explained by applying the writes in revision order
		before := r.modelAt(key, rev-1)
		exp := before.Clone().Apply(cmd)
		var cr *regattapb.CommandResult
		switch h.kind {
		case "put":
			cr = &regattapb.CommandResult{Responses: []*regattapb.ResponseOp{{Response: &regattapb.ResponseOp_ResponsePut{ResponsePut: &regattapb.ResponseOp_Put{PrevKv: h.resp.(*regattapb.PutResponse).PrevKv}}}}}
		case "del":
			d := h.resp.(*regattapb.DeleteRangeResponse)
			cr = &regattapb.CommandResult{Responses: []*regattapb.ResponseOp{{Response: &regattapb.ResponseOp_ResponseDeleteRange{ResponseDeleteRange: &regattapb.ResponseOp_DeleteRange{Deleted: d.Deleted, PrevKvs: d.PrevKvs}}}}}
		case "txn":
			t := h.resp.(*regattapb.TxnResponse)
			cr = &regattapb.CommandResult{Responses: t.Responses}
			v := uint64(0)
			if t.Succeeded {
				v = 1
			}
			if v != exp.Value {
				r.fail("C10", "response-vs-revision-order", "response-vs-revision-order:txn-branch", "%s at revision %d: succeeded=%v, but applying the log in revision order gives %v", what, rev, t.Succeeded, exp.Value == 1)
				return
			}
		}
		if cat, msg := model.CheckResult(exp, exp.Value, cr); cat != "" {
			r.fail("C10", "response-vs-revision-order", "response-vs-revision-order:"+h.kind+":"+cat, "%s at revision %d is not explained by applying the writes in revision order: %s", what, rev, msg)
			return
		}
		acks = append(acks, acked{h.ret, rev})
		r.out.Probe("acked-write-checked")
		r.dig.Add(rev)
		if h.kind == "txn" && len(cr.Responses) == 0 {
			r.out.Probe("acked-txn-empty-branch")
		}
	}
	sort.Slice(acks, func(i, j int) bool { return acks[i].ret < acks[j].ret })
	// reads
	for _, h := range r.hist {
		if h.err != nil || (h.kind != "range" && h.kind != "txnro") {
			continue
		}
		lin := h.lin || h.kind == "txnro"
		lo := uint64(0)
		if lin {
			for _, a := range acks {
				if a.ret < h.call && a.rev > lo {
					lo = a.rev
				}
			}
		}
		hi := h.lastRet
		okAt := false
		var firstMsg string
		for i := hi + 1; i > lo; i-- { // try newest first
			idx := i - 1
			st := r.modelAt(key, idx)
			if st == nil {
				continue
			}
			msg := ""
			switch h.kind {
			case "range":
				req := h.req.(*regattapb.RangeRequest)
				resp := h.resp.(*regattapb.RangeResponse)
				e := st.ReadRange(&regattapb.RequestOp_Range{Key: req.Key, RangeEnd: req.RangeEnd, Limit: req.Limit, KeysOnly: req.KeysOnly, CountOnly: req.CountOnly})
				_, msg, _ = model.CheckRange(e, &regattapb.ResponseOp_Range{Kvs: resp.Kvs, Count: resp.Count, More: resp.More})
			case "txnro":
				req := h.req.(*regattapb.TxnRequest)
				resp := h.resp.(*regattapb.TxnResponse)
				okb, ops := st.Clone().Txn(req.Compare, req.Success, req.Failure)
				if okb != resp.Succeeded {
					msg = fmt.Sprintf("succeeded=%v, model %v", resp.Succeeded, okb)
				} else {
					v := uint64(0)
					if okb {
						v = 1
					}
					_, msg = model.CheckResult(model.ExpResult{Value: v, Ops: ops}, v, &regattapb.CommandResult{Responses: resp.Responses})
				}
			}
			if msg == "" {
				okAt = true
				if idx < hi {
					r.out.Probe("read-explained-by-older-prefix")
				}
				break
			}
			if firstMsg == "" {
				firstMsg = msg
			}
			if idx == 0 {
				break
			}
		}
		if !okAt {
			mode := "serializable"
			if lin {
				mode = "linearizable"
			}
			r.fail("C10", "read-unexplained", "read-unexplained:"+mode+":"+h.kind, "%s %s of client %d on %s matches no table state between log index %d (last write acknowledged before it started) and %d (log end when it returned); vs newest state: %s", mode, h.kind, h.client, h.node, lo, hi, firstMsg)
			return
		}
		r.out.Probe("read-checked")
		if lin {
			r.out.Probe("linearizable-read-checked")
		}
	}
	if overlap {
		r.out.Probe("overlapping-calls")
	}
}
