package clustersim

import (
	"context"
	"fmt"
	"math/rand"
	"net"
	"sort"
	"time"

	"github.com/jamf/regatta/regattapb"
	dragonboat "github.com/lni/dragonboat/v4"
	"google.golang.org/grpc"
	"google.golang.org/grpc/credentials/insecure"
	"verif/sim/simnet"
)

// World is one simulated deployment: a leader cluster and (optionally) a follower cluster.
type World struct {
	net           *simnet.Network
	u             *dragonboat.Universe
	leaders       []*Node
	follow        []*Node
	clients       map[string]*grpc.ClientConn
	noReplication bool
}

type WorldCfg struct {
	Seed               uint64
	Leaders, Followers int
	SnapshotEntries    uint64
	CompactionOverhead uint64
	MaxInMemLogSize    uint64
	LogCacheSize       int
	MaxMsg             uint64
	PollMs, LeaseMs    int
	ReconcileMs        int
	LogTimeoutMs       int
	RecoveryTypes      []int
	CutPermille        uint64
}

func NewWorld(c WorldCfg) *World {
	rand.Seed(int64(c.Seed)) //nolint:staticcheck // regatta draws jitter from the global source
	w := &World{net: simnet.New(), u: dragonboat.NewUniverse(c.Seed), clients: map[string]*grpc.ClientConn{}}
	w.u.ClusterOf = clusterOf
	w.u.CutPermille = c.CutPermille
	dragonboat.SetUniverse(w.u)
	mk := func(cluster string, n int) []*Node {
		members := map[uint64]string{}
		for i := 1; i <= n; i++ {
			members[uint64(i)] = raftAddr(cluster, uint64(i))
		}
		var out []*Node
		for i := 1; i <= n; i++ {
			id := uint64(i)
			rt := 0
			if k := len(out) + len(w.leaders); k < len(c.RecoveryTypes) {
				rt = c.RecoveryTypes[k]
			}
			nc := NodeCfg{Cluster: cluster, ID: id, Members: members, SnapshotEntries: c.SnapshotEntries, CompactionOverhead: c.CompactionOverhead,
				MaxInMemLogSize: c.MaxInMemLogSize, LogCacheSize: c.LogCacheSize, MaxMsg: c.MaxMsg, RecoveryType: rt,
				LeaderAPI: apiAddr("L", uint64((i-1)%max(c.Leaders, 1)+1)), PollMs: c.PollMs, LeaseMs: c.LeaseMs, ReconcileMs: c.ReconcileMs, LogTimeoutMs: c.LogTimeoutMs}
			out = append(out, &Node{cfg: nc, w: w, name: fmt.Sprintf("%s%d", cluster, id), raftAddr: raftAddr(cluster, id), apiAddr: apiAddr(cluster, id)})
		}
		return out
	}
	w.leaders = mk("L", c.Leaders)
	w.follow = mk("F", c.Followers)
	return w
}

func (w *World) nodes() []*Node { return append(append([]*Node(nil), w.leaders...), w.follow...) }

func (w *World) StartAll() error {
	for _, n := range w.nodes() {
		if err := n.start(); err != nil {
			return fmt.Errorf("%s: %w", n.name, err)
		}
	}
	return nil
}

func (w *World) StopAll() {
	for _, c := range w.sortedClients() {
		_ = w.clients[c].Close()
	}
	w.clients = map[string]*grpc.ClientConn{}
	ns := w.nodes()
	for i := len(ns) - 1; i >= 0; i-- {
		ns[i].stop()
	}
}

func (w *World) sortedClients() []string {
	var ks []string
	for k := range w.clients {
		ks = append(ks, k)
	}
	sort.Strings(ks)
	return ks
}

// client returns a gRPC connection of a simulated API client to a node.
func (w *World) client(n *Node) *grpc.ClientConn {
	if c := w.clients[n.name]; c != nil {
		return c
	}
	from := "10.9.9.9:1"
	c, err := grpc.NewClient("passthrough:///"+n.apiAddr, grpc.WithTransportCredentials(insecure.NewCredentials()),
		grpc.WithContextDialer(func(ctx context.Context, target string) (net.Conn, error) { return w.net.Dial(ctx, from, target) }),
		grpc.WithDefaultCallOptions(grpc.MaxCallRecvMsgSize(16*1024*1024)))
	if err != nil {
		panic(err)
	}
	w.clients[n.name] = c
	return c
}

func (w *World) kv(n *Node) regattapb.KVClient { return regattapb.NewKVClient(w.client(n)) }

func clientAddr(id int) string { return fmt.Sprintf("10.9.8.%d:1", id+1) }

// kvOf returns the KV stub of simulated client id talking to node n over its own connection.
func (w *World) kvOf(id int, n *Node) regattapb.KVClient {
	name := fmt.Sprintf("c%d@%s", id, n.name)
	c := w.clients[name]
	if c == nil {
		from := clientAddr(id)
		var err error
		c, err = grpc.NewClient("passthrough:///"+n.apiAddr, grpc.WithTransportCredentials(insecure.NewCredentials()),
			grpc.WithContextDialer(func(ctx context.Context, target string) (net.Conn, error) { return w.net.Dial(ctx, from, target) }),
			grpc.WithDefaultCallOptions(grpc.MaxCallRecvMsgSize(16*1024*1024)))
		if err != nil {
			panic(err)
		}
		w.clients[name] = c
	}
	return regattapb.NewKVClient(c)
}

func ctxT(d time.Duration) (context.Context, context.CancelFunc) {
	return context.WithTimeout(context.Background(), d)
}
