package clustersim

import (
	"verif/sim/core"
	"verif/sim/fsmsim"
)

type wgen struct {
	r       *core.Rand
	cfg     *Cfg
	kg      *fsmsim.KeyGen
	tag     uint32
	bigVals bool
}

func (g *wgen) key() int { return g.r.Intn(len(g.cfg.Keys)) }

func (g *wgen) val() fsmsim.Val {
	v := g.kg.Val()
	if g.bigVals && g.r.Chance(0.6) {
		v.N = []int{40000, 90000, 150000, 270000}[g.r.Intn(4)]
		return v
	}
	if v.N > 300 {
		v.N = 300
	}
	return v
}

func (g *wgen) write(t int, n int) Step {
	switch g.r.Pick([]int{55, 20, 25}) {
	case 0:
		return Step{Op: "put", N: n, T: t, K: g.key(), E: fsmsim.KNil, V: g.val(), Prev: g.r.Chance(0.2)}
	case 1:
		e := fsmsim.KNil
		if g.r.Chance(0.4) {
			e = g.key()
			if g.r.Chance(0.3) {
				e = fsmsim.KWild
			}
		}
		return Step{Op: "del", N: n, T: t, K: g.key(), E: e, Count: g.r.Chance(0.5), Prev: g.r.Chance(0.2)}
	default:
		// non-idempotent transaction: the outcome depends on the state it meets
		tx := &fsmsim.TxnSpec{}
		k := g.key()
		tx.Cmp = append(tx.Cmp, fsmsim.CmpSpec{K: k, E: fsmsim.KNil, Res: g.r.Intn(4), HasVal: g.r.Chance(0.5), V: g.val()})
		tx.Succ = append(tx.Succ, fsmsim.OpSpec{T: "del", K: k, E: fsmsim.KNil}, fsmsim.OpSpec{T: "put", K: g.key(), E: fsmsim.KNil, V: g.val()})
		tx.Fail = append(tx.Fail, fsmsim.OpSpec{T: "put", K: k, E: fsmsim.KNil, V: g.val()})
		if g.r.Chance(0.3) {
			tx.Fail = append(tx.Fail, fsmsim.OpSpec{T: "del", K: g.key(), E: fsmsim.KWild})
		}
		if g.r.Chance(0.5) {
			// reads inside a write transaction: they observe the transaction's own earlier writes and every
			// write with a lower revision, also one applied in the same apply batch
			tx.Succ = append(tx.Succ, fsmsim.OpSpec{T: "range", K: tx.Succ[len(tx.Succ)-1].K, E: fsmsim.KNil})
			tx.Fail = append(tx.Fail, fsmsim.OpSpec{T: "range", K: fsmsim.KWild, E: fsmsim.KWild})
		}
		return Step{Op: "txn", N: n, T: t, Txn: tx}
	}
}

// GenC05 draws a replication schedule.
func GenC05(r *core.Rand, tier string) core.Schedule {
	g := &wgen{r: r}
	cfg := &Cfg{Prop: "C05", Seed: r.Uint64()}
	g.cfg = cfg
	g.kg = fsmsim.NewKeyGen(r.Fork("keys"), false, 4)
	cfg.Keys = g.kg.Keys()
	cfg.Leaders = []int{1, 1, 3}[r.Intn(3)]
	cfg.Followers = []int{1, 1, 3}[r.Intn(3)]
	cfg.Tables = []string{"t1", "t2", "t3"}
	cfg.InitialTables = r.Range(1, 2)
	cfg.SnapshotEntries = []uint64{0, 5, 10, 20}[r.Intn(4)]
	cfg.CompactionOverhead = []uint64{0, 1, 3, 8}[r.Intn(4)]
	cfg.MaxInMemLogSize = []uint64{0, 130, 200, 400, 1000, 2000, 1 << 20}[r.Intn(7)]
	cfg.LogCacheSize = []int{0, 0, 1, 3, 50}[r.Intn(5)]
	cfg.MaxMsg = []uint64{0, 0, 200, 1000, 50000}[r.Intn(5)]
	cfg.PollMs = []int{101, 503, 997}[r.Intn(3)] // primes: the periodic loops rarely tick at the same fake instant
	cfg.LeaseMs = []int{307, 1009, 2003}[r.Intn(3)]
	cfg.ReconcileMs = []int{1013, 3011}[r.Intn(2)]
	cfg.LogTimeoutMs = []int{2003, 5003}[r.Intn(2)]
	for i := 0; i < cfg.Leaders+cfg.Followers; i++ {
		cfg.RecoveryTypes = append(cfg.RecoveryTypes, r.Intn(2))
	}
	cfg.CutPermille = []uint64{0, 200, 500}[r.Intn(3)]
	cfg.FollowerFirst = r.Chance(0.5)
	faulty := r.Chance(0.7)
	if faulty && r.Chance(0.4) {
		cfg.BusyPermille = uint64(r.Range(0, 60))
		cfg.DropPermille = uint64(r.Range(0, 40))
		cfg.TOAppliedPermille = uint64(r.Range(0, 40))
		cfg.TOLostPermille = uint64(r.Range(0, 30))
	}
	if faulty && r.Chance(0.25) {
		// proposals that outlive their caller's deadline: ErrTimeout now, committed a little later
		cfg.TOLatePermille = uint64(r.Range(10, 120))
		cfg.TOLateMaxMs = []uint64{50, 700, 3000}[r.Intn(3)]
	}
	big := r.Chance(0.12)
	if big {
		// values large enough for one Replicate response to be split into several follower proposals
		// (the worker cuts at 256 KiB), with follower-side proposal faults falling between the parts
		g.bigVals = true
		cfg.MaxMsg = 0
		cfg.BusyPermille, cfg.DropPermille = uint64(r.Range(40, 160)), uint64(r.Range(20, 100))
		cfg.TOLostPermille, cfg.TOAppliedPermille = uint64(r.Range(0, 60)), uint64(r.Range(0, 60))
	}
	var steps []Step
	n := r.Range(10, 45)
	if big {
		n = r.Range(10, 22)
	}
	created := cfg.InitialTables
	startedF := cfg.FollowerFirst
	if !big && r.Chance(0.15) {
		// take-over scenario: several follower nodes, a slow network, a leader log that is compacted
		// before the followers come up (so the first lease holder has to recover from a snapshot, which
		// takes until the other nodes have started the recovery shard), and a fault aimed at whoever
		// holds the lease while that is going on; the rest of the schedule follows as usual
		faulty = true
		cfg.Followers = 3
		cfg.FollowerFirst, startedF = false, true
		cfg.SnapshotEntries = []uint64{5, 10}[r.Intn(2)]
		cfg.CompactionOverhead = []uint64{0, 1, 3}[r.Intn(3)]
		cfg.RecoveryTypes = cfg.RecoveryTypes[:0]
		for i := 0; i < cfg.Leaders+cfg.Followers; i++ {
			cfg.RecoveryTypes = append(cfg.RecoveryTypes, r.Intn(2))
		}
		steps = append(steps, Step{Op: "netdelay", Ms: []int{5, 50, 400, 400}[r.Intn(4)]})
		for i, k := 0, r.Range(8, 16); i < k; i++ {
			steps = append(steps, g.write(r.Intn(created), r.Intn(cfg.Leaders)))
		}
		if r.Chance(0.5) {
			steps = append(steps, Step{Op: "snapshot", Shard: "table", T: r.Intn(created), Replica: 0})
		}
		steps = append(steps, Step{Op: "startfollowers"})
		for i, k := 0, r.Range(1, 4); i < k; i++ {
			steps = append(steps, Step{Op: "advance", Ms: []int{601, 1511, 4001, 9001}[r.Intn(4)]})
			if r.Chance(0.5) {
				steps = append(steps, g.write(r.Intn(created), r.Intn(cfg.Leaders)))
			}
		}
		steps = append(steps, Step{Op: "stopholder", T: r.Intn(created), Cnt: r.Intn(3)})
		n += len(steps)
	}
	for len(steps) < n {
		w := []int{50, 22, 0, 0, 0, 0, 0, 0, 0, 0, 0, 0}
		if faulty {
			w = []int{50, 22, 4, 4, 3, 3, 3, 3, 2, 3, 2, 2}
		}
		switch r.Pick(w) {
		case 0:
			k := r.Range(1, 6)
			for i := 0; i < k; i++ {
				steps = append(steps, g.write(r.Intn(created), r.Intn(cfg.Leaders)))
			}
		case 1:
			steps = append(steps, Step{Op: "advance", Ms: []int{53, 211, 601, 1511, 4001, 9001}[r.Intn(6)]})
		case 2:
			steps = append(steps, Step{Op: "snapshot", Shard: "table", T: r.Intn(created), Replica: 0})
		case 3:
			fn := r.Intn(cfg.Followers)
			if r.Chance(0.5) {
				steps = append(steps, Step{Op: "stopnode", F: true, N: fn})
			} else {
				steps = append(steps, Step{Op: "crashnode", F: true, N: fn})
			}
			steps = append(steps, Step{Op: "advance", Ms: []int{103, 1019, 5009}[r.Intn(3)]})
			steps = append(steps, Step{Op: "startnode", F: true, N: fn})
		case 4:
			steps = append(steps, Step{Op: "workerrestart", N: r.Intn(cfg.Followers)})
		case 5:
			steps = append(steps, Step{Op: "resetconns", F: r.Chance(0.5), N: r.Intn(3)})
		case 6:
			steps = append(steps, Step{Op: "leaderchange", F: r.Chance(0.5), Shard: []string{"table", "meta"}[r.Intn(2)], T: r.Intn(created)})
		case 7:
			f := r.Chance(0.6)
			steps = append(steps, Step{Op: "lag", F: f, Shard: []string{"table", "meta"}[r.Intn(2)], T: r.Intn(created), Replica: uint64(r.Range(1, 3)), On: r.Chance(0.7)})
		case 8:
			if created < len(cfg.Tables) {
				steps = append(steps, Step{Op: "create", N: r.Intn(cfg.Leaders), T: created})
				created++
			}
		case 9:
			steps = append(steps, Step{Op: "netdelay", Ms: []int{0, 5, 50, 400}[r.Intn(4)]})
		case 11:
			steps = append(steps, Step{Op: "stopholder", T: r.Intn(created), Cnt: r.Intn(3)})
			steps = append(steps, Step{Op: "advance", Ms: []int{103, 1019, 5009, 9001}[r.Intn(4)]})
		case 10:
			ln := r.Intn(cfg.Leaders)
			if cfg.Leaders > 1 {
				steps = append(steps, Step{Op: "stopnode", N: ln}, Step{Op: "advance", Ms: 2000}, Step{Op: "startnode", N: ln})
			}
		}
		if !startedF && r.Chance(0.15) {
			steps = append(steps, Step{Op: "startfollowers"})
			startedF = true
		}
	}
	if r.Chance(0.08) {
		// closing phase: tables deleted on the leader disappear on the followers - some of them or all,
		// down to the last one (a follower left with tables while the leader has none must drop them too).
		// Nothing is written or created afterwards, so no incarnation question arises.
		all := r.Chance(0.6)
		if !startedF {
			steps = append(steps, Step{Op: "startfollowers"})
		}
		for t := 0; t < created; t++ {
			if all || r.Chance(0.5) {
				steps = append(steps, Step{Op: "delete", N: r.Intn(cfg.Leaders), T: t})
			}
		}
		steps = append(steps, Step{Op: "advance", Ms: 5009})
	}
	return &Sched{Cfg: *cfg, Steps: steps}
}
