// Package clustersim is world W3: whole regatta nodes (storage.Engine,
// table.Manager, kv.RaftStore, replication.Manager + workers, every
// regattaserver service, real gRPC) inside one synctest bubble, on the simulated
// Raft library (simdragonboat), simulated network (simnet) and simulated disks
// (crashfs). The service registration replicates cmd/leader.go and
// cmd/follower.go, which cannot run under a simulator (global viper state, OS
// sockets).
package clustersim

import (
	"context"
	"fmt"
	"net"
	"time"

	"github.com/hashicorp/memberlist"
	"github.com/jamf/regatta/regattapb"
	"github.com/jamf/regatta/regattaserver"
	"github.com/jamf/regatta/replication"
	"github.com/jamf/regatta/storage"
	"github.com/jamf/regatta/storage/cluster"
	"github.com/jamf/regatta/storage/table"
	"go.uber.org/zap"
	"google.golang.org/grpc"
	"google.golang.org/grpc/credentials/insecure"
	"verif/sim/crashfs"
	"verif/sim/simnet"
)

type NodeCfg struct {
	Cluster            string // "L" leader cluster, "F" follower cluster
	ID                 uint64
	Members            map[uint64]string
	SnapshotEntries    uint64
	CompactionOverhead uint64
	MaxInMemLogSize    uint64
	LogCacheSize       int
	MaxMsg             uint64
	RecoveryType       int
	// follower only
	LeaderAPI    string
	PollMs       int
	LeaseMs      int
	ReconcileMs  int
	LogTimeoutMs int
	MaxRecv      int
}

type Node struct {
	cfg       NodeCfg
	w         *World
	name      string
	raftAddr  string
	apiAddr   string
	fs        *crashfs.FS
	engine    *storage.Engine
	srv       *grpc.Server
	lis       *simnet.Listener
	queue     *storage.IndexNotificationQueue
	repl      *replication.Manager
	conn      *grpc.ClientConn
	up        bool
	mnet      *memberlist.MockNetwork
	gen       int
	announced []announcement // every applied-index announcement of this node's state machines (follower nodes)
	abandoned int            // replication managers whose Close did not return in bounded time (see closeRepl)
}

type announcement struct {
	table string
	rev   uint64
	at    time.Time
}

func raftAddr(cluster string, id uint64) string {
	if cluster == "L" {
		return fmt.Sprintf("10.0.1.%d:5012", id)
	}
	return fmt.Sprintf("10.0.2.%d:5012", id)
}

func apiAddr(cluster string, id uint64) string {
	if cluster == "L" {
		return fmt.Sprintf("10.0.1.%d:8443", id)
	}
	return fmt.Sprintf("10.0.2.%d:8443", id)
}

func clusterOf(addr string) string {
	if len(addr) > 7 && addr[:7] == "10.0.1." {
		return "L"
	}
	return "F"
}

func (n *Node) dialer(from string) func(ctx context.Context, target string) (net.Conn, error) {
	return func(ctx context.Context, target string) (net.Conn, error) {
		return n.w.net.Dial(ctx, from, target)
	}
}

// start brings the node up the way cmd/leader.go or cmd/follower.go does.
func (n *Node) start() error {
	w := n.w
	c := n.cfg
	n.gen++
	if n.fs == nil {
		n.fs = crashfs.New()
		if err := n.fs.MakeDurable("/data"); err != nil {
			return err
		}
	}
	// isolated gossip: the shard view is fed by local Raft information only (C19's gossip
	// half is decided in W2); the memberlist still runs its real code on a mock transport
	n.mnet = &memberlist.MockNetwork{}
	tr := n.mnet.NewTransport(n.name)
	cluster.VerifMemberlist = func(mc *memberlist.Config) {
		mc.Transport = tr
		mc.GossipInterval = 10 * time.Second
		mc.ProbeInterval = 30 * time.Second
		mc.PushPullInterval = 0
	}
	scfg := storage.Config{
		Log:            zap.NewNop().Sugar(),
		ClientAddress:  n.apiAddr,
		NodeID:         c.ID,
		InitialMembers: c.Members,
		NodeHostDir:    "/nh/" + n.name,
		RTTMillisecond: 50,
		RaftAddress:    n.raftAddr,
		Gossip:         storage.GossipConfig{BindAddress: "127.0.0.1:7432", ClusterName: "sim-" + c.Cluster, NodeName: n.name},
		Table: storage.TableConfig{
			FS: n.fs, ElectionRTT: 20, HeartbeatRTT: 1, SnapshotEntries: c.SnapshotEntries, CompactionOverhead: c.CompactionOverhead,
			MaxInMemLogSize: c.MaxInMemLogSize, DataDir: "/data", RecoveryType: table.SnapshotRecoveryType(c.RecoveryType),
			BlockCacheSize: 4 << 20, TableCacheSize: 64,
		},
		Meta:         storage.MetaConfig{ElectionRTT: 20, HeartbeatRTT: 1, SnapshotEntries: c.SnapshotEntries, CompactionOverhead: c.CompactionOverhead, MaxInMemLogSize: c.MaxInMemLogSize},
		LogCacheSize: c.LogCacheSize,
	}
	if c.Cluster == "F" {
		n.queue = storage.NewNotificationQueue()
		go n.queue.Run()
		// the harness listens in: what the node's state machines announce, and when (C11 in situ needs to tell
		// "applied but never announced" from "announced before the caller had queued up")
		q := n.queue
		scfg.Table.AppliedIndexListener = func(table string, rev uint64) {
			n.announced = append(n.announced, announcement{table: table, rev: rev, at: time.Now()})
			q.Notify(table, rev)
		}
	}
	e, err := storage.New(scfg)
	cluster.VerifMemberlist = nil
	if err != nil {
		return fmt.Errorf("storage.New: %w", err)
	}
	if err := e.Start(); err != nil {
		return fmt.Errorf("engine.Start: %w", err)
	}
	n.engine = e
	lis, err := w.net.Listen(n.apiAddr)
	if err != nil {
		return err
	}
	n.lis = lis
	n.srv = grpc.NewServer(grpc.WaitForHandlers(true))
	auth := func(ctx context.Context) (context.Context, error) { return ctx, nil }
	if c.Cluster == "L" {
		regattapb.RegisterKVServer(n.srv, &regattaserver.KVServer{Storage: e})
		regattapb.RegisterClusterServer(n.srv, &regattaserver.ClusterServer{Cluster: e, Config: func() map[string]any { return nil }})
		regattapb.RegisterTablesServer(n.srv, &regattaserver.TablesServer{Tables: e, AuthFunc: auth})
		regattapb.RegisterMaintenanceServer(n.srv, &regattaserver.BackupServer{Tables: e, AuthFunc: auth})
		ls := regattaserver.NewLogServer(e, e.LogReader, zap.NewNop(), c.MaxMsg)
		regattapb.RegisterMetadataServer(n.srv, &regattaserver.MetadataServer{Tables: e})
		regattapb.RegisterSnapshotServer(n.srv, &regattaserver.SnapshotServer{Tables: e})
		regattapb.RegisterLogServer(n.srv, ls)
	} else {
		maxRecv := c.MaxRecv
		if maxRecv == 0 {
			maxRecv = 8 * 1024 * 1024
		}
		conn, err := grpc.NewClient("passthrough:///"+c.LeaderAPI,
			grpc.WithTransportCredentials(insecure.NewCredentials()),
			grpc.WithContextDialer(n.dialer(n.apiAddr)),
			grpc.WithDefaultCallOptions(grpc.UseCompressor("gzip")),
			grpc.WithDefaultCallOptions(grpc.MaxCallRecvMsgSize(maxRecv)),
		)
		if err != nil {
			return err
		}
		n.conn = conn
		if !w.noReplication {
			n.repl = replication.NewManager(e, n.queue, conn, replication.Config{
				ReconcileInterval: time.Duration(c.ReconcileMs) * time.Millisecond,
				Workers: replication.WorkerConfig{
					PollInterval:        time.Duration(c.PollMs) * time.Millisecond,
					LeaseInterval:       time.Duration(c.LeaseMs) * time.Millisecond,
					LogRPCTimeout:       time.Duration(c.LogTimeoutMs) * time.Millisecond,
					SnapshotRPCTimeout:  time.Hour,
					MaxRecoveryInFlight: 1,
				},
			})
			if err := n.repl.Start(); err != nil {
				return fmt.Errorf("replication start: %w", err)
			}
		}
		regattapb.RegisterKVServer(n.srv, regattaserver.NewForwardingKVServer(e, regattapb.NewKVClient(conn), n.queue))
		regattapb.RegisterClusterServer(n.srv, &regattaserver.ClusterServer{Cluster: e, Config: func() map[string]any { return nil }})
		regattapb.RegisterMaintenanceServer(n.srv, &regattaserver.ResetServer{Tables: e, AuthFunc: auth})
		regattapb.RegisterTablesServer(n.srv, &regattaserver.ReadonlyTablesServer{TablesServer: regattaserver.TablesServer{Tables: e, AuthFunc: auth}})
	}
	srv := n.srv
	go func() { _ = srv.Serve(lis) }()
	n.up = true
	return nil
}

// stop shuts the node down cleanly.
// closeRepl closes the replication manager, but does not wait for ever: a worker that is inside a snapshot
// restore retries a failing proposal without limit (backoff with MaxElapsedTime 0), so Close never returns
// once the node host is gone or the shard stays without a leader. The goroutine of the dead (or shut down)
// process is then left behind; it can only talk to the closed node host. Reported as a probe, not judged:
// no listed property is about shutdown latency.
func (n *Node) closeRepl(bound time.Duration) {
	if n.repl == nil {
		return
	}
	done := make(chan struct{})
	go func(m *replication.Manager) {
		m.Close()
		close(done)
	}(n.repl)
	select {
	case <-done:
	case <-time.After(bound):
		n.abandoned++
	}
	n.repl = nil
}

func (n *Node) stop() {
	if !n.up {
		return
	}
	n.up = false
	n.closeRepl(10 * time.Minute)
	n.srv.Stop()
	_ = n.lis.Close()
	if n.conn != nil {
		_ = n.conn.Close()
		n.conn = nil
	}
	_ = n.engine.Close()
	_ = n.engine.Cluster.Close()
	if n.queue != nil {
		_ = n.queue.Close()
		n.queue = nil
	}
}

// crash: the process dies now. Only the durable view of its disk survives; the Raft log is
// assumed durable (it is dragonboat's, not regatta's).
func (n *Node) crash() {
	if !n.up {
		return
	}
	n.up = false
	img := n.fs.Capture()
	n.fs.OnOp, n.fs.Inject = nil, nil
	n.engine.NodeHost.Kill()
	// tear down the goroutines of the dead process (they act on the abandoned file system)
	n.closeRepl(30 * time.Second)
	n.srv.Stop()
	_ = n.lis.Close()
	if n.conn != nil {
		_ = n.conn.Close()
		n.conn = nil
	}
	n.engine.Manager.Close()
	_ = n.engine.Cluster.Close()
	if n.queue != nil {
		_ = n.queue.Close()
		n.queue = nil
	}
	n.fs = crashfs.Mount(img)
}
