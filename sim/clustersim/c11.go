package clustersim

import (
	"bytes"
	"context"
	"errors"
	"fmt"
	"time"

	"github.com/jamf/regatta/regattapb"
	"github.com/lni/dragonboat/v4"
	"google.golang.org/grpc/codes"
	"google.golang.org/grpc/status"
	"verif/sim/core"
	"verif/sim/fsmsim"
)

// GenC11 draws writes sent to follower nodes' own API (they are forwarded to the leader cluster and answered
// once the node has applied the write's revision), interleaved with everything that decides when that
// happens: replication polling, slow links, lagging or slow follower replicas, faults aimed at the lease
// holder, leader-side writes by other clients, short and long deadlines.
func GenC11(r *core.Rand, tier string) core.Schedule {
	g := &wgen{r: r}
	cfg := &Cfg{Prop: "C11", Seed: r.Uint64()}
	g.cfg = cfg
	g.kg = fsmsim.NewKeyGen(r.Fork("keys"), false, 3)
	cfg.Keys = g.kg.Keys()
	cfg.Leaders = 1
	cfg.Followers = []int{1, 3, 3}[r.Intn(3)]
	cfg.Tables = []string{"t1", "t2"}
	cfg.InitialTables = r.Range(1, 2)
	cfg.SnapshotEntries = []uint64{0, 10, 20}[r.Intn(3)]
	cfg.CompactionOverhead = []uint64{1, 3, 8}[r.Intn(3)]
	cfg.MaxInMemLogSize = []uint64{0, 400, 1 << 20}[r.Intn(3)]
	cfg.LogCacheSize = []int{0, 3, 50}[r.Intn(3)]
	cfg.PollMs = []int{101, 503}[r.Intn(2)]
	cfg.LeaseMs = []int{307, 1009}[r.Intn(2)]
	cfg.ReconcileMs = 1013
	cfg.LogTimeoutMs = 2003
	for i := 0; i < cfg.Leaders+cfg.Followers; i++ {
		cfg.RecoveryTypes = append(cfg.RecoveryTypes, r.Intn(2))
	}
	cfg.CutPermille = []uint64{0, 300}[r.Intn(2)]
	cfg.FollowerFirst = true
	faulty := r.Chance(0.6)
	if faulty && r.Chance(0.4) {
		cfg.BusyPermille = uint64(r.Range(0, 60))
		cfg.TOLostPermille = uint64(r.Range(0, 30))
		cfg.TOLatePermille = uint64(r.Range(0, 80))
		cfg.TOLateMaxMs = []uint64{50, 700, 3000}[r.Intn(3)]
	}
	clients := r.Range(2, 4)
	var steps []Step
	n := r.Range(10, 36)
	if r.Chance(0.3) {
		// recovery scenario: the leader's log is compacted before the follower's workers make their first
		// poll, so the table reaches the follower through a snapshot restore - into a recovery shard the table
		// is switched to afterwards - while forwarded writes with long deadlines are already waiting; slow
		// applies and lost proposals on the follower stretch the restore
		cfg.SnapshotEntries, cfg.CompactionOverhead = 10, uint64(r.Range(0, 2))
		if r.Chance(0.7) {
			cfg.TOLatePermille, cfg.TOLateMaxMs = uint64(r.Range(20, 90)), []uint64{50, 700, 3000}[r.Intn(3)]
			cfg.TOLostPermille = uint64(r.Range(0, 30))
		}
		for i, k := 0, r.Range(11, 22); i < k; i++ {
			steps = append(steps, g.write(r.Intn(cfg.InitialTables), 0))
		}
		for i, k := 0, r.Range(1, 4); i < k; i++ {
			st := g.write(r.Intn(cfg.InitialTables), r.Intn(cfg.Followers))
			st.Op, st.F, st.Client = "f"+st.Op, true, r.Intn(clients)
			st.Ms, st.Async, st.DelayMs = []int{6000, 20000}[r.Intn(2)], true, []int{0, 1, 20}[r.Intn(3)]
			steps = append(steps, st)
		}
		for i, k := 0, r.Range(3, 8); i < k; i++ {
			steps = append(steps, Step{Op: "advance", Ms: []int{211, 601, 1511}[r.Intn(3)]})
			if r.Chance(0.4) {
				st := g.write(r.Intn(cfg.InitialTables), r.Intn(cfg.Followers))
				st.Op, st.F, st.Client = "f"+st.Op, true, r.Intn(clients)
				st.Ms, st.Async = []int{1500, 6000, 20000}[r.Intn(3)], r.Chance(0.6)
				steps = append(steps, st)
			}
		}
		n += len(steps)
	} else {
		// the follower nodes must run the table shards and hold a lease before a forwarded write can be answered
		steps = append(steps, Step{Op: "advance", Ms: 35000})
	}
	for len(steps) < n {
		w := []int{40, 10, 22, 0, 0, 0, 0, 0}
		if faulty {
			w = []int{40, 10, 22, 5, 4, 3, 3, 2}
		}
		switch r.Pick(w) {
		case 0:
			st := g.write(r.Intn(cfg.InitialTables), r.Intn(cfg.Followers))
			st.Op = "f" + st.Op
			st.F = true
			st.Client = r.Intn(clients)
			st.Ms = []int{300, 1500, 1500, 6000, 20000}[r.Intn(5)] // the caller's deadline
			if r.Chance(0.55) {
				st.Async = true
				st.DelayMs = []int{0, 1, 20}[r.Intn(3)]
			}
			steps = append(steps, st)
		case 1:
			// another client writes through the leader: revisions the follower's waiters did not ask for
			steps = append(steps, g.write(r.Intn(cfg.InitialTables), 0))
		case 2:
			steps = append(steps, Step{Op: "advance", Ms: []int{7, 53, 211, 601, 1511, 4001}[r.Intn(6)]})
		case 3:
			steps = append(steps, Step{Op: "lag", F: true, Shard: "table", T: r.Intn(cfg.InitialTables), Replica: uint64(r.Range(1, 3)), On: r.Chance(0.7)})
		case 4:
			steps = append(steps, Step{Op: "netdelay", Ms: []int{0, 5, 50, 400}[r.Intn(4)]})
		case 5:
			steps = append(steps, Step{Op: "stopholder", T: r.Intn(cfg.InitialTables), Cnt: 2}) // worker restart on the lease holder
		case 6:
			steps = append(steps, Step{Op: "catchup", F: true, Shard: "table", T: r.Intn(cfg.InitialTables), Replica: uint64(r.Range(1, 3)), Cnt: r.Range(0, 3)})
		case 7:
			steps = append(steps, Step{Op: "leaderchange", F: true, Shard: "table", T: r.Intn(cfg.InitialTables)})
		}
	}
	return &Sched{Cfg: *cfg, Steps: steps}
}

// fwdOp is one write sent to a follower node's API.
type fwdOp struct {
	node     *Node
	gen      int
	table    string
	kind     string
	timeout  time.Duration
	start    time.Time
	end      time.Time
	done     bool
	err      error
	rev      uint64 // revision the leader assigned (from the answer)
	idxAtRet uint64 // the node's local leader index of the table right after the answer
	idxErr   error
	key      []byte // single-key put: the key, and what a local read of it on the node returned right after the answer
	readVal  []byte
	readOK   bool // the read itself succeeded
	readHas  bool // ... and found the key
}

func (r *run) localLeaderIndex(n *Node, table string) (uint64, error) {
	at, err := n.engine.GetTable(table)
	if err != nil {
		return 0, err
	}
	ctx, cancel := ctxT(2 * time.Second)
	defer cancel()
	li, err := at.LeaderIndex(ctx, false)
	if err != nil {
		return 0, err
	}
	return li.Index, nil
}

// execFwd sends one write to a follower node and, the instant the answer is there, looks at that node's own
// copy of the table.
func (r *run) execFwd(st *Step) {
	n := r.node(true, st.N)
	if n == nil || !n.up {
		return
	}
	tname := r.table(st.T)
	op := &fwdOp{node: n, gen: n.gen, table: tname, kind: st.Op[1:], timeout: time.Duration(st.Ms) * time.Millisecond}
	r.fwd = append(r.fwd, op)
	r.clientDelay[clientAddr(st.Client)] = time.Duration(st.DelayMs) * time.Millisecond
	r.out.Probe("forwarded-" + op.kind)
	do := func() {
		ctx, cancel := ctxT(op.timeout)
		defer cancel()
		kv := r.w.kvOf(st.Client, n)
		op.start = time.Now()
		var hdr *regattapb.ResponseHeader
		switch op.kind {
		case "put":
			resp, err := kv.Put(ctx, &regattapb.PutRequest{Table: []byte(tname), Key: r.kc.Key(st.K), Value: st.V.Bytes(), PrevKv: st.Prev})
			op.err = err
			if resp != nil {
				hdr = resp.Header
			}
		case "del":
			resp, err := kv.DeleteRange(ctx, &regattapb.DeleteRangeRequest{Table: []byte(tname), Key: r.kc.Key(st.K), RangeEnd: r.kc.Key(st.E), PrevKv: st.Prev, Count: st.Count})
			op.err = err
			if resp != nil {
				hdr = resp.Header
			}
		case "txn":
			resp, err := kv.Txn(ctx, r.txnReq(st))
			op.err = err
			if resp != nil {
				hdr = resp.Header
			}
		}
		op.end = time.Now()
		if r.trace != nil {
			r.trace("forwarded %s on %s answered err=%v hdr=%v", op.kind, n.name, op.err, hdr)
		}
		if op.err == nil && hdr != nil {
			op.rev = hdr.Revision
			// no fake time passes between the answer and this look (a local state-machine lookup)
			if n.up && n.gen == op.gen {
				op.idxAtRet, op.idxErr = r.localLeaderIndex(n, tname)
				if op.kind == "put" && op.idxErr == nil {
					// read-your-writes by content, not only by index: the same instant, a local read of the key
					op.key = r.kc.Key(st.K)
					if at, err := n.engine.GetTable(tname); err == nil {
						rctx, rcancel := ctxT(2 * time.Second)
						resp, err := at.Range(rctx, &regattapb.RangeRequest{Table: []byte(tname), Key: op.key})
						rcancel()
						if err == nil {
							op.readOK = true
							if len(resp.Kvs) > 0 {
								op.readHas, op.readVal = true, append([]byte(nil), resp.Kvs[0].Value...)
							}
						}
					}
				}
			} else {
				op.idxErr = errors.New("node went away")
			}
		}
		op.done = true
	}
	if st.Async {
		go do()
	} else {
		do()
	}
}

// checkForwarded decides the in-situ part of C11 over the recorded forwarded writes.
func (r *run) checkForwarded() {
	if r.failed() {
		return
	}
	for i, op := range r.fwd {
		what := fmt.Sprintf("forwarded %s #%d on %s table %s (deadline %v)", op.kind, i, op.node.name, op.table, op.timeout)
		if !op.done {
			r.fail("C11", "forwarded-never-answered", "forwarded-never-answered", "%s: no answer although its deadline passed long ago", what)
			return
		}
		took := op.end.Sub(op.start)
		if took > op.timeout+1500*time.Millisecond {
			r.fail("C11", "forwarded-late-answer", "forwarded-late-answer", "%s: answered after %v", what, took)
			return
		}
		if op.err == nil {
			r.out.Probe("forwarded-acknowledged")
			if op.rev == 0 {
				// a transaction whose taken branch is empty still carries its revision (C10); nothing to wait for otherwise
				r.out.Probe("forwarded-revision-zero")
				continue
			}
			if op.idxErr != nil {
				continue
			}
			if op.idxAtRet < op.rev {
				r.fail("C11", "acknowledged-before-applied", "acknowledged-before-applied:"+op.kind, "%s: acknowledged with revision %d, but right after the answer the node's own copy of the table is at leader index %d: a read on this node does not observe the write", what, op.rev, op.idxAtRet)
				return
			}
			if op.kind == "put" && op.readOK {
				// the read must show the key as the leader's log has it at the write's revision or at some
				// later index (other writers may have overwritten or deleted it since) - never as it was before
				if lid, ok := r.leaderTables[op.table]; ok {
					lk := dragonboat.ShardKey{Cluster: "L", ShardID: lid}
					end := uint64(len(r.w.u.Log("L", lid)))
					explained, judged := false, false
					for i := op.rev; i <= end; i++ {
						m := r.modelAt(lk, i)
						if m == nil {
							break
						}
						judged = true
						v, has := m.Get(op.key)
						if has == op.readHas && (!has || bytes.Equal(v, op.readVal)) {
							explained = true
							break
						}
					}
					if judged && !explained {
						r.fail("C11", "acknowledged-not-readable", "acknowledged-not-readable:put", "%s: acknowledged with revision %d (node's leader index right after the answer: %d), but a local read of key %q on this node at that instant returned found=%v value %.40q - not the key's state at the write's revision nor at any later index of the leader's log", what, op.rev, op.idxAtRet, op.key, op.readHas, op.readVal)
						return
					}
					if judged {
						r.out.Probe("forwarded-put-read-back-checked")
					}
				}
			}
			if took > 0 {
				r.out.Probe("forwarded-waited")
			}
			continue
		}
		code := status.Code(op.err)
		r.out.Probe("forwarded-error-" + code.String())
		if code != codes.DeadlineExceeded && code != codes.Canceled {
			continue // the leader refused or was unreachable: nothing was promised
		}
		// answered with a deadline error: whether the leader ever saw the request is not visible in an error
		// answer, so "answered as soon as applied" is decided where the revision is known: in W2 (compsim)
	}
}

// finalForwarded: once faults have stopped and replication has converged, a forwarded write on every live
// follower node is acknowledged within a generous deadline (waiting never wedges the node).
func (r *run) finalForwarded() {
	if r.failed() {
		return
	}
	for i, n := range r.w.follow {
		if !n.up {
			continue
		}
		tname := r.table(0)
		// generous on purpose - a bound for "never", not a performance statement: the write itself can make the
		// leader compact its log, the follower then restores the table from a snapshot, and in a follower cluster
		// of several nodes the shard it restores into gets its quorum only when the other nodes' table managers
		// make their next reconcile pass (every 30 s, not configurable)
		ctx, cancel := context.WithTimeout(context.Background(), 200*time.Second)
		start := time.Now()
		resp, err := r.w.kvOf(90+i, n).Put(ctx, &regattapb.PutRequest{Table: []byte(tname), Key: []byte("final"), Value: []byte(fmt.Sprintf("v-final-%d", i))})
		cancel()
		if err != nil {
			// which of two things? Ground truth: the leader log entry this call produced (its value is unique),
			// the node's own leader index now, and what the node's state machines announced during the call.
			val := fmt.Sprintf("v-final-%d", i)
			rev := r.revisionOfPut(tname, val)
			li, _ := r.localLeaderIndex(n, tname)
			announcedDuring := false
			for _, a := range n.announced {
				if a.table == tname && rev != 0 && a.rev >= rev && !a.at.Before(start) {
					announcedDuring = true
				}
			}
			if rev != 0 && li >= rev && announcedDuring {
				// the node applied the write and said so while the call was in flight - but before the handler had
				// queued its waiter (the leader's answer was still on its way): the queue keeps no history, the
				// waiter hangs on the *next* announcement, and on a quiet table there is none before the deadline
				r.fail("C11", "unanswered-although-announced", "unanswered-although-announced:announced-before-queued", "a write sent to %s (revision %d) was answered %v after %v although the node had applied leader index %d and announced it during the call: the announcement came before the forwarding handler had queued its waiter, and the notification queue does not remember it", n.name, rev, err, time.Since(start), li)
				return
			}
			r.fail("C11", "wedged", "wedged:final-forwarded-write", "after faults stopped and the follower cluster had converged, a write sent to %s was answered %v after %v (revision %d in the leader log, node's copy at leader index %d, announced during the call: %v)", n.name, err, time.Since(start), rev, li, announcedDuring)
			return
		}
		li, lerr := r.localLeaderIndex(n, tname)
		if lerr == nil && li < resp.Header.Revision {
			r.fail("C11", "acknowledged-before-applied", "acknowledged-before-applied:final", "final write on %s acknowledged with revision %d, node's copy at leader index %d", n.name, resp.Header.Revision, li)
			return
		}
		r.out.Probe("final-forwarded-write-ok")
	}
}

// revisionOfPut finds, in the ground-truth log of the leader's table shard, the entry of a Put with the given
// (unique) value: its index is the revision the write was given. 0 if the leader never proposed it.
func (r *run) revisionOfPut(table, value string) uint64 {
	sid, ok := r.leaderTables[table]
	if !ok {
		return 0
	}
	var found uint64
	for _, e := range r.w.u.Log("L", sid) {
		if !e.Regular {
			continue
		}
		c := &regattapb.Command{}
		if err := c.UnmarshalVT(e.Payload); err != nil {
			continue
		}
		if c.Type == regattapb.Command_PUT && c.Kv != nil && string(c.Kv.Value) == value {
			found = e.Index
		}
	}
	return found
}
