package clustersim

import (
	"encoding/json"

	"verif/sim/core"
	"verif/sim/fsmsim"
)

type Cfg struct {
	Prop               string      `json:"prop"`
	Seed               uint64      `json:"seed"`
	Keys               []fsmsim.QB `json:"keys"`
	Tables             []string    `json:"tables"`
	InitialTables      int         `json:"initial_tables"`
	Leaders            int         `json:"leaders"`
	Followers          int         `json:"followers"`
	SnapshotEntries    uint64      `json:"snapshot_entries"`
	CompactionOverhead uint64      `json:"compaction_overhead"`
	MaxInMemLogSize    uint64      `json:"max_in_mem_log_size"`
	LogCacheSize       int         `json:"log_cache_size"`
	MaxMsg             uint64      `json:"max_msg"`
	PollMs             int         `json:"poll_ms"`
	LeaseMs            int         `json:"lease_ms"`
	ReconcileMs        int         `json:"reconcile_ms"`
	LogTimeoutMs       int         `json:"log_timeout_ms"`
	RecoveryTypes      []int       `json:"recovery_types"`
	CutPermille        uint64      `json:"cut_permille"`
	BusyPermille       uint64      `json:"busy_permille,omitempty"`
	DropPermille       uint64      `json:"drop_permille,omitempty"`
	TOLostPermille     uint64      `json:"timeout_lost_permille,omitempty"`
	TOAppliedPermille  uint64      `json:"timeout_applied_permille,omitempty"`
	TOLatePermille     uint64      `json:"timeout_late_permille,omitempty"` // ErrTimeout now, committed up to TOLateMaxMs later
	TOLateMaxMs        uint64      `json:"timeout_late_max_ms,omitempty"`
	FollowerFirst      bool        `json:"follower_first,omitempty"` // followers start before any leader write
	ReadBusyPermille   uint64      `json:"read_busy_permille,omitempty"`
	NoReplication      bool        `json:"no_replication,omitempty"` // follower nodes run no replication manager (C15: only the harness leases)
}

// Step is one kernel step.
type Step struct {
	Op string `json:"op"`
	F  bool   `json:"f,omitempty"` // target the follower cluster
	N  int    `json:"n,omitempty"` // node index inside its cluster
	T  int    `json:"t,omitempty"` // table index
	// kv
	K         int             `json:"k,omitempty"`
	E         int             `json:"e,omitempty"`
	V         fsmsim.Val      `json:"v,omitempty"`
	Prev      bool            `json:"prev,omitempty"`
	Count     bool            `json:"count,omitempty"`
	Limit     int             `json:"limit,omitempty"`
	KeysOnly  bool            `json:"keys_only,omitempty"`
	CountOnly bool            `json:"count_only,omitempty"`
	Lin       bool            `json:"lin,omitempty"`
	Txn       *fsmsim.TxnSpec `json:"txn,omitempty"`
	Client    int             `json:"client,omitempty"`
	Async     bool            `json:"async,omitempty"`
	DelayMs   int             `json:"delay_ms,omitempty"`
	Ms        int             `json:"ms,omitempty"`
	Shard     string          `json:"shard,omitempty"` // meta | table | repl
	Replica   uint64          `json:"replica,omitempty"`
	On        bool            `json:"on,omitempty"`
	Cnt       int             `json:"cnt,omitempty"`
	Raw       *RawReq         `json:"raw,omitempty"`
	Flip      int             `json:"flip,omitempty"`
}

// RawReq describes an invalid request for C16.
type RawReq struct {
	Method    string `json:"method"`
	Violation string `json:"violation"`
	Size      int    `json:"size,omitempty"`
	Nested    bool   `json:"nested,omitempty"`
}

type Sched struct {
	Cfg   Cfg    `json:"cfg"`
	Steps []Step `json:"steps"`
}

func (s *Sched) Len() int { return len(s.Steps) }
func (s *Sched) Subset(keep []int) core.Schedule {
	c := &Sched{Cfg: s.Cfg}
	for _, i := range keep {
		c.Steps = append(c.Steps, s.Steps[i])
	}
	return c
}
func Decode(raw json.RawMessage) (core.Schedule, error) {
	s := &Sched{}
	return s, json.Unmarshal(raw, s)
}
