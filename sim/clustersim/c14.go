package clustersim

import (
	"encoding/json"
	"fmt"
	"sort"
	"strings"
	"time"

	"github.com/jamf/regatta/regattapb"
	dragonboat "github.com/lni/dragonboat/v4"
	"verif/sim/core"
	"verif/sim/fsmsim"
)

// GenC14 draws catalogue histories: create / delete / list over a few names from different nodes
// (also concurrently), interleaved with data operations, restarts, metadata-replica lag and clock
// advances across the reconcile (30 s) and clean-up (5 min) periods.
func GenC14(r *core.Rand, tier string) core.Schedule {
	g := &wgen{r: r}
	cfg := &Cfg{Prop: "C14", Seed: r.Uint64()}
	g.cfg = cfg
	g.kg = fsmsim.NewKeyGen(r.Fork("keys"), false, 3)
	cfg.Keys = g.kg.Keys()
	cfg.Leaders = []int{1, 3, 3}[r.Intn(3)]
	cfg.Tables = []string{"ta", "ta-x", "tb", "t"}[:r.Range(2, 4)] // names that are prefixes of each other
	cfg.InitialTables = r.Range(0, 1)
	cfg.SnapshotEntries = []uint64{0, 10}[r.Intn(2)]
	cfg.CompactionOverhead = 3
	cfg.MaxInMemLogSize = 1 << 20
	cfg.PollMs, cfg.LeaseMs, cfg.ReconcileMs, cfg.LogTimeoutMs = 503, 1009, 1013, 5003
	cfg.RecoveryTypes = []int{r.Intn(2), r.Intn(2), r.Intn(2)}
	var steps []Step
	n := r.Range(10, 34)
	for len(steps) < n {
		t := r.Intn(len(cfg.Tables))
		nd := r.Intn(cfg.Leaders)
		switch r.Pick([]int{22, 14, 10, 20, 10, 10, 5, 5, 4, 5}) {
		case 9:
			// operator backup and restore: the catalogue carries a recovery shard id while it runs
			steps = append(steps, Step{Op: "backup", N: nd, Cnt: 0}, Step{Op: "restore", N: nd, Cnt: 0}, Step{Op: "advance", Ms: 1511})
		case 0:
			steps = append(steps, Step{Op: "ccreate", N: nd, T: t})
		case 1:
			steps = append(steps, Step{Op: "cdelete", N: nd, T: t})
		case 2:
			steps = append(steps, Step{Op: "clist", N: nd})
		case 3:
			st := g.write(t, nd)
			steps = append(steps, st)
		case 4:
			steps = append(steps, Step{Op: "advance", Ms: []int{53, 1511, 9001, 31013, 62003}[r.Intn(5)]})
		case 5:
			// two catalogue changes racing from different nodes
			a := Step{Op: "ccreate", N: nd, T: t, Async: true, DelayMs: r.Range(0, 3)}
			b := Step{Op: "ccreate", N: r.Intn(cfg.Leaders), T: t, Async: true, DelayMs: r.Range(0, 3)}
			if r.Chance(0.3) {
				b.Op = "cdelete"
			}
			if r.Chance(0.3) {
				b.T = r.Intn(len(cfg.Tables))
			}
			steps = append(steps, a, b, Step{Op: "advance", Ms: 211})
		case 6:
			if cfg.Leaders > 1 {
				steps = append(steps, Step{Op: "lag", Shard: "meta", Replica: uint64(r.Range(1, 3)), On: r.Chance(0.7)})
			}
		case 7:
			if cfg.Leaders > 1 {
				steps = append(steps, Step{Op: "stopnode", N: nd}, Step{Op: "advance", Ms: 1511}, Step{Op: "startnode", N: nd})
			}
		case 8:
			steps = append(steps, Step{Op: "advance", Ms: 331013}) // past the clean-up grace period
		}
	}
	return &Sched{Cfg: *cfg, Steps: steps}
}

type catOp struct {
	kind    string // create delete list
	node    *Node
	name    string
	err     error
	id      uint64
	names   []string
	callAt  uint64 // metadata log end when the call started
	applied uint64 // the node's metadata replica applied index when the call started
	retAt   uint64
	done    bool
	step    int
}

type metaEntry struct {
	index uint64
	op    string
	key   string
	val   string
	ver   uint64
	ok    bool // succeeded under compare-and-set replay
}

type metaState struct {
	kv map[string][2]any // key -> (value string, version uint64)
}

// replayMeta replays the ground-truth metadata log with compare-and-set semantics.
func (r *run) replayMeta() ([]metaEntry, []map[string]uint64) {
	log := r.w.u.Log("L", 1000)
	cur := map[string]struct {
		val string
		ver uint64
	}{}
	var ents []metaEntry
	cats := make([]map[string]uint64, len(log)+1) // catalogue (name -> cluster id) after index i
	cats[0] = map[string]uint64{}
	for i, e := range log {
		cat := cats[i]
		if e.Regular {
			var u struct {
				Op     string
				KVPair struct {
					Key   string
					Value string
					Ver   uint64
				}
			}
			if err := json.Unmarshal(e.Payload, &u); err == nil {
				me := metaEntry{index: e.Index, op: u.Op, key: u.KVPair.Key, val: u.KVPair.Value, ver: u.KVPair.Ver}
				c, exists := cur[me.key]
				if !exists || c.ver == me.ver {
					me.ok = true
					if me.op == "set" {
						cur[me.key] = struct {
							val string
							ver uint64
						}{me.val, e.Index}
					} else {
						delete(cur, me.key)
					}
					if strings.HasPrefix(me.key, "/tables/") && strings.Count(me.key, "/") == 2 {
						cat = map[string]uint64{}
						for k, v := range cats[i] {
							cat[k] = v
						}
						name := strings.TrimPrefix(me.key, "/tables/")
						if me.op == "set" {
							var t struct {
								Name      string `json:"name"`
								ClusterID uint64 `json:"cluster_id"`
								RecoverID uint64 `json:"recover_id"`
							}
							_ = json.Unmarshal([]byte(me.val), &t)
							cat[name] = t.ClusterID
							if r.recoverIDs == nil {
								r.recoverIDs = map[string]uint64{}
							}
							r.recoverIDs[name] = t.RecoverID
						} else {
							delete(r.recoverIDs, name)
							delete(cat, name)
						}
					}
				}
				ents = append(ents, me)
			}
		}
		cats[i+1] = cat
	}
	return ents, cats
}

func (r *run) execCat(st *Step) {
	n := r.node(false, st.N)
	if n == nil || !n.up {
		return
	}
	op := &catOp{node: n, name: r.table(st.T), step: r.step}
	switch st.Op {
	case "ccreate":
		op.kind = "create"
	case "cdelete":
		op.kind = "delete"
	default:
		op.kind = "list"
	}
	ms, _ := r.w.u.Shard("L", 1000)
	op.callAt = ms.Last
	op.applied = ms.Replicas[n.cfg.ID].Applied
	r.cat = append(r.cat, op)
	do := func() {
		ctx, cancel := ctxT(5 * time.Second)
		defer cancel()
		tc := regattapb.NewTablesClient(r.w.client(n))
		switch op.kind {
		case "create":
			resp, err := tc.Create(ctx, &regattapb.CreateTableRequest{Name: op.name})
			op.err = err
			if err == nil {
				fmt.Sscanf(resp.GetId(), "%d", &op.id)
			}
		case "delete":
			_, op.err = tc.Delete(ctx, &regattapb.DeleteTableRequest{Name: op.name})
		default:
			resp, err := tc.List(ctx, &regattapb.ListTablesRequest{})
			op.err = err
			if err == nil {
				for _, t := range resp.Tables {
					op.names = append(op.names, t.Name)
				}
				sort.Strings(op.names)
			}
		}
		ms, _ := r.w.u.Shard("L", 1000)
		op.retAt = ms.Last
		op.done = true
	}
	if st.Async {
		r.clientDelay[clientAddr(0)] = time.Duration(st.DelayMs) * time.Millisecond
		go do()
	} else {
		do()
	}
	r.out.Probe("catalogue-" + op.kind)
}

// checkCatalogue decides C14 over the recorded catalogue operations against the ground-truth
// metadata log, then the content of every table and the reconciliation outcome.
func (r *run) checkCatalogue() {
	if r.failed() {
		return
	}
	ents, cats := r.replayMeta()
	// ids are never reused: every id that appears in a successful catalogue entry is larger than all before
	maxID := uint64(10000)
	seen := map[uint64]string{}
	for _, e := range ents {
		if !e.ok || e.op != "set" || !strings.HasPrefix(e.key, "/tables/") || strings.Count(e.key, "/") != 2 {
			continue
		}
		var t struct {
			ClusterID uint64 `json:"cluster_id"`
			RecoverID uint64 `json:"recover_id"`
		}
		_ = json.Unmarshal([]byte(e.val), &t)
		name := strings.TrimPrefix(e.key, "/tables/")
		for _, id := range []uint64{t.ClusterID, t.RecoverID} {
			if id == 0 {
				continue
			}
			if prev, ok := seen[id]; ok {
				if prev != name {
					r.fail("C14", "id-reused", "id-reused", "shard id %d is assigned to table %s (metadata log index %d) after having belonged to table %s", id, name, e.index, prev)
					return
				}
				continue
			}
			if id <= maxID {
				r.fail("C14", "id-not-increasing", "id-not-increasing", "table %s receives shard id %d at metadata log index %d although id %d was handed out before", name, id, e.index, maxID)
				return
			}
			maxID = id
			seen[id] = name
		}
	}
	existsIn := func(name string, lo, hi uint64) (always, never bool) {
		always, never = true, true
		for i := lo; i <= hi && i < uint64(len(cats)); i++ {
			if _, ok := cats[i][name]; ok {
				never = false
			} else {
				always = false
			}
		}
		return
	}
	// every change of a catalogue entry belongs to an operation on that very name
	for _, e := range ents {
		if !e.ok || !strings.HasPrefix(e.key, "/tables/") || strings.Count(e.key, "/") != 2 || e.index <= r.metaBaseline {
			continue
		}
		name := strings.TrimPrefix(e.key, "/tables/")
		explained := false
		for _, op := range r.cat {
			if op.name == name && op.kind != "list" && e.index > op.callAt && (e.index <= op.retAt || !op.done) {
				explained = true
			}
		}
		for _, w := range r.restoreWins[name] {
			if e.index > w[0] && e.index <= w[1] {
				explained = true
			}
		}
		if !explained {
			r.fail("C14", "catalogue-change-unexplained", "catalogue-change-unexplained:"+e.op, "the catalogue entry of table %s was changed (%s, metadata log index %d) although no create, delete or restore of that table was in progress", name, e.op, e.index)
			return
		}
	}
	claimedCreate := map[uint64]bool{}
	for _, op := range r.cat {
		r.dig.AddString(op.kind + op.name)
		if op.err == nil {
			r.dig.Add(op.id + 1)
		} else {
			r.dig.Add(0)
		}
		if !op.done {
			r.fail("C14", "call-never-returned", "call-never-returned", "catalogue %s of %s on %s never returned", op.kind, op.name, op.node.name)
			return
		}
		lo := op.applied // the node reads the catalogue locally: what it had applied is the oldest view it can act on
		if lo > op.callAt {
			lo = op.callAt
		}
		what := fmt.Sprintf("%s(%s) on %s (metadata log %d..%d, node had applied %d)", op.kind, op.name, op.node.name, op.callAt, op.retAt, op.applied)
		always, never := existsIn(op.name, lo, op.retAt)
		switch op.kind {
		case "create":
			if op.err == nil {
				// its own successful entry must be in the window and the name must have been absent right before it
				found := false
				for _, e := range ents {
					if e.ok && e.op == "set" && e.key == "/tables/"+op.name && e.index > op.callAt && e.index <= op.retAt && !claimedCreate[e.index] {
						if _, existed := cats[e.index-1][op.name]; existed {
							continue
						}
						var t struct {
							ClusterID uint64 `json:"cluster_id"`
						}
						_ = json.Unmarshal([]byte(e.val), &t)
						if t.ClusterID == op.id {
							found = true
							claimedCreate[e.index] = true
							break
						}
					}
				}
				if !found {
					sig := "create-ok-without-entry"
					if always {
						sig = "create-ok-although-exists"
					}
					r.fail("C14", "create-ok-unexplained", sig, "%s reported success with id %d, but the metadata log has no successful creation of that name and id inside the call (name existed throughout: %v)", what, op.id, always)
					return
				}
				r.out.Probe("create-ok")
			} else if never && op.retAt == op.callAt && op.applied == op.callAt {
				// nothing else changed the catalogue meanwhile and the node was up to date: must succeed
				if !dragonboatTemp(op.err) {
					r.fail("C14", "create-refused", "create-refused-without-conflict", "%s failed with %v although no table of that name existed and no catalogue change overlapped", what, op.err)
					return
				}
			} else if !never {
				r.out.Probe("create-refused-exists")
			}
		case "delete":
			if op.err == nil {
				// its own delete entry must be in the window, and the table must have existed at some
				// index the node could have been looking at (from what its replica had applied to the
				// end of the call). A delete racing with another delete through a lagging metadata replica
				// is concurrent with it by this rule and may report success as well (the store accepts a
				// delete of a key that is already gone); with an up-to-date replica the table must exist.
				found := false
				for _, e := range ents {
					if e.ok && e.op == "delete" && e.key == "/tables/"+op.name && e.index > op.callAt && e.index <= op.retAt {
						found = true
					}
				}
				if !found || never {
					r.fail("C14", "delete-ok-unexplained", "delete-ok-unexplained", "%s reported success, but the table existed at no metadata log index the node could have seen during the call (own delete entry in the log: %v)", what, found)
					return
				}
				if _, existed := cats[op.callAt][op.name]; !existed && op.retAt > op.callAt {
					r.out.Probe("delete-ok-raced-with-delete(lagging-replica)")
				}
				r.out.Probe("delete-ok")
			} else if always && op.retAt == op.callAt && op.applied == op.callAt && !dragonboatTemp(op.err) {
				r.fail("C14", "delete-refused", "delete-refused-without-conflict", "%s failed with %v although the table existed and no catalogue change overlapped", what, op.err)
				return
			}
		case "list":
			if op.err != nil {
				continue
			}
			ok := false
			for i := lo; i <= op.retAt && i < uint64(len(cats)); i++ {
				var names []string
				for k := range cats[i] {
					names = append(names, k)
				}
				sort.Strings(names)
				if strings.Join(names, ",") == strings.Join(op.names, ",") {
					ok = true
					break
				}
			}
			if !ok {
				r.fail("C14", "list-unexplained", "list-unexplained", "%s returned %v, which is the set of created-and-not-deleted tables at no metadata log index in that window (catalogue at the end: %v)", what, op.names, cats[len(cats)-1])
				return
			}
			r.out.Probe("list-ok")
		}
	}
	// content: every catalogued table equals the replay of its own shard's log (a new table - also one
	// recreated under a used name - is empty; operations on one table never change another)
	final := cats[len(cats)-1]
	names := make([]string, 0, len(final))
	for k := range final {
		names = append(names, k)
	}
	sort.Strings(names)
	for _, n := range r.w.leaders {
		if !n.up {
			continue
		}
		for _, name := range names {
			id := final[name]
			if id == 0 {
				continue
			}
			ss, ok := r.w.u.Shard("L", id)
			if !ok || ss.Leader == 0 {
				continue
			}
			ctx, cancel := ctxT(3 * time.Second)
			pairs, err := scanAll(ctx, n, name, true)
			cancel()
			if err != nil {
				continue
			}
			ss, _ = r.w.u.Shard("L", id)
			want := r.modelAt(dragonboat.ShardKey{Cluster: "L", ShardID: id}, ss.Last)
			if want == nil {
				continue
			}
			if d := want.Diff(pairs); d != "" {
				sig := "table-content"
				if want.Len() == 0 {
					sig = "new-table-not-empty"
				}
				r.fail("C14", "table-content", sig, "table %s (shard %d) read on %s differs from the replay of its own log: %s", name, id, n.name, d)
				return
			}
			r.out.Probe("table-content-checked")
		}
	}
}

// checkReconciled: after two quiet reconcile periods every node runs exactly the catalogued shards.
func (r *run) checkReconciled() {
	if r.failed() {
		return
	}
	_, cats := r.replayMeta()
	final := cats[len(cats)-1]
	want := map[uint64]bool{}
	for name, id := range final {
		if id != 0 {
			want[id] = true
		}
		if rid := r.recoverIDs[name]; rid != 0 {
			want[rid] = true // a restore in progress (or failed): its recovery shard is catalogued as well
		}
	}
	for _, n := range r.w.leaders {
		if !n.up {
			continue
		}
		running := map[uint64]bool{}
		for _, s := range r.w.u.Shards() {
			if s.Key.Cluster != "L" || s.Key.ShardID <= 10000 {
				continue
			}
			if rep, ok := s.Replicas[n.cfg.ID]; ok && rep.Running {
				running[s.Key.ShardID] = true
			}
		}
		for id := range want {
			if !running[id] {
				r.fail("C14", "reconcile-not-started", "reconcile-not-started", "two reconcile periods after the last catalogue change node %s does not run catalogued shard %d (running: %v)", n.name, id, keysOf(running))
				return
			}
		}
		for id := range running {
			if !want[id] {
				r.fail("C14", "reconcile-not-stopped", "reconcile-not-stopped", "two reconcile periods after the last catalogue change node %s still runs shard %d, which is no longer catalogued (catalogue: %v)", n.name, id, keysOf(want))
				return
			}
		}
		r.out.Probe("reconciled-node-checked")
	}
}

func keysOf(m map[uint64]bool) []uint64 {
	var ks []uint64
	for k := range m {
		ks = append(ks, k)
	}
	sort.Slice(ks, func(i, j int) bool { return ks[i] < ks[j] })
	return ks
}

func dragonboatTemp(err error) bool {
	s := err.Error()
	return strings.Contains(s, "Unavailable") || strings.Contains(s, "not ready") || strings.Contains(s, "timeout") || strings.Contains(s, "busy") || strings.Contains(s, "DeadlineExceeded")
}
