//go:debug randautoseed=0
//go:debug randseednop=0
package c13kv

import (
	"testing"

	"verif/sim/core"
)

var Specs = map[string]*core.Spec{
	"C13": {Prop: "C13", World: "W2 c13kv", Gen: Gen, Decode: Decode, Exec: Exec, LightRuns: true,
		Rule:           "seeded logs of set/delete over 3-6 keys with versions current/stale/zero/future, values with JSON-sensitive characters, random batch cuts per replica, snapshot save/recover (writes between prepare and save, short reads, fresh or existing receiver), all lookup kinds with the glob patterns the callers use; non-trivial = a version mismatch occurred and a multi-entry batch was applied; distinct = digests of all results",
		Real:           []string{"storage/kv LFSM (Update, Lookup, PrepareSnapshot, SaveSnapshot, RecoverFromSnapshot)", "storage/kv MapStore"},
		Stub:           []string{"Raft library: single-threaded driver honouring the IConcurrentStateMachine contract"},
		RequiredProbes: []string{"version-mismatch", "snapshot-install", "multi-entry-batch", "glob-multi-match"},
		Assumptions:    []string{"keys and directory paths are well-formed slash-separated paths as the callers produce them; values are valid UTF-8 (they travel as JSON)", "RaftStore.Set/Delete error mapping is covered in W3, not here"}},
}

func TestRun(t *testing.T) { core.Main(t, Specs) }
