// Package c13kv (world W2): the real cluster-internal metadata state machine
// kv.LFSM, 2-3 replicas fed one log by a driver that follows dragonboat's
// IConcurrentStateMachine contract, against a compare-and-set register-map model.
package c13kv

import (
	"bytes"
	"encoding/json"
	"errors"
	"fmt"
	"io"
	"path"
	"reflect"
	"runtime/debug"
	"sort"
	"strings"

	"github.com/jamf/regatta/storage/kv"
	sm "github.com/lni/dragonboat/v4/statemachine"
	"verif/sim/core"
)

type Step struct {
	Op string `json:"op"` // propose apply lookup snap reset
	// propose
	Kind string `json:"kind,omitempty"` // set delete
	Key  int    `json:"key,omitempty"`
	Val  string `json:"val,omitempty"`
	Ver  uint64 `json:"ver"`
	Gap  int    `json:"gap,omitempty"`
	// apply
	R    int   `json:"r,omitempty"`
	N    int   `json:"n,omitempty"`
	Cuts []int `json:"cuts,omitempty"`
	// lookup
	Q   string `json:"q,omitempty"` // exist key all allvalues list listdir
	Arg string `json:"arg,omitempty"`
	// snap
	To      int `json:"to,omitempty"`
	Between int `json:"between,omitempty"` // entries applied on the saver between prepare and save
	Short   int `json:"short,omitempty"`
}

type Sched struct {
	Replicas int      `json:"replicas"`
	Keys     []string `json:"keys"`
	Steps    []Step   `json:"steps"`
}

func (s *Sched) Len() int { return len(s.Steps) }
func (s *Sched) Subset(keep []int) core.Schedule {
	c := &Sched{Replicas: s.Replicas, Keys: s.Keys}
	for _, i := range keep {
		c.Steps = append(c.Steps, s.Steps[i])
	}
	return c
}
func Decode(raw json.RawMessage) (core.Schedule, error) {
	s := &Sched{}
	return s, json.Unmarshal(raw, s)
}

var keyPool = []string{"/tables/a", "/tables/b", "/tables/ab", "/tables/a/lease", "/tables/b/lease", "/tables/sys/idseq", "/cleanup/1/a", "/cleanup/1/b", "/cleanup/2/a", "/cleanup/12/c", "/x", "/tables/a/b/c", "/tables/ab/x/y", "/cleanup/12/c/d", "/tables/b_old/s/0",
	// a key equal to the directory of a pattern, and keys that extend that directory's name as a string
	"/cleanup/1", "/cleanup/10", "/cleanup/1x"}
var patterns = []string{"/tables/*", "/cleanup/1/*", "/cleanup/2/*", "/cleanup/*/*", "/tables/*/lease", "/*", "/tables/a*", "/nonexistent/*", "/tables/?", "/tables/[ab]", "/tables/a/*", "/tables/ab/*", "/cleanup/12/*"}
var dirs = []string{"/tables", "/tables/a", "/cleanup", "/cleanup/1", "/tables/sys", "/nothing", "/tables/a/b", "/x", "/tables/b", "/tables/ab", "/cleanup/12"}
var valPool = []string{"", "v", "{\"name\":\"t\",\"cluster_id\":10001}", "quote\"back\\slash", "new\nline\ttab", "ünïcödé ✓", "<html>&amp;", " sep", "10002", "1700000000000$3"}

type mpair struct {
	val string
	ver uint64
}

// Gen draws a schedule. The generator keeps its own copy of the model so that it can aim versions.
func Gen(r *core.Rand, tier string) core.Schedule {
	s := &Sched{Replicas: r.Range(2, 3)}
	nk := r.Range(3, 6)
	perm := r.Bytes(len(keyPool))
	idx := make([]int, len(keyPool))
	for i := range idx {
		idx[i] = i
	}
	sort.Slice(idx, func(a, b int) bool { return perm[idx[a]] < perm[idx[b]] })
	for i := 0; i < nk; i++ {
		s.Keys = append(s.Keys, keyPool[idx[i]])
	}
	gm := map[string]mpair{}
	old := map[string][]uint64{}
	index := uint64(0)
	logN := 0
	pos := make([]int, s.Replicas)
	n := r.Range(8, 50)
	for len(s.Steps) < n {
		switch r.Pick([]int{40, 25, 25, 8}) {
		case 0:
			k := r.Intn(nk)
			key := s.Keys[k]
			st := Step{Op: "propose", Key: k, Kind: "set", Val: valPool[r.Intn(len(valPool))]}
			if r.Chance(0.3) {
				st.Kind = "delete"
				st.Val = ""
			}
			if r.Chance(0.15) {
				st.Gap = r.Range(1, 3)
			}
			index += uint64(1 + st.Gap)
			cur, ok := gm[key]
			switch r.Intn(6) {
			case 0:
				st.Ver = 0
			case 1:
				if vs := old[key]; len(vs) > 0 {
					st.Ver = vs[r.Intn(len(vs))]
				}
			case 2:
				st.Ver = index + uint64(r.Range(0, 50))
			default:
				if ok {
					st.Ver = cur.ver
				}
			}
			// generator-side model
			if !ok || cur.ver == st.Ver {
				if ok {
					old[key] = append(old[key], cur.ver)
				}
				if st.Kind == "set" {
					gm[key] = mpair{st.Val, index}
				} else {
					delete(gm, key)
				}
			}
			logN++
			s.Steps = append(s.Steps, st)
		case 1:
			rep := r.Intn(s.Replicas)
			if logN-pos[rep] > 0 {
				cnt := r.Range(1, logN-pos[rep])
				if r.Chance(0.5) {
					cnt = logN - pos[rep]
				}
				st := Step{Op: "apply", R: rep, N: cnt}
				left := cnt
				for left > 0 {
					c := r.Range(1, left)
					st.Cuts = append(st.Cuts, c)
					left -= c
				}
				pos[rep] += cnt
				s.Steps = append(s.Steps, st)
			}
		case 2:
			st := Step{Op: "lookup", R: r.Intn(s.Replicas), Q: []string{"exist", "key", "all", "allvalues", "list", "listdir"}[r.Intn(6)]}
			switch st.Q {
			case "exist", "key":
				st.Arg = s.Keys[r.Intn(nk)]
				if r.Chance(0.1) {
					st.Arg = "/missing"
				}
			case "all", "allvalues":
				st.Arg = patterns[r.Intn(len(patterns))]
			default:
				st.Arg = dirs[r.Intn(len(dirs))]
			}
			s.Steps = append(s.Steps, st)
		default:
			from := r.Intn(s.Replicas)
			to := r.Intn(s.Replicas)
			if to == from {
				to = (from + 1) % s.Replicas
			}
			if pos[from] < pos[to] {
				from, to = to, from
			}
			st := Step{Op: "snap", R: from, To: to}
			if logN-pos[from] > 0 && r.Chance(0.4) {
				st.Between = r.Range(1, logN-pos[from])
			}
			if r.Chance(0.4) {
				st.Short = []int{1, 2, 7, 100}[r.Intn(4)]
			}
			at := pos[from]
			pos[from] += st.Between
			pos[to] = at
			s.Steps = append(s.Steps, st)
		}
	}
	return s
}

// ---- model ---------------------------------------------------------------------

type model map[string]mpair

func (m model) clone() model {
	c := model{}
	for k, v := range m {
		c[k] = v
	}
	return c
}

type expUpd struct {
	code uint64 // 1 success, 2 mismatch
	pair kv.Pair
}

func (m model) apply(op, key, val string, ver, index uint64) expUpd {
	if cur, ok := m[key]; ok && cur.ver != ver {
		return expUpd{code: 2, pair: kv.Pair{Key: key, Value: cur.val, Ver: cur.ver}}
	}
	if op == "set" {
		m[key] = mpair{val, index}
		return expUpd{code: 1, pair: kv.Pair{Key: key, Value: val, Ver: index}}
	}
	delete(m, key)
	return expUpd{code: 1, pair: kv.Pair{Key: key, Ver: index}}
}

func (m model) sortedKeys() []string {
	ks := make([]string, 0, len(m))
	for k := range m {
		ks = append(ks, k)
	}
	sort.Strings(ks)
	return ks
}

func (m model) all(pattern string) []kv.Pair {
	out := []kv.Pair{}
	for _, k := range m.sortedKeys() {
		if ok, _ := path.Match(pattern, k); ok {
			out = append(out, kv.Pair{Key: k, Value: m[k].val, Ver: m[k].ver})
		}
	}
	return out
}

// list: names of the immediate children (keys and sub-directories) of dir, or the base name if dir itself is a key.
func (m model) list(dir string) []string {
	set := map[string]bool{}
	pre := strings.TrimSuffix(dir, "/") + "/"
	for k := range m {
		if k == dir {
			set[path.Base(k)] = true
			continue
		}
		if strings.HasPrefix(k, pre) {
			set[strings.Split(k[len(pre):], "/")[0]] = true
		}
	}
	return sortedSet(set)
}

// listDir: names of the immediate sub-directories of dir (those that contain at least one key).
func (m model) listDir(dir string) []string {
	set := map[string]bool{}
	pre := strings.TrimSuffix(dir, "/") + "/"
	for k := range m {
		if strings.HasPrefix(k, pre) {
			rest := strings.Split(k[len(pre):], "/")
			if len(rest) >= 2 {
				set[rest[0]] = true
			}
		}
	}
	return sortedSet(set)
}

func sortedSet(s map[string]bool) []string {
	out := []string{}
	for k := range s {
		out = append(out, k)
	}
	sort.Strings(out)
	return out
}

// ---- execution -----------------------------------------------------------------

type logEntry struct {
	index uint64
	raw   []byte
	op    string
	key   string
	val   string
	ver   uint64
}

type replica struct {
	sm  sm.IConcurrentStateMachine
	pos int
}

type shortReader struct {
	r io.Reader
	n int
}

func (s *shortReader) Read(p []byte) (int, error) {
	if s.n > 0 && len(p) > s.n {
		p = p[:s.n]
	}
	return s.r.Read(p)
}

func guard(f func()) (pv any, stack string) {
	defer func() {
		if r := recover(); r != nil {
			pv, stack = r, string(debug.Stack())
		}
	}()
	f()
	return
}

func Exec(s core.Schedule) *core.Outcome {
	sc := s.(*Sched)
	out := core.NewOutcome()
	var dig core.Digest
	step := 0
	fail := func(oracle, sig, f string, a ...any) { out.Fail("C13", oracle, sig, step, f, a...) }
	var log []*logEntry
	states := []model{{}}
	var exps []expUpd
	index := uint64(0)
	maxVer := uint64(0)
	reps := make([]*replica, sc.Replicas)
	for i := range reps {
		reps[i] = &replica{sm: kv.NewLFSM()(1000, uint64(i+1))}
	}
	first := map[uint64][2]any{}

	applyBatch := func(r *replica, n int) bool {
		ents := make([]sm.Entry, n)
		for i := 0; i < n; i++ {
			e := log[r.pos+i]
			ents[i] = sm.Entry{Index: e.index, Cmd: append([]byte(nil), e.raw...)}
		}
		var res []sm.Entry
		var err error
		if pv, st := guard(func() { res, err = r.sm.Update(ents) }); pv != nil {
			fail("update-panic", "update-panic", "Update panicked: %v\n%s", pv, st)
			return false
		}
		if err != nil || len(res) != n {
			fail("update-error", "update-error", "Update: %v (%d results for %d entries)", err, len(res), n)
			return false
		}
		for i := 0; i < n; i++ {
			e := log[r.pos+i]
			x := exps[r.pos+i]
			if res[i].Result.Value != x.code {
				fail("result-code", fmt.Sprintf("result-code:%s:want%d", e.op, x.code), "entry %d (%s %s ver %d): result code %d, model says %d", e.index, e.op, e.key, e.ver, res[i].Result.Value, x.code)
				return false
			}
			var got kv.Pair
			if err := json.Unmarshal(res[i].Result.Data, &got); err != nil {
				fail("result-data", "result-data-decode", "entry %d: result data %q does not decode: %v", e.index, res[i].Result.Data, err)
				return false
			}
			if x.code == 2 {
				out.Probe("version-mismatch")
				if got != x.pair {
					fail("mismatch-pair", "mismatch-pair", "entry %d: mismatch reports %+v, current pair is %+v", e.index, got, x.pair)
					return false
				}
			} else {
				if got.Key != x.pair.Key || got.Ver != x.pair.Ver || (e.op == "set" && got.Value != x.pair.Value) {
					fail("success-pair", "success-pair:"+e.op, "entry %d (%s): success reports %+v, want %+v", e.index, e.op, got, x.pair)
					return false
				}
				if e.op == "set" {
					if got.Ver <= 0 {
						fail("version-monotone", "version-zero", "entry %d: set handed out version %d", e.index, got.Ver)
						return false
					}
				}
			}
			if prev, ok := first[e.index]; ok {
				if prev[0].(uint64) != res[i].Result.Value || !bytes.Equal(prev[1].([]byte), res[i].Result.Data) {
					fail("replica-diverge", "replica-result-diverge", "entry %d: replicas report different results", e.index)
					return false
				}
			} else {
				first[e.index] = [2]any{res[i].Result.Value, append([]byte(nil), res[i].Result.Data...)}
			}
			dig.Add(res[i].Result.Value)
			dig.AddBytes(res[i].Result.Data)
		}
		if n > 1 {
			out.Probe("multi-entry-batch")
		}
		r.pos += n
		return true
	}

	lookup := func(r *replica, q any) (any, error, bool) {
		var res any
		var err error
		if pv, st := guard(func() { res, err = r.sm.Lookup(q) }); pv != nil {
			fail("lookup-panic", "lookup-panic", "Lookup(%#v) panicked: %v\n%s", q, pv, st)
			return nil, nil, false
		}
		return res, err, true
	}

	// checkAll compares every lookup kind with the model at the replica's position.
	checkLookup := func(r *replica, q, arg string) bool {
		m := states[r.pos]
		switch q {
		case "exist":
			res, err, ok := lookup(r, kv.QueryExist{Key: arg})
			if !ok {
				return false
			}
			_, want := m[arg]
			if err != nil || res.(bool) != want {
				fail("lookup", "lookup:exist", "Exists(%q) = %v,%v; model says %v", arg, res, err, want)
				return false
			}
		case "key":
			res, err, ok := lookup(r, kv.QueryKey{Key: arg})
			if !ok {
				return false
			}
			cur, want := m[arg]
			if !want {
				if !errors.Is(err, kv.ErrNotExist) {
					fail("lookup", "lookup:get-missing", "Get(%q) of a missing key returned %v,%v", arg, res, err)
					return false
				}
				return true
			}
			if err != nil || res.(kv.Pair) != (kv.Pair{Key: arg, Value: cur.val, Ver: cur.ver}) {
				fail("lookup", "lookup:get", "Get(%q) = %+v,%v; model says value %q version %d", arg, res, err, cur.val, cur.ver)
				return false
			}
		case "all":
			res, err, ok := lookup(r, kv.QueryAll{Pattern: arg})
			if !ok {
				return false
			}
			want := m.all(arg)
			got, _ := res.([]kv.Pair)
			if err != nil || !(len(got) == 0 && len(want) == 0 || reflect.DeepEqual(got, want)) {
				fail("lookup", "lookup:getall", "GetAll(%q) = %+v,%v; model says %+v", arg, res, err, want)
				return false
			}
			if len(want) > 1 {
				out.Probe("glob-multi-match")
			}
		case "allvalues":
			res, err, ok := lookup(r, kv.QueryAllValues{Pattern: arg})
			if !ok {
				return false
			}
			want := []string{}
			for _, p := range m.all(arg) {
				want = append(want, p.Value)
			}
			sort.Strings(want)
			got, _ := res.([]string)
			if err != nil || !(len(got) == 0 && len(want) == 0 || reflect.DeepEqual(got, want)) {
				fail("lookup", "lookup:getallvalues", "GetAllValues(%q) = %q,%v; model says %q", arg, res, err, want)
				return false
			}
		case "list":
			res, err, ok := lookup(r, kv.QueryList{Path: arg})
			if !ok {
				return false
			}
			want := m.list(arg)
			got, _ := res.([]string)
			if err != nil || !(len(got) == 0 && len(want) == 0 || reflect.DeepEqual(got, want)) {
				fail("lookup", "lookup:list", "List(%q) = %q,%v; model says %q (keys %q)", arg, res, err, want, m.sortedKeys())
				return false
			}
		case "listdir":
			res, err, ok := lookup(r, kv.QueryListDir{Path: arg})
			if !ok {
				return false
			}
			want := m.listDir(arg)
			got, _ := res.([]string)
			if err != nil || !(len(got) == 0 && len(want) == 0 || reflect.DeepEqual(got, want)) {
				fail("lookup", "lookup:listdir", "ListDir(%q) = %q,%v; model says %q (keys %q)", arg, res, err, want, m.sortedKeys())
				return false
			}
		}
		return true
	}

	fullCheck := func(r *replica, why string) bool {
		m := states[r.pos]
		res, err, ok := lookup(r, kv.QueryAll{Pattern: "*"})
		_ = res
		_ = err
		if !ok {
			return false
		}
		for _, k := range sc.Keys {
			if !checkLookup(r, "key", k) || !checkLookup(r, "exist", k) {
				return false
			}
		}
		for _, p := range []string{"/tables/*", "/cleanup/*/*", "/tables/*/lease", "/*", "/tables/*/*/*", "/tables/sys/*"} {
			if !checkLookup(r, "all", p) {
				return false
			}
		}
		_ = m
		_ = why
		return true
	}

	for i := range sc.Steps {
		if out.Violation != nil {
			break
		}
		step = i
		st := &sc.Steps[i]
		switch st.Op {
		case "propose":
			key := sc.Keys[st.Key%len(sc.Keys)]
			index += uint64(1 + st.Gap)
			raw, _ := json.Marshal(kv.Update{Op: st.Kind, KVPair: kv.Pair{Key: key, Value: st.Val, Ver: st.Ver}})
			log = append(log, &logEntry{index: index, raw: raw, op: st.Kind, key: key, val: st.Val, ver: st.Ver})
			m := states[len(states)-1].clone()
			x := m.apply(st.Kind, key, st.Val, st.Ver, index)
			if x.code == 1 && st.Kind == "set" {
				if index <= maxVer {
					panic("model: index not monotone")
				}
				maxVer = index
			}
			exps = append(exps, x)
			states = append(states, m)
		case "apply":
			r := reps[st.R%len(reps)]
			n := st.N
			if n > len(log)-r.pos {
				n = len(log) - r.pos
			}
			cuts := st.Cuts
			for n > 0 && out.Violation == nil {
				c := n
				if len(cuts) > 0 {
					c, cuts = cuts[0], cuts[1:]
					if c < 1 {
						c = 1
					}
					if c > n {
						c = n
					}
				}
				if !applyBatch(r, c) {
					break
				}
				n -= c
			}
			if out.Violation == nil {
				fullCheck(r, "after-apply")
			}
		case "lookup":
			checkLookup(reps[st.R%len(reps)], st.Q, st.Arg)
			out.Probe("lookup-" + st.Q)
		case "snap":
			from, to := reps[st.R%len(reps)], reps[st.To%len(reps)]
			if from == to || from.pos < to.pos {
				continue
			}
			var ctx any
			var err error
			if pv, stk := guard(func() { ctx, err = from.sm.PrepareSnapshot() }); pv != nil || err != nil {
				fail("snapshot", "prepare-error", "PrepareSnapshot: %v %v %s", err, pv, stk)
				continue
			}
			at := from.pos
			if b := st.Between; b > 0 {
				if b > len(log)-from.pos {
					b = len(log) - from.pos
				}
				if b > 0 {
					out.Probe("writes-between-prepare-and-save")
					if !applyBatch(from, b) {
						continue
					}
				}
			}
			var buf bytes.Buffer
			if pv, stk := guard(func() { err = from.sm.SaveSnapshot(ctx, &buf, nil, make(chan struct{})) }); pv != nil || err != nil {
				fail("snapshot", "save-error", "SaveSnapshot: %v %v %s", err, pv, stk)
				continue
			}
			// sometimes into a brand-new replica object (restart + install), sometimes over the existing one
			if st.Short%2 == 1 || to.pos == 0 {
				to.sm = kv.NewLFSM()(1000, uint64(st.To%len(reps)+1))
				out.Probe("install-into-fresh-replica")
			}
			if pv, stk := guard(func() {
				err = to.sm.RecoverFromSnapshot(&shortReader{r: bytes.NewReader(buf.Bytes()), n: st.Short}, nil, make(chan struct{}))
			}); pv != nil || err != nil {
				fail("snapshot", "recover-error", "RecoverFromSnapshot: %v %v %s", err, pv, stk)
				continue
			}
			to.pos = at
			out.Probe("snapshot-install")
			if !fullCheck(to, "after-install") {
				continue
			}
			for _, d := range dirs {
				if !checkLookup(to, "list", d) || !checkLookup(to, "listdir", d) {
					break
				}
			}
		}
	}
	// replicas at equal positions agree on every lookup (they were each compared with the same model state)
	if out.Violation == nil {
		for _, r := range reps {
			if !fullCheck(r, "final") {
				break
			}
		}
	}
	out.NonTrivial = out.Probes["version-mismatch"] > 0 && out.Probes["multi-entry-batch"] > 0
	out.Digest = dig.Sum()
	out.Steps = len(sc.Steps)
	return out
}
