package fsmsim

import (
	"bytes"

	"verif/sim/core"
	"verif/sim/model"
)

// profile steers generation per property (swarm style: each run additionally
// draws which kinds are enabled).
type profile struct {
	prop       string
	replicas   [2]int
	steps      [2]int
	adversKeys bool
	minKeys    int
	txnHeavy   bool
	rangeHeavy bool
	snapshots  bool
	restarts   bool
	crashes    bool
	harvest    bool
	li         bool
	knobs      bool
	iters      bool
	snapread   bool
	emptyTxn   bool
}

var profiles = map[string]profile{
	"C01": {prop: "C01", replicas: [2]int{1, 1}, steps: [2]int{8, 40}, iters: true},
	"C02": {prop: "C02", replicas: [2]int{1, 1}, steps: [2]int{8, 36}, txnHeavy: true},
	"C03": {prop: "C03", replicas: [2]int{2, 4}, steps: [2]int{12, 44}, snapshots: true, restarts: true, crashes: true, li: true, knobs: true},
	"C04": {prop: "C04", replicas: [2]int{1, 2}, steps: [2]int{6, 30}, snapshots: true, restarts: true, crashes: true, harvest: true, li: true, knobs: true},
	"C05": {prop: "C05", replicas: [2]int{1, 1}, steps: [2]int{6, 24}, snapread: true, li: true},
	"C07": {prop: "C07", replicas: [2]int{1, 1}, steps: [2]int{6, 24}, snapread: true},
	"C08": {prop: "C08", replicas: [2]int{2, 3}, steps: [2]int{10, 36}, snapshots: true, li: true, iters: true, knobs: true},
	"C09": {prop: "C09", replicas: [2]int{1, 1}, steps: [2]int{8, 36}, rangeHeavy: true, iters: true},
	"C10": {prop: "C10", replicas: [2]int{1, 2}, steps: [2]int{6, 24}, txnHeavy: true, emptyTxn: true},
	"C11": {prop: "C11", replicas: [2]int{1, 2}, steps: [2]int{6, 24}, li: true, knobs: true, snapshots: true},
	"C12": {prop: "C12", replicas: [2]int{1, 1}, steps: [2]int{8, 36}, adversKeys: true, minKeys: 6, rangeHeavy: true},
}

type gen struct {
	r          *core.Rand
	p          profile
	cfg        *Cfg
	tag        uint32
	big        bool      // values near the 2 MiB limit allowed
	mid        bool      // values of a few KiB common (drives flushes with small memtables)
	gm         *model.KV // state after every appended command
	logN       int
	pos        []int // per replica: entries applied
	open       []bool
	liNext     uint64
	slots      int
	openIters  []int
	preparedOn map[int]int // slot -> replica
	savedOn    map[int]bool
	nextSlot   int
	// swarm switches
	noRangeDel, noBatch, noSeq, noTxn bool
}

var adversBytes = []byte{0x00, 0x00, 0x01, 0x7f, 0xfe, 0xff, 0xff, 'a', 'i'}

func (g *gen) genKeys() []QB {
	n := g.r.Range(4, 12)
	if n < g.p.minKeys {
		n = g.p.minKeys
	}
	advers := g.p.adversKeys || g.r.Chance(0.35)
	seen := map[string]bool{}
	var keys []QB
	add := func(k []byte) {
		if len(k) == 0 || len(k) > 1024 || seen[string(k)] {
			return
		}
		seen[string(k)] = true
		keys = append(keys, QB(append([]byte(nil), k...)))
	}
	for len(keys) < n {
		if !advers {
			switch g.r.Intn(4) {
			case 0:
				add([]byte{byte('a' + g.r.Intn(6))})
			case 1:
				add([]byte{byte('a' + g.r.Intn(4)), byte('a' + g.r.Intn(4))})
			case 2:
				add([]byte("key" + string(rune('0'+g.r.Intn(10)))))
			default:
				add(g.r.Bytes(g.r.Range(1, 5)))
			}
			continue
		}
		switch g.r.Intn(10) {
		case 0, 1: // very short, extreme bytes
			k := make([]byte, g.r.Range(1, 2))
			for i := range k {
				k[i] = adversBytes[g.r.Intn(len(adversBytes))]
			}
			add(k)
		case 2, 3: // extension of an existing key with 0x00 / 0xFF
			if len(keys) > 0 {
				b := append([]byte(nil), keys[g.r.Intn(len(keys))]...)
				ext := []byte{0x00, 0xff, 0x00, 0xff, 0x01}[g.r.Intn(5)]
				b = append(b, ext)
				add(b)
			}
		case 4: // successor of an existing key (prefix range end)
			if len(keys) > 0 {
				b := append([]byte(nil), keys[g.r.Intn(len(keys))]...)
				for i := len(b) - 1; i >= 0; i-- {
					b[i]++
					if b[i] != 0 {
						break
					}
				}
				add(b)
			}
		case 5, 6: // near maximum length
			l := []int{1018, 1019, 1020, 1023, 1024}[g.r.Intn(5)]
			fill := []byte{0xff, 0xff, 0x00, 'z'}[g.r.Intn(4)]
			k := bytes.Repeat([]byte{fill}, l)
			if g.r.Chance(0.5) {
				k[len(k)-1] = adversBytes[g.r.Intn(len(adversBytes))]
			}
			if g.r.Chance(0.3) {
				k[0] = adversBytes[g.r.Intn(len(adversBytes))]
			}
			add(k)
		case 7: // names of the bookkeeping keys and look-alikes
			names := []string{"index", "leader_index", "\x02index", "\x02leader_index", "\x01index", "\x00\x00\x00\x02index"}
			add([]byte(names[g.r.Intn(len(names))]))
		case 8: // single extreme bytes
			add([]byte{[]byte{0x00, 0x01, 0xfe, 0xff}[g.r.Intn(4)]})
		default:
			add(g.r.Bytes(g.r.Range(1, 6)))
		}
	}
	return keys
}

func (g *gen) val() Val {
	g.tag++
	n := 0
	switch x := g.r.Intn(100); {
	case x < 8:
		n = 0
	case x < 70:
		n = g.r.Range(1, 40)
	case x < 90:
		if g.mid {
			n = g.r.Range(500, 6000)
		} else {
			n = g.r.Range(40, 400)
		}
	default:
		if g.big {
			n = []int{2 * 1024 * 1024, 2*1024*1024 - 1, 1400 * 1024, 1024 * 1024, 700 * 1024}[g.r.Intn(5)]
		} else if g.mid {
			n = g.r.Range(6000, 40000)
		} else {
			n = g.r.Range(400, 2000)
		}
	}
	return Val{T: g.tag, N: n}
}

func (g *gen) key() int { return g.r.Intn(len(g.cfg.Keys)) }

// end draws a range end reference: nil (single key), wildcard, or a pool key (possibly <= key: empty/inverted range).
func (g *gen) end(rangeBias float64) int {
	if !g.r.Chance(rangeBias) {
		return KNil
	}
	if g.r.Chance(0.3) {
		return KWild
	}
	return g.key()
}

func (g *gen) opSpec(inTxn bool) OpSpec {
	w := []int{3, 4, 3}
	switch g.r.Pick(w) {
	case 0:
		return g.rangeSpec()
	case 1:
		return OpSpec{T: "put", K: g.key(), E: KNil, V: g.val(), Prev: g.r.Chance(0.4)}
	default:
		e := KNil
		if !g.noRangeDel {
			e = g.end(0.5)
		}
		return OpSpec{T: "del", K: g.key(), E: e, Prev: g.r.Chance(0.4), Count: g.r.Chance(0.5)}
	}
}

func (g *gen) rangeSpec() OpSpec {
	o := OpSpec{T: "range", K: g.key(), E: g.end(0.75)}
	if g.r.Chance(0.15) {
		o.K = KWild // "\0": the smallest key, i.e. open on the low side
	}
	switch g.r.Intn(6) {
	case 0:
		o.KeysOnly = true
	case 1:
		o.CountOnly = true
	}
	if o.E != KNil && g.r.Chance(0.6) {
		m := len(g.gm.Range(g.cfg.key(o.K), g.cfg.key(o.E)))
		switch g.r.Intn(6) {
		case 0:
			o.Limit = m - 1
		case 1:
			o.Limit = m
		case 2:
			o.Limit = m + 1
		case 3:
			o.Limit = 1
		case 4:
			o.Limit = g.r.Range(1, 4)
		default:
			o.Limit = m + 10
		}
		if o.Limit < 0 {
			o.Limit = 0
		}
	}
	return o
}

func (g *gen) cmpSpec() CmpSpec {
	c := CmpSpec{K: g.key(), E: KNil, Res: g.r.Intn(4)}
	if g.r.Chance(0.35) {
		c.E = g.end(1)
	}
	if g.r.Chance(0.75) {
		c.HasVal = true
		// compare against an existing value of the key (so EQUAL can hold), a neighbour, or a fresh one
		switch g.r.Intn(3) {
		case 0:
			if v, ok := g.gm.Get(g.cfg.key(c.K)); ok {
				c.V = valOf(v)
			} else {
				c.V = g.val()
			}
		case 1:
			prs := g.gm.Sorted()
			if len(prs) > 0 {
				c.V = valOf(prs[g.r.Intn(len(prs))].Value)
			} else {
				c.V = g.val()
			}
		default:
			c.V = g.val()
		}
	}
	return c
}

// valOf recovers the descriptor of a value produced by Val.Bytes (tag prefix "v<T>:"), falling back to an empty value.
func valOf(b []byte) Val {
	if len(b) < 3 || b[0] != 'v' {
		return Val{}
	}
	t := uint32(0)
	i := 1
	for ; i < len(b) && b[i] >= '0' && b[i] <= '9'; i++ {
		t = t*10 + uint32(b[i]-'0')
	}
	if i >= len(b) || b[i] != ':' {
		return Val{}
	}
	return Val{T: t, N: len(b)}
}

func (g *gen) txnSpec(readOnly bool) *TxnSpec {
	t := &TxnSpec{}
	nc := g.r.Range(0, 4)
	if g.r.Chance(0.2) {
		nc = 0
	}
	for i := 0; i < nc; i++ {
		t.Cmp = append(t.Cmp, g.cmpSpec())
	}
	ns, nf := g.r.Range(0, 5), g.r.Range(0, 4)
	if g.p.emptyTxn && g.r.Chance(0.5) {
		if g.r.Chance(0.5) {
			ns = 0
		} else {
			nf = 0
		}
	}
	for i := 0; i < ns; i++ {
		if readOnly {
			t.Succ = append(t.Succ, g.rangeSpec())
		} else {
			t.Succ = append(t.Succ, g.opSpec(true))
		}
	}
	for i := 0; i < nf; i++ {
		if readOnly {
			t.Fail = append(t.Fail, g.rangeSpec())
		} else {
			t.Fail = append(t.Fail, g.opSpec(true))
		}
	}
	return t
}

func (g *gen) cmd(depth int) Cmd {
	w := []int{30, 14, 8, 6, 12, 5, 3} // put del putb delb txn seq dummy
	if g.p.txnHeavy {
		w[4] = 45
	}
	if g.noBatch {
		w[2], w[3] = 0, 0
	}
	if g.noSeq || depth > 0 {
		w[5] = 0
	}
	if g.noTxn && !g.p.txnHeavy {
		w[4] = 0
	}
	var c Cmd
	switch g.r.Pick(w) {
	case 0:
		c = Cmd{T: "put", K: g.key(), E: KNil, V: g.val(), Prev: g.r.Chance(0.35)}
	case 1:
		e := KNil
		if !g.noRangeDel {
			e = g.end(0.45)
		}
		c = Cmd{T: "del", K: g.key(), E: e, Prev: g.r.Chance(0.35), Count: g.r.Chance(0.45)}
	case 2:
		c = Cmd{T: "putb"}
		for i, n := 0, g.r.Range(0, 6); i < n; i++ {
			c.Batch = append(c.Batch, KVRef{K: g.key(), V: g.val()})
		}
	case 3:
		c = Cmd{T: "delb"}
		for i, n := 0, g.r.Range(0, 4); i < n; i++ {
			c.Batch = append(c.Batch, KVRef{K: g.key()})
		}
	case 4:
		c = Cmd{T: "txn", Txn: g.txnSpec(false)}
	case 5:
		c = Cmd{T: "seq"}
		for i, n := 0, g.r.Range(0, 4); i < n; i++ {
			c.Seq = append(c.Seq, g.cmd(depth+1))
		}
		if g.p.li && len(c.Seq) > 0 && g.r.Chance(0.2) {
			// what a table replicates from a leader that used to be a follower itself: one of the commands
			// is a sequence again, and its commands carry the (small) indices of a third log
			in := Cmd{T: "seq"}
			for i, n := 0, g.r.Range(1, 3); i < n; i++ {
				sub := g.cmd(depth + 1)
				v := uint64(g.r.Range(1, 6))
				sub.LI = &v
				in.Seq = append(in.Seq, sub)
			}
			c.Seq[g.r.Intn(len(c.Seq))] = in
		}
	default:
		c = Cmd{T: "dummy"}
	}
	if depth == 0 {
		if g.p.li && g.r.Chance(0.35) {
			if c.T == "seq" && g.liNext > 0 && g.r.Chance(0.15) {
				// a sequence proposed a second time (indeterminate first proposal, stale lease): same leader index
			} else {
				g.liNext += uint64(g.r.Range(1, 3))
			}
			li := g.liNext
			if g.r.Chance(0.05) {
				li = 0 // Reset-style
			}
			c.LI = &li
			if c.T == "seq" && li >= uint64(len(c.Seq)) && g.r.Chance(0.6) {
				// as the replication worker builds it: every command of the sequence carries its own leader
				// index, consecutive, the last one being the sequence's; a sequence longer than the step
				// the leader index took reaches back into what earlier sequences replicated
				for i := range c.Seq {
					back := uint64(len(c.Seq) - 1 - i)
					if back < li {
						v := li - back
						c.Seq[i].LI = &v
					}
				}
			}
		}
		if g.r.Chance(0.12) {
			c.Gap = g.r.Range(1, 3)
		}
	}
	return c
}

func (g *gen) appendStep(steps *[]Step, n int) {
	st := Step{Op: "append"}
	for i := 0; i < n; i++ {
		c := g.cmd(0)
		st.Cmds = append(st.Cmds, c)
		g.gm.Apply(g.cfg.command(&c))
		g.logN++
	}
	*steps = append(*steps, st)
}

func (g *gen) applyStep(steps *[]Step, rep int, n int) {
	if n <= 0 || !g.open[rep] {
		return
	}
	st := Step{Op: "apply", R: rep, N: n}
	left := n
	for left > 0 {
		c := 1
		switch g.r.Intn(4) {
		case 0:
			c = left
		case 1:
			c = 1
		default:
			c = g.r.Range(1, left)
		}
		st.Cuts = append(st.Cuts, c)
		left -= c
	}
	g.pos[rep] += n
	*steps = append(*steps, st)
}

// GenAs draws schedules of profile prop for the check of property reportAs.
func GenAs(prop, reportAs string) func(r *core.Rand, tier string) core.Schedule {
	g := Gen(prop)
	return func(r *core.Rand, tier string) core.Schedule {
		s := g(r, tier).(*Sched)
		s.Cfg.ReportAs = reportAs
		return s
	}
}

// Gen draws a schedule for the given property profile.
func Gen(prop string) func(r *core.Rand, tier string) core.Schedule {
	return func(r *core.Rand, tier string) core.Schedule {
		p := profiles[prop]
		g := &gen{r: r, p: p, gm: model.NewKV(), preparedOn: map[int]int{}, savedOn: map[int]bool{}}
		cfg := &Cfg{Prop: prop}
		g.cfg = cfg
		g.noRangeDel = r.Chance(0.15)
		g.noBatch = r.Chance(0.2)
		g.noSeq = r.Chance(0.3)
		g.noTxn = r.Chance(0.2)
		bigP := 0.02
		if tier == "thorough" {
			bigP = 0.06
		}
		if prop == "C09" || prop == "C07" {
			bigP *= 2
		}
		g.big = r.Chance(bigP)
		cfg.Keys = g.genKeys()
		cfg.Replicas = r.Range(p.replicas[0], p.replicas[1])
		for i := 0; i < cfg.Replicas; i++ {
			cfg.Formats = append(cfg.Formats, r.Intn(2))
		}
		if p.knobs && !g.big && r.Chance(0.8) {
			cfg.MemTable = []int{2 << 10, 4 << 10, 8 << 10, 16 << 10, 64 << 10, 256 << 10}[r.Intn(6)]
			cfg.L0Compact = []int{0, 1, 2, 4}[r.Intn(4)]
			cfg.BlockSize = []int{0, 128, 1024, 4096}[r.Intn(4)]
			cfg.NoAutoComp = r.Chance(0.2)
			g.mid = r.Chance(0.7)
		}
		cfg.Harvest = p.harvest || (p.snapshots && prop == "C08" && r.Chance(0.3))
		cfg.HarvestDeep = cfg.Harvest && r.Chance(0.3)
		g.pos = make([]int, cfg.Replicas)
		g.open = make([]bool, cfg.Replicas)
		for i := range g.open {
			g.open[i] = true
		}
		nSteps := r.Range(p.steps[0], p.steps[1])
		if g.big && nSteps > 14 {
			nSteps = 14
		}
		var steps []Step
		bulkP := 0.0
		switch prop {
		case "C09":
			bulkP = 0.012
			if tier == "thorough" {
				bulkP = 0.04
			}
		case "C01", "C02":
			// range deletes / transactions over more data than fits one transport message
			bulkP = 0.008
			if tier == "thorough" {
				bulkP = 0.02
			}
		}
		if r.Chance(bulkP) {
			// many small or mid-sized pairs adding up to more than one transport message
			vs := []int{900, 8189, 65000, 200}[r.Intn(4)]
			per := vs + 12
			if vs == 200 {
				per = 1000 + 200 // long keys
			}
			n := (4*1024*1024+300*1024)/per + r.Range(1, 40)
			pfx := "bulk/"
			if vs == 200 {
				pfx = string(bytes.Repeat([]byte{'q'}, 990)) + "/"
			}
			st := Step{Op: "append", Cmds: []Cmd{{T: "bulk", BulkN: n, BulkV: vs, BulkP: pfx}}}
			g.gm.Apply(cfg.command(&st.Cmds[0]))
			g.logN++
			steps = append(steps, st)
			g.applyStep(&steps, 0, g.logN-g.pos[0])
			// stream everything, and a keys-only / count-only variant
			for i, variant := range []OpSpec{{T: "range", K: KWild, E: KWild}, {T: "range", K: KWild, E: KWild, KeysOnly: true}, {T: "range", K: KWild, E: KWild, CountOnly: true}} {
				if i > 0 && r.Chance(0.5) {
					continue
				}
				v := variant
				slot := g.nextSlot
				g.nextSlot++
				steps = append(steps, Step{Op: "iteropen", R: 0, Slot: slot, Req: &v})
				steps = append(steps, Step{Op: "iterpull", Slot: slot})
				steps = append(steps, Step{Op: "read", R: 0, Req: &v})
			}
			if prop != "C09" {
				// a range delete with prev_kv/count over (part of) the bulk, directly or inside a transaction
				del := Cmd{T: "del", K: KWild, E: KWild, Prev: r.Chance(0.7), Count: r.Chance(0.6)}
				if r.Chance(0.4) {
					del = Cmd{T: "txn", Txn: &TxnSpec{Succ: []OpSpec{{T: "del", K: KWild, E: KWild, Prev: true, Count: r.Chance(0.5)}}}}
				}
				st := Step{Op: "append", Cmds: []Cmd{del}}
				g.gm.Apply(cfg.command(&st.Cmds[0]))
				g.logN++
				steps = append(steps, st)
				g.applyStep(&steps, 0, g.logN-g.pos[0])
			}
			if nSteps > 12 {
				nSteps = 12
			}
		}
		hugeP := 0.0
		if prop == "C08" {
			hugeP = 0.006
			if tier == "thorough" {
				hugeP = 0.02
			}
		}
		if cfg.Replicas >= 2 && r.Chance(hugeP) {
			// a table around the 16 MiB snapshot-SST roll-over: the tail after the roll-over is tiny or absent
			cfg.MemTable, cfg.L0Compact, cfg.BlockSize, cfg.NoAutoComp = 0, 0, 0, false
			nv := []int{8, 8, 9, 7}[r.Intn(4)]
			vs := []int{2 * 1024 * 1024, 2*1024*1024 - 1, 2*1024*1024 - 40}[r.Intn(3)]
			st := Step{Op: "append", Cmds: []Cmd{{T: "bulk", BulkN: nv, BulkV: vs, BulkP: "huge/"}}}
			if r.Chance(0.5) {
				li := uint64(77)
				st.Cmds[0].LI = &li
			}
			g.gm.Apply(cfg.command(&st.Cmds[0]))
			g.logN++
			steps = append(steps, st)
			g.applyStep(&steps, 0, g.logN-g.pos[0])
			steps = append(steps, Step{Op: "prepare", R: 0, Slot: 900}, Step{Op: "save", R: 0, Slot: 900}, Step{Op: "recover", R: 1, From: 0})
			g.pos[1] = g.pos[0]
			nSteps = len(steps) + r.Range(0, 4)
		}
		if p.rangeHeavy || r.Chance(0.3) {
			// preload so that ranges have something to return
			g.appendStep(&steps, r.Range(2, 8))
			g.applyStep(&steps, 0, g.logN-g.pos[0])
		}
		for len(steps) < nSteps {
			g.step(&steps)
		}
		// final catch-up so that convergence is observable
		if cfg.Replicas > 1 && r.Chance(0.7) {
			for i := 0; i < cfg.Replicas; i++ {
				if g.open[i] {
					g.applyStep(&steps, i, g.logN-g.pos[i])
				}
			}
		}
		return &Sched{Cfg: *cfg, Steps: steps}
	}
}

func (g *gen) anyOpen() (int, bool) {
	var c []int
	for i, o := range g.open {
		if o {
			c = append(c, i)
		}
	}
	if len(c) == 0 {
		return 0, false
	}
	return c[g.r.Intn(len(c))], true
}

func (g *gen) step(steps *[]Step) {
	p := g.p
	r := g.r
	w := map[string]int{"write": 40, "read": 18, "txnread": 4}
	if p.rangeHeavy {
		w["read"] = 40
	}
	if p.txnHeavy {
		w["txnread"] = 14
	}
	if p.iters {
		w["iter"] = 10
	}
	if p.restarts {
		w["restart"] = 6
	}
	if p.crashes {
		w["crash"] = 6
	}
	if p.harvest || p.crashes {
		w["sync"] = 10
	}
	if p.snapshots {
		w["snapshot"] = 12
	}
	if p.snapread {
		w["snapread"] = 20
	}
	if len(g.cfg.Formats) > 1 {
		w["applyother"] = 25
	}
	names := []string{"write", "read", "txnread", "iter", "restart", "crash", "sync", "snapshot", "snapread", "applyother"}
	ws := make([]int, len(names))
	for i, n := range names {
		ws[i] = w[n]
	}
	rep, ok := g.anyOpen()
	kind := names[r.Pick(ws)]
	if !ok {
		kind = "restart"
	}
	switch kind {
	case "write":
		g.appendStep(steps, r.Range(1, 6))
		// usually the chosen replica catches up fully; sometimes partially or not at all
		switch r.Intn(6) {
		case 0:
		case 1:
			g.applyStep(steps, rep, r.Range(1, maxI(1, g.logN-g.pos[rep])))
		default:
			g.applyStep(steps, rep, g.logN-g.pos[rep])
		}
	case "applyother":
		if g.logN-g.pos[rep] > 0 {
			g.applyStep(steps, rep, r.Range(1, g.logN-g.pos[rep]))
		}
	case "read":
		g.syncModelFor(steps, rep)
		sp := g.rangeSpec()
		*steps = append(*steps, Step{Op: "read", R: rep, Req: &sp})
	case "txnread":
		g.syncModelFor(steps, rep)
		*steps = append(*steps, Step{Op: "txnread", R: rep, Txn: g.txnSpec(true)})
	case "iter":
		g.syncModelFor(steps, rep)
		sp := g.rangeSpec()
		if sp.E == KNil {
			sp.E = KWild
		}
		slot := g.nextSlot
		g.nextSlot++
		*steps = append(*steps, Step{Op: "iteropen", R: rep, Slot: slot, Req: &sp})
		switch r.Intn(4) {
		case 0: // writes between open and first pull
			g.appendStep(steps, r.Range(1, 3))
			g.applyStep(steps, rep, g.logN-g.pos[rep])
			*steps = append(*steps, Step{Op: "iterpull", Slot: slot})
		case 1: // leave open (consumed at the end or across an install)
			g.openIters = append(g.openIters, slot)
		case 2:
			*steps = append(*steps, Step{Op: "iterpull", Slot: slot, Pull: 1})
			*steps = append(*steps, Step{Op: "iterdrop", Slot: slot})
		default:
			*steps = append(*steps, Step{Op: "iterpull", Slot: slot})
		}
	case "restart":
		var closed []int
		for i, o := range g.open {
			if !o {
				closed = append(closed, i)
			}
		}
		if len(closed) > 0 && (r.Chance(0.7) || !ok) {
			i := closed[r.Intn(len(closed))]
			*steps = append(*steps, Step{Op: "reopen", R: i})
			g.open[i] = true
		} else if ok {
			*steps = append(*steps, Step{Op: "close", R: rep})
			g.open[rep] = false
			if r.Chance(0.6) {
				*steps = append(*steps, Step{Op: "reopen", R: rep})
				g.open[rep] = true
			}
		}
	case "crash":
		*steps = append(*steps, Step{Op: "crash", R: rep})
		g.pos[rep] = -1 // unknown after a crash; resolved at execution (apply clamps)
		g.pos[rep] = 0
		g.crashed(rep)
	case "sync":
		*steps = append(*steps, Step{Op: "sync", R: rep})
	case "snapread":
		st := Step{Op: "snapread", R: rep}
		if r.Chance(0.7) {
			st.InnerAt = r.Range(1, 4)
			st.Inner = g.innerWrites(rep)
		}
		*steps = append(*steps, st)
	case "snapshot":
		g.snapshotFlow(steps, rep)
	}
}

// crashed: after a crash the replica restarts from an unknown durable prefix;
// generation continues assuming it will be caught up by explicit apply steps
// (apply clamps to what is available).
func (g *gen) crashed(rep int) {
	// let it catch up fully most of the time
	if g.r.Chance(0.8) {
		// N is clamped at execution time
	}
}

func maxI(a, b int) int {
	if a > b {
		return a
	}
	return b
}

// syncModelFor makes the replica catch up so that generator-side limit targeting matches (best effort).
func (g *gen) syncModelFor(steps *[]Step, rep int) {
	if g.logN-g.pos[rep] > 0 && g.r.Chance(0.8) {
		g.applyStep(steps, rep, g.logN-g.pos[rep])
	}
}

func (g *gen) innerWrites(rep int) []Step {
	var in []Step
	st := Step{Op: "append"}
	n := g.r.Range(1, 3)
	for i := 0; i < n; i++ {
		c := g.cmd(0)
		st.Cmds = append(st.Cmds, c)
		g.gm.Apply(g.cfg.command(&c))
		g.logN++
	}
	in = append(in, st)
	in = append(in, Step{Op: "apply", R: rep, N: g.logN - g.pos[rep]})
	g.pos[rep] = g.logN
	return in
}

func (g *gen) snapshotFlow(steps *[]Step, saver int) {
	r := g.r
	if len(g.open) < 2 {
		// single replica: save only (exercise prepare/save paths, stop signal)
		slot := g.nextSlot
		g.nextSlot++
		*steps = append(*steps, Step{Op: "prepare", R: saver, Slot: slot})
		st := Step{Op: "save", R: saver, Slot: slot}
		if r.Chance(0.3) {
			st.StopAt = r.Range(1, 3)
		}
		*steps = append(*steps, st)
		return
	}
	// receiver: another open replica
	var cands []int
	for i, o := range g.open {
		if o && i != saver {
			cands = append(cands, i)
		}
	}
	if len(cands) == 0 {
		return
	}
	recv := cands[r.Intn(len(cands))]
	// the saver should be at least as far as the receiver (Raft installs forward only)
	if g.pos[saver] < g.pos[recv] {
		saver, recv = recv, saver
	}
	if g.logN-g.pos[saver] > 0 && r.Chance(0.7) {
		g.applyStep(steps, saver, g.logN-g.pos[saver])
	}
	slot := g.nextSlot
	g.nextSlot++
	// a streamed read on the receiver opened before the install, consumed after
	var it = -1
	if g.p.iters && r.Chance(0.5) {
		sp := g.rangeSpec()
		if sp.E == KNil {
			sp.E = KWild
		}
		it = g.nextSlot
		g.nextSlot++
		*steps = append(*steps, Step{Op: "iteropen", R: recv, Slot: it, Req: &sp})
		if r.Chance(0.4) {
			*steps = append(*steps, Step{Op: "iterpull", Slot: it, Pull: 1})
		}
	}
	*steps = append(*steps, Step{Op: "prepare", R: saver, Slot: slot})
	atPrepare := g.pos[saver]
	if r.Chance(0.5) { // writes between prepare and save
		g.appendStep(steps, r.Range(1, 4))
		g.applyStep(steps, saver, g.logN-g.pos[saver])
	}
	sv := Step{Op: "save", R: saver, Slot: slot}
	if r.Chance(0.4) {
		sv.InnerAt = r.Range(1, 5)
		sv.Inner = g.innerWrites(saver)
	}
	if r.Chance(0.08) {
		sv.StopAt = r.Range(1, 6)
	}
	*steps = append(*steps, sv)
	if r.Chance(0.15) {
		*steps = append(*steps, Step{Op: "gc"})
	}
	rc := Step{Op: "recover", R: recv, From: saver}
	if r.Chance(0.3) {
		rc.Short = []int{1, 3, 7, 64, 1000}[r.Intn(5)]
	}
	if r.Chance(0.15) {
		rc.StopAt = r.Range(1, 12)
	}
	if g.p.harvest && r.Chance(0.12) {
		rc.ErrAt = r.Range(1, 8)
		rc.ErrKind = []string{"eio", "enospc"}[r.Intn(2)]
	}
	*steps = append(*steps, rc)
	if sv.StopAt == 0 && rc.StopAt == 0 && rc.ErrAt == 0 {
		g.pos[recv] = atPrepare
	}
	if it >= 0 {
		*steps = append(*steps, Step{Op: "iterpull", Slot: it})
	}
}
