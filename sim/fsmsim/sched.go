// Package fsmsim is world W1: the real regatta table state machine
// (storage/table/fsm + key + pebble helpers + Pebble itself) on the simulated
// disk, driven by a single-threaded driver that honours dragonboat's
// IOnDiskStateMachine contract.
package fsmsim

import (
	"encoding/json"
	"fmt"
	"strconv"

	"github.com/jamf/regatta/regattapb"
	"verif/sim/core"
)

// QB is a byte string that marshals as a Go-quoted string (readable replay files).
type QB []byte

func (b QB) MarshalJSON() ([]byte, error) {
	if len(b) <= 48 {
		q := strconv.Quote(string(b))
		return json.Marshal(q[1 : len(q)-1])
	}
	// long keys: run-length encoded [[bytes, repeat], ...]
	var runs [][2]any
	for i := 0; i < len(b); {
		j := i
		for j < len(b) && b[j] == b[i] {
			j++
		}
		q := strconv.Quote(string(b[i : i+1]))
		runs = append(runs, [2]any{q[1 : len(q)-1], j - i})
		i = j
	}
	return json.Marshal(runs)
}

func (b *QB) UnmarshalJSON(raw []byte) error {
	var s string
	if err := json.Unmarshal(raw, &s); err == nil {
		u, err := strconv.Unquote(`"` + s + `"`)
		if err != nil {
			return err
		}
		*b = QB(u)
		return nil
	}
	var runs [][2]any
	if err := json.Unmarshal(raw, &runs); err != nil {
		return err
	}
	var out []byte
	for _, r := range runs {
		u, err := strconv.Unquote(`"` + r[0].(string) + `"`)
		if err != nil {
			return err
		}
		n := int(r[1].(float64))
		for i := 0; i < n; i++ {
			out = append(out, u...)
		}
	}
	*b = QB(out)
	return nil
}

// Key references: >=0 index into Cfg.Keys; KNil = absent; KWild = "\0".
const (
	KNil  = -1
	KWild = -2
)

// Val describes a value: N bytes derived from tag T (unique per write).
type Val struct {
	T uint32 `json:"t"`
	N int    `json:"n"`
}

func (v Val) Bytes() []byte {
	if v.N <= 0 {
		return []byte{}
	}
	b := make([]byte, v.N)
	p := []byte(fmt.Sprintf("v%d:", v.T))
	n := copy(b, p)
	x := uint64(v.T)*0x9e3779b97f4a7c15 + 1
	for i := n; i < v.N; i++ {
		// cheap incompressible-ish filler, deterministic in (T,i)
		x ^= x << 13
		x ^= x >> 7
		x ^= x << 17
		b[i] = byte(x)
	}
	return b
}

type KVRef struct {
	K int `json:"k"`
	V Val `json:"v"`
}

type OpSpec struct {
	T         string `json:"t"` // range | put | del
	K         int    `json:"k"`
	E         int    `json:"e"`
	V         Val    `json:"v,omitempty"`
	Prev      bool   `json:"prev,omitempty"`
	Count     bool   `json:"count,omitempty"`
	Limit     int    `json:"limit,omitempty"`
	KeysOnly  bool   `json:"keys_only,omitempty"`
	CountOnly bool   `json:"count_only,omitempty"`
}

type CmpSpec struct {
	K      int  `json:"k"`
	E      int  `json:"e"`
	Res    int  `json:"res"`
	HasVal bool `json:"has_val"`
	V      Val  `json:"v,omitempty"`
	// VK >= 0: compare against the value currently expected... not used; values are explicit
}

type TxnSpec struct {
	Cmp  []CmpSpec `json:"cmp"`
	Succ []OpSpec  `json:"succ"`
	Fail []OpSpec  `json:"fail"`
}

type Cmd struct {
	T     string   `json:"t"` // put del putb delb txn seq dummy
	K     int      `json:"k,omitempty"`
	E     int      `json:"e,omitempty"`
	V     Val      `json:"v,omitempty"`
	Prev  bool     `json:"prev,omitempty"`
	Count bool     `json:"count,omitempty"`
	Batch []KVRef  `json:"batch,omitempty"`
	Txn   *TxnSpec `json:"txn,omitempty"`
	Seq   []Cmd    `json:"seq,omitempty"`
	LI    *uint64  `json:"li,omitempty"`
	// bulk: a PUT_BATCH of BulkN generated keys "<BulkP>%06d" with values of BulkV bytes each
	BulkN int    `json:"bulk_n,omitempty"`
	BulkV int    `json:"bulk_v,omitempty"`
	BulkP string `json:"bulk_p,omitempty"`
	Gap   int    `json:"gap,omitempty"` // log indices skipped before this entry (non-command Raft entries)
}

// Step is one driver step.
type Step struct {
	Op string `json:"op"`
	R  int    `json:"r,omitempty"`
	// append
	Cmds []Cmd `json:"cmds,omitempty"`
	// apply
	N    int   `json:"n,omitempty"`
	Cuts []int `json:"cuts,omitempty"`
	// read / iter
	Req *OpSpec `json:"req,omitempty"`
	// txnread
	Txn *TxnSpec `json:"txn,omitempty"`
	// iterators and snapshots: slot ids
	Slot int `json:"slot,omitempty"`
	// iter: number of chunks to pull (0 = all)
	Pull int `json:"pull,omitempty"`
	// save / snapread / recover plans: after the n-th Write/Read call perform nested action
	StopAt  int    `json:"stop_at,omitempty"`  // close stop channel at the n-th io call (0 = never)
	InnerAt int    `json:"inner_at,omitempty"` // perform Inner steps at the n-th io call (0 = never)
	Inner   []Step `json:"inner,omitempty"`
	Short   int    `json:"short,omitempty"` // reader: max bytes per Read (0 = unlimited)
	From    int    `json:"from,omitempty"`  // recover: replica whose saved buffer slot is used
	// fault: one-shot I/O error at the n-th matching regatta-issued FS op during this step
	ErrAt   int    `json:"err_at,omitempty"`
	ErrKind string `json:"err_kind,omitempty"`
}

// Cfg is the configuration of a run.
type Cfg struct {
	Prop string `json:"prop"`
	// ReportAs: the run uses the profile of Prop but belongs to the check of another property, whose oracles
	// (the sorted-map model) are the ones reported: see the "C01@C03" spec
	ReportAs string `json:"report_as,omitempty"`
	Keys     []QB   `json:"keys"`
	Replicas int    `json:"replicas"`
	Formats  []int  `json:"formats"` // per replica: 0 snapshot, 1 checkpoint
	// Pebble knobs (0 = production value)
	MemTable    int  `json:"memtable,omitempty"`
	L0Compact   int  `json:"l0compact,omitempty"`
	BlockSize   int  `json:"blocksize,omitempty"`
	NoAutoComp  bool `json:"no_auto_compactions,omitempty"`
	Harvest     bool `json:"harvest,omitempty"`      // C04: harvest and evaluate crash images
	HarvestDeep bool `json:"harvest_deep,omitempty"` // depth-2 harvesting during recovery
}

type Sched struct {
	Cfg   Cfg    `json:"cfg"`
	Steps []Step `json:"steps"`
}

func (s *Sched) Len() int { return len(s.Steps) }

func (s *Sched) Subset(keep []int) core.Schedule {
	c := &Sched{Cfg: s.Cfg}
	for _, i := range keep {
		c.Steps = append(c.Steps, s.Steps[i])
	}
	return c
}

func Decode(raw json.RawMessage) (core.Schedule, error) {
	s := &Sched{}
	if err := json.Unmarshal(raw, s); err != nil {
		return nil, err
	}
	return s, nil
}

// ---- materialisation ------------------------------------------------------

func (c *Cfg) key(i int) []byte {
	switch {
	case i == KNil:
		return nil
	case i == KWild:
		return []byte{0}
	case i >= 0 && i < len(c.Keys):
		return append([]byte(nil), c.Keys[i]...)
	case len(c.Keys) > 0 && i >= 0:
		return append([]byte(nil), c.Keys[i%len(c.Keys)]...)
	}
	return []byte("k")
}

func (c *Cfg) reqRange(o *OpSpec) *regattapb.RequestOp_Range {
	return &regattapb.RequestOp_Range{Key: c.key(o.K), RangeEnd: c.key(o.E), Limit: int64(o.Limit), KeysOnly: o.KeysOnly, CountOnly: o.CountOnly}
}

func (c *Cfg) reqOp(o *OpSpec) *regattapb.RequestOp {
	switch o.T {
	case "range":
		return &regattapb.RequestOp{Request: &regattapb.RequestOp_RequestRange{RequestRange: c.reqRange(o)}}
	case "put":
		return &regattapb.RequestOp{Request: &regattapb.RequestOp_RequestPut{RequestPut: &regattapb.RequestOp_Put{Key: c.key(o.K), Value: o.V.Bytes(), PrevKv: o.Prev}}}
	case "del":
		return &regattapb.RequestOp{Request: &regattapb.RequestOp_RequestDeleteRange{RequestDeleteRange: &regattapb.RequestOp_DeleteRange{Key: c.key(o.K), RangeEnd: c.key(o.E), PrevKv: o.Prev, Count: o.Count}}}
	}
	panic("bad op spec " + o.T)
}

func (c *Cfg) txn(t *TxnSpec) (cmp []*regattapb.Compare, succ, fail []*regattapb.RequestOp) {
	for i := range t.Cmp {
		cs := &t.Cmp[i]
		pc := &regattapb.Compare{Key: c.key(cs.K), RangeEnd: c.key(cs.E), Result: regattapb.Compare_CompareResult(cs.Res), Target: regattapb.Compare_VALUE}
		if cs.HasVal {
			pc.TargetUnion = &regattapb.Compare_Value{Value: cs.V.Bytes()}
		}
		cmp = append(cmp, pc)
	}
	for i := range t.Succ {
		succ = append(succ, c.reqOp(&t.Succ[i]))
	}
	for i := range t.Fail {
		fail = append(fail, c.reqOp(&t.Fail[i]))
	}
	return
}

func (c *Cfg) command(s *Cmd) *regattapb.Command {
	cmd := &regattapb.Command{Table: []byte("t")}
	if s.LI != nil {
		li := *s.LI
		cmd.LeaderIndex = &li
	}
	switch s.T {
	case "put":
		cmd.Type = regattapb.Command_PUT
		cmd.Kv = &regattapb.KeyValue{Key: c.key(s.K), Value: s.V.Bytes()}
		cmd.PrevKvs = s.Prev
	case "del":
		cmd.Type = regattapb.Command_DELETE
		cmd.Kv = &regattapb.KeyValue{Key: c.key(s.K)}
		cmd.RangeEnd = c.key(s.E)
		cmd.PrevKvs = s.Prev
		cmd.Count = s.Count
	case "putb":
		cmd.Type = regattapb.Command_PUT_BATCH
		for _, kv := range s.Batch {
			cmd.Batch = append(cmd.Batch, &regattapb.KeyValue{Key: c.key(kv.K), Value: kv.V.Bytes()})
		}
	case "delb":
		cmd.Type = regattapb.Command_DELETE_BATCH
		for _, kv := range s.Batch {
			cmd.Batch = append(cmd.Batch, &regattapb.KeyValue{Key: c.key(kv.K)})
		}
	case "txn":
		cmd.Type = regattapb.Command_TXN
		cmp, succ, fail := c.txn(s.Txn)
		cmd.Txn = &regattapb.Txn{Compare: cmp, Success: succ, Failure: fail}
	case "seq":
		cmd.Type = regattapb.Command_SEQUENCE
		for i := range s.Seq {
			cmd.Sequence = append(cmd.Sequence, c.command(&s.Seq[i]))
		}
	case "bulk":
		cmd.Type = regattapb.Command_PUT_BATCH
		for i := 0; i < s.BulkN; i++ {
			v := Val{T: uint32(900000 + i), N: s.BulkV}
			cmd.Batch = append(cmd.Batch, &regattapb.KeyValue{Key: []byte(fmt.Sprintf("%s%06d", s.BulkP, i)), Value: v.Bytes()})
		}
	case "dummy":
		cmd.Type = regattapb.Command_DUMMY
	default:
		panic("bad cmd spec " + s.T)
	}
	return cmd
}

func hasTxn(s *Cmd) bool {
	if s.T == "txn" {
		return true
	}
	for i := range s.Seq {
		if hasTxn(&s.Seq[i]) {
			return true
		}
	}
	return false
}

// ---- exported materialisation helpers (used by world W3) ---------------------

func (c *Cfg) Key(i int) []byte                              { return c.key(i) }
func (c *Cfg) ReqRange(o *OpSpec) *regattapb.RequestOp_Range { return c.reqRange(o) }
func (c *Cfg) ReqOp(o *OpSpec) *regattapb.RequestOp          { return c.reqOp(o) }
func (c *Cfg) TxnParts(t *TxnSpec) ([]*regattapb.Compare, []*regattapb.RequestOp, []*regattapb.RequestOp) {
	return c.txn(t)
}
func (c *Cfg) Command(s *Cmd) *regattapb.Command { return c.command(s) }

// KeyGen exposes the key-pool and value generators to other worlds.
type KeyGen struct{ g *gen }

func NewKeyGen(r *core.Rand, advers bool, minKeys int) *KeyGen {
	g := &gen{r: r, p: profile{adversKeys: advers, minKeys: minKeys}, gm: nil}
	g.cfg = &Cfg{}
	g.cfg.Keys = g.genKeys()
	return &KeyGen{g}
}
func (k *KeyGen) Keys() []QB { return k.g.cfg.Keys }
func (k *KeyGen) Val() Val   { return k.g.val() }
