package fsmsim

import (
	"bytes"
	"fmt"

	"verif/sim/core"
	"verif/sim/crashfs"
)

const maxImagesPerReplica = 48

// evalImages runs the recovery oracle on the harvested crash images of a replica.
func (w *world) evalImages(r *replica, depth int) {
	w.finalise(r)
	imgs := r.images
	r.images = nil
	if len(imgs) == 0 {
		return
	}
	// all of them for short runs; otherwise every mid-operation image plus an even sample
	pick := make([]bool, len(imgs))
	n := 0
	if len(imgs) <= maxImagesPerReplica {
		for i := range pick {
			pick[i] = true
		}
		n = len(imgs)
		w.out.Probe("images-all-evaluated")
	} else {
		for i := range imgs {
			if imgs[i].mid && n < maxImagesPerReplica/2 {
				pick[i] = true
				n++
			}
		}
		stride := len(imgs)/(maxImagesPerReplica/2) + 1
		for i := 0; i < len(imgs); i += stride {
			if !pick[i] {
				pick[i] = true
				n++
			}
		}
		w.out.Probe("images-sampled")
	}
	if w.seenImages == nil {
		w.seenImages = map[uint64]bool{}
	}
	budget := maxImagesPerReplica
	if depth > 1 {
		budget = 6 // recursion is sampled
	}
	for i := range imgs {
		if !pick[i] || w.failed() || budget <= 0 {
			continue
		}
		im := imgs[i]
		// the verdict is a function of (image, bounds, log): evaluate each combination once per run
		h := core.Mix(im.img.Hash(), im.lower, im.upper, uint64(r.format))
		if w.seenImages[h] {
			w.out.Probe("image-duplicate-skipped")
			continue
		}
		w.seenImages[h] = true
		budget--
		w.evalImage(r, im, depth)
	}
}

func (w *world) evalImage(parent *replica, im evalImage, depth int) {
	w.imgReplica, w.imgFormat = parent.id, parent.format
	saveStep := w.step
	savedOverride := w.propOverride
	ip := "C04"
	if w.cfg.Prop == "C08" {
		// in C08 runs a crash image is an interrupted (or just completed) install: old or new, never a mix
		ip = "C08"
	}
	w.propOverride = ip
	defer func() { w.propOverride = savedOverride; w.step = saveStep }()
	w.step = im.step

	r := &replica{id: parent.id, format: parent.format, ctxs: map[int]*snapCtx{}}
	r.syncedIdx.Store(im.lower)
	r.startedIdx.Store(im.upper)
	r.fs = crashfs.Mount(im.img)
	deep := depth < 2 && w.cfg.HarvestDeep && (im.mid || core.Mix(im.img.Hash(), 11)%4 == 0)
	if deep {
		w.instrument(r, r.fs)
	}
	w.out.Probe("image-evaluated")
	if im.mid {
		w.out.Probe("image-mid-operation")
		w.out.Probe("image-during-" + im.during)
	}
	if depth > 1 {
		w.out.Probe("image-depth2")
	}
	where := fmt.Sprintf("crash image after fs-op %d (step %d, during %s, depth %d)", im.img.Op, im.step, im.during, depth)

	r.sm = w.newFSM(r, r.fs)
	var idx uint64
	var err error
	r.during = "crash-recovery-open"
	r.inStep.Store(true)
	cp := guard(func() { idx, err = r.sm.Open(nil) })
	r.inStep.Store(false)
	quiesce()
	if cp != nil {
		w.attach(im)
		w.fail(ip, "image-open-panic", "image-open-panic:"+repoFrame(cp.stack), "%s: Open panicked: %v\n%s", where, cp.val, cp.stack)
		return
	}
	if err != nil {
		w.attach(im)
		w.fail(ip, "image-open-failed", "image-open-failed:"+im.during+":"+errClass(err), "%s: reopening fails: %v\ndurable view:\n%s", where, err, im.img.Listing())
		return
	}
	r.open = true
	r.epoch = 1
	defer func() {
		if r.open {
			_ = guard(func() { _ = r.sm.Close() })
			r.fs.OnOp = nil
			quiesce()
		}
	}()
	p := w.posOf(idx)
	if p < 0 {
		w.attach(im)
		w.fail(ip, "image-index", "image-index-unknown", "%s: Open returned index %d which is no log entry", where, idx)
		return
	}
	if idx < im.lower || idx > im.upper {
		w.attach(im)
		w.fail(ip, "image-index", "image-"+crashIdxSig(idx, im.lower, im.upper)+":"+im.during, "%s: Open reports index %d; last completed sync covered %d, last entry handed to Update %d\ndurable view:\n%s", where, idx, im.lower, im.upper, im.img.Listing())
		return
	}
	r.pos = p
	w.dig.Add(idx)
	if !w.checkState(r, ip, "crash-image:"+im.during) {
		w.attach(im)
		return
	}
	// re-apply the rest: same final state as if no crash had happened, results identical (only once)
	rest := len(w.log) - r.pos
	if rest > 0 {
		cut := 1 + int(core.Mix(im.img.Hash(), 7)%uint64(rest))
		if !w.applyBatch(r, cut) {
			w.attach(im)
			return
		}
		if rest-cut > 0 && !w.applyBatch(r, rest-cut) {
			w.attach(im)
			return
		}
		if !w.checkState(r, ip, "crash-image-replayed:"+im.during) {
			w.attach(im)
			return
		}
	}
	if deep {
		_ = guard(func() { _ = r.sm.Close() })
		r.open = false
		quiesce()
		r.syncedIdx.Store(maxU(r.syncedIdx.Load(), w.idxAt(r.pos)))
		w.evalImages(r, depth+1)
	}
}

func (w *world) attach(im evalImage) {
	if w.out.Artifacts == nil {
		w.out.Artifacts = map[string]any{}
	}
	w.out.Artifacts["image"] = im.img.Encode()
	w.out.Artifacts["image_lower"] = im.lower
	w.out.Artifacts["image_upper"] = im.upper
	w.out.Artifacts["image_step"] = im.step
	w.out.Artifacts["image_during"] = im.during
	w.out.Artifacts["image_mid"] = im.mid
	w.out.Artifacts["image_replica"] = w.imgReplica
	w.out.Artifacts["image_format"] = w.imgFormat
}

func collectAppends(steps []Step, f func(*Step)) {
	for i := range steps {
		if steps[i].Op == "append" {
			f(&steps[i])
		}
		collectAppends(steps[i].Inner, f)
	}
}

// ExecArtifacts re-runs the crash-recovery oracle on the durable image stored in a replay file. The log
// (and with it the model) is a function of the schedule's append steps alone, so the verdict on the
// stored image is exactly repeatable even when a re-execution lets a background flush land elsewhere.
func ExecArtifacts(s core.Schedule, art map[string]any) *core.Outcome {
	sc := s.(*Sched)
	out := core.NewOutcome()
	enc, _ := art["image"].(string)
	if enc == "" {
		return out
	}
	img, err := crashfs.DecodeImage(enc)
	if err != nil {
		out.Fail("HARNESS", "artifact", "artifact", 0, "cannot decode the stored image: %v", err)
		return out
	}
	num := func(k string) uint64 {
		switch v := art[k].(type) {
		case float64:
			return uint64(v)
		case uint64:
			return v
		case int:
			return uint64(v)
		}
		return 0
	}
	w := newWorld(&sc.Cfg, out)
	defer w.cache.Unref()
	collectAppends(sc.Steps, func(st *Step) { w.appendCmds(st.Cmds) })
	parent := &replica{id: int(num("image_replica")), format: int(num("image_format")), ctxs: map[int]*snapCtx{}}
	during, _ := art["image_during"].(string)
	mid, _ := art["image_mid"].(bool)
	saved := w.cfg.HarvestDeep
	w.cfg.HarvestDeep = false
	w.evalImage(parent, evalImage{pendingImage: pendingImage{img: img, upper: num("image_upper"), step: int(num("image_step")), mid: mid, during: during}, lower: num("image_lower")}, 2)
	w.cfg.HarvestDeep = saved
	return out
}

// Exec executes a schedule in world W1. It must run inside a synctest bubble.
func Exec(s core.Schedule) *core.Outcome {
	crashfs.Yield = core.Yield
	sc := s.(*Sched)
	out := core.NewOutcome()
	w := newWorld(&sc.Cfg, out)
	defer w.cache.Unref()
	for _, r := range w.reps {
		if !w.openReplica(r, "first-open") {
			break
		}
	}
	for i := range sc.Steps {
		if w.failed() {
			break
		}
		w.step = i
		w.execStep(&sc.Steps[i])
	}
	w.step = len(sc.Steps)
	// finish streamed reads still open
	for slot := range w.iters {
		if w.failed() {
			break
		}
		w.iterPull(slot, 0)
	}
	for slot := range w.iters {
		s := w.iters[slot]
		if !s.finished {
			select {
			case s.next <- false:
			case <-s.done:
			}
			<-s.done
		}
	}
	if !w.failed() {
		for _, r := range w.reps {
			w.checkState(r, "C01", "final")
		}
		w.crossCheck()
	}
	// shut down, then evaluate harvested crash images
	for _, r := range w.reps {
		if r.open {
			r.during = "close"
			covered := w.idxAt(r.pos)
			r.inStep.Store(true)
			cp := guard(func() { _ = r.sm.Close() })
			r.inStep.Store(false)
			quiesce()
			r.open = false
			if cp == nil {
				r.syncedIdx.Store(covered)
			}
		}
	}
	if sc.Cfg.Harvest {
		for _, r := range w.reps {
			if w.failed() {
				break
			}
			w.evalImages(r, 1)
		}
	}
	if out.Violation == nil && w.deferred != nil {
		out.Violation = w.deferred
	}
	w.classify(sc)
	out.Digest = w.dig.Sum()
	out.Steps = len(sc.Steps)
	return out
}

// classify decides whether the run was non-trivial for its property.
func (w *world) classify(sc *Sched) {
	p := w.out.Probes
	switch sc.Cfg.Prop {
	case "C01":
		w.out.NonTrivial = p["batch-with-read-dependent-cmd"] > 0
	case "C02":
		w.out.NonTrivial = p["txn-mid-batch"] > 0
	case "C03":
		w.out.NonTrivial = p["replica-pair-compared"] > 0 && p["li-mixed-log"] > 0
	case "C04":
		w.out.NonTrivial = p["image-mid-operation"] > 0
	case "C07", "C05":
		w.out.NonTrivial = p["writes-during-snapshot-stream"] > 0
	case "C08":
		w.out.NonTrivial = p["install-complete"] > 0 && (p["writes-between-prepare-and-save-end"] > 0 || p["cross-format-install"] > 0) || p["recover-stopped"] > 0
	case "C09":
		w.out.NonTrivial = p["limit=m-1"]+p["limit=m"]+p["limit=m+1"]+p["unary-size-cut"]+p["iter-multi-chunk"] > 0
	case "C10":
		w.out.NonTrivial = p["txn-empty-branch"] > 0 || p["txn-applied"] > 0
	case "C11":
		w.out.NonTrivial = p["multi-entry-batch"] > 0 && p["apply-notification-checked"] > 0
	case "C12":
		w.out.NonTrivial = adversarialKeys(sc.Cfg.Keys)
	}
}

func adversarialKeys(keys []QB) bool {
	for _, a := range keys {
		if len(a) >= 1019 {
			return true
		}
		for _, b := range keys {
			if len(b) > len(a) && bytes.HasPrefix(b, a) && (b[len(a)] == 0x00 || b[len(a)] == 0xFF) {
				return true
			}
		}
	}
	return false
}
