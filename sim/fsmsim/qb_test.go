package fsmsim

import (
	"bytes"
	"encoding/json"
	"testing"
)

func TestQBRoundTrip(t *testing.T) {
	for _, k := range [][]byte{{0}, []byte("a\"b\\c"), bytes.Repeat([]byte{0xff}, 1024), append(bytes.Repeat([]byte{0}, 100), 'x', '"', 0xfe), []byte("héllo")} {
		raw, err := json.Marshal(QB(k))
		if err != nil {
			t.Fatal(err)
		}
		var back QB
		if err := json.Unmarshal(raw, &back); err != nil {
			t.Fatalf("%s: %v", raw, err)
		}
		if !bytes.Equal(back, k) {
			t.Fatalf("round trip %q -> %s -> %q", k, raw, back)
		}
	}
}
