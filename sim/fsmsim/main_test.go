//go:debug randautoseed=0
//go:debug randseednop=0
package fsmsim

import (
	"testing"

	"verif/sim/core"
)

var w1Real = []string{"storage/table/fsm (FSM, commands, queries, iterators, both snapshot formats)", "storage/table/key", "pebble (regatta helpers: OpenDB, dir protocol)", "github.com/cockroachdb/pebble (real LSM, background flush/compaction)"}
var w1Stub = []string{"Raft library: single-threaded driver honouring the IOnDiskStateMachine contract", "disk: crashfs (vfs.FS with volatile/durable views)", "clock: testing/synctest fake clock"}

func spec(prop, rule string, req ...string) *core.Spec {
	return &core.Spec{Prop: prop, World: "W1 fsmsim", Gen: Gen(prop), Decode: Decode, Exec: Exec, ExecArtifacts: ExecArtifacts, Rule: rule, Real: w1Real, Stub: w1Stub, RequiredProbes: req,
		Assumptions: []string{"regatta is compiled with go1.26.8 instead of the go1.22 toolchain its go.mod names", "Pebble itself is sound on a strict sync-or-lose disk", "the driver's reading of dragonboat's IOnDiskStateMachine contract (statemachine/disk.go) is correct"}}
}

var Specs = map[string]*core.Spec{
	"C01": spec("C01", "seeded command histories over an adversarial key pool, random batch cuts, reads of every shape; non-trivial = applied >=1 multi-entry batch containing a read-dependent command (prev_kv/count/txn); distinct = distinct digests of all results and read answers", "multi-entry-batch", "wildcard-end", "empty-range"),
	// the sorted-map oracles of C01 (and the transaction / read oracles that go with them) over the histories
	// only the C03 profile draws: leader indices, replicated sequences, restarts, crashes, snapshot transfers,
	// Pebble knobs, 2-4 replicas. In a C03 run such a mismatch belongs to another property and is only counted.
	"C01@C03": {Prop: "C01", World: "W1 fsmsim", Gen: GenAs("C03", "C01"), Decode: Decode, Exec: Exec, ExecArtifacts: ExecArtifacts,
		Rule: "C01's reference-model oracles (content, results, reads after every apply, reopen, install) over the C03 profile: logs mixing entries with and without leader index, replicated sequences (also repeated, overlapping, nested with foreign indices), close/reopen, crash, snapshot transfer in both formats, Pebble knobs, 2-4 replicas; non-trivial and distinct as in C03",
		Real: w1Real, Stub: w1Stub, RequiredProbes: []string{"replica-pair-compared", "li-mixed-log"},
		Assumptions: []string{"as the C01 part"}},
	"C02": spec("C02", "transaction-heavy histories (0-4 predicates incl. ranges and existence tests, 0-5 ops per branch) embedded in random apply batches, plus read-only transactions via Lookup; non-trivial = a transaction applied at offset >0 of a multi-entry batch; distinct = distinct result digests", "txn-mid-batch", "txn-read-only"),
	"C03": spec("C03", "one log, 2-4 replicas with independent batch cuts, close/reopen, crash, snapshot transfer in both formats; differential oracle (hash, results, indices) plus model; non-trivial = two replicas compared at the same prefix over a log mixing entries with and without leader index; distinct = distinct digests", "replica-pair-compared", "li-mixed-log"),
	"C04": spec("C04", "histories with sync, restart, snapshot install and Pebble knobs; the durable view is harvested after every sync/dirsync operation (the only operations that change it) and the recovery oracle run on each image, depth <=2; non-trivial = at least one image captured strictly inside an operation (flush, install, first open); distinct = distinct digests incl. recovered indices", "image-evaluated", "image-mid-operation"),
	"C05": spec("C05", "W1 part of C05: the leader's recovery snapshot stream (Lookup(SnapshotRequest)) with further batches applied between Write calls is the table at exactly the index it declares - W3 serialises state-machine calls and cannot place a write inside the stream; non-trivial = writes happened while the stream was produced", "snapshot-stream", "writes-during-snapshot-stream"),
	"C07": spec("C07", "W1 half of C07: Lookup(SnapshotRequest) into a writer that applies further batches between Write calls; non-trivial = writes happened while the stream was produced", "snapshot-stream"),
	"C08": spec("C08", "prepare/save/recover between replicas of same and different snapshot formats, writes between prepare and end of save, stop signal during save/recover, short reads, streamed reads opened before and consumed after an install, crash images during install; non-trivial = completed install with interleaved writes or cross format, or interruption inside recover", "install-complete"),
	"C09": spec("C09", "range reads (unary and streamed) with limits placed at m-1, m, m+1 relative to the number of matching pairs, all flags, wildcard/inverted bounds, occasional near-2MiB values for size cuts; non-trivial = limit in {m-1,m,m+1} or a size-cut/multi-message stream", "limit=m-1", "limit=m", "limit=m+1"),
	"C10": spec("C10", "W1 part of C10: revision carried by every applied mutation equals its log index, including transactions whose taken branch is empty", "txn-applied"),
	"C11": spec("C11", "W1 part of C11 (first sentence): the applied-index listener - what a follower's notification queue hangs on - is told about an index only when a read on the same node already observes it; checked from inside the listener callback during every Update", "apply-notification-checked"),
	"C12": spec("C12", "C01 histories restricted to >=6 adversarial keys (max length, 0x00/0xFF heavy, mutually prefixing, bookkeeping names) plus an inline encode/decode/order monitor over all key pairs; non-trivial = pool has a strict-prefix pair with 0x00/0xFF continuation or a key >=1019 bytes. Model-based exploration with generated inputs, not a schedule search", "wildcard-end"),
}

func TestRun(t *testing.T) { core.Main(t, Specs) }
