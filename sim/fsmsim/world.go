package fsmsim

import (
	"bytes"
	"errors"
	"fmt"
	"io"
	"runtime"
	"runtime/debug"
	"strings"
	"sync/atomic"
	"testing/synctest"

	"github.com/cockroachdb/pebble"
	rp "github.com/jamf/regatta/pebble"
	"github.com/jamf/regatta/regattapb"
	"github.com/jamf/regatta/storage/table/fsm"
	"github.com/jamf/regatta/util/iter"
	sm "github.com/lni/dragonboat/v4/statemachine"
	"verif/sim/core"
	"verif/sim/crashfs"
	"verif/sim/model"
)

const (
	baseDir   = "/data"
	tableName = "t"
	shardID   = 10001
)

type entry struct {
	index uint64
	spec  *Cmd
	cmd   *regattapb.Command
	raw   []byte
}

type applied struct {
	value uint64
	data  []byte
	by    int
}

type pendingImage struct {
	img    *crashfs.Image
	upper  uint64 // last index whose Update had started when the image was captured
	step   int
	mid    bool // captured while a step was executing (not at a quiescent point)
	during string
}

type iterSlot struct {
	rep        int
	req        *regattapb.RequestOp_Range
	posOpen    int
	posFirst   int // replica position at first pull (-1 = not pulled yet)
	epochOpen  int // install epoch of the replica at open
	next       chan bool
	out        chan *regattapb.ResponseOp_Range
	done       chan struct{}
	chunks     []*regattapb.ResponseOp_Range
	finished   bool
	panicVal   any
	panicStk   string
	boundaries []int
}

type snapCtx struct {
	rep int
	ctx any
	pos int
}

type snapBuf struct {
	data   []byte
	pos    int // log position the snapshot represents
	format int
	ok     bool
}

type replica struct {
	id         int
	fs         *crashfs.FS
	sm         *fsm.FSM
	open       bool
	pos        int // number of log entries applied
	format     int
	epoch      int           // number of completed installs/reopens (DB handle generations)
	syncedIdx  atomic.Uint64 // index covered by the last completed Sync
	startedIdx atomic.Uint64 // last index handed to an Update that has started
	pending    *pendingImage
	images     []evalImage
	boundaries []int // positions at which the replica stood (batch boundaries)
	curStep    int
	inStep     atomic.Bool
	during     string
	lastBuf    *snapBuf
	ctxs       map[int]*snapCtx
	inUpdate   bool
	notifs     [][2]uint64
	inRecover  bool     // inside RecoverFromSnapshot
	recNotifs  []uint64 // what the applied-index listener was told during it
}

type evalImage struct {
	pendingImage
	lower uint64
}

type world struct {
	cfg                   *Cfg
	out                   *core.Outcome
	dig                   core.Digest
	log                   []*entry
	states                []*model.KV       // states[p] = model after p entries
	exp                   []model.ExpResult // exp[p] = expected result of entry p (0-based)
	leader                []uint64          // leader[p] = expected leader index after p entries
	reps                  []*replica
	results               map[uint64]*applied
	iters                 map[int]*iterSlot
	harvestBytes          int64 // file bytes referred to by the crash images harvested in this run
	step                  int
	nextIndex             uint64
	cache                 *pebble.Cache
	ioErr                 *ioErrPlan
	depth                 int
	propOverride          string
	sawLI                 bool
	seenImages            map[uint64]bool
	deferred              *core.Violation
	imgReplica, imgFormat int
}

type ioErrPlan struct {
	at    int
	kind  string
	seen  int
	fired bool
	op    crashfs.Op
}

// regattaIssued reports whether a file-system operation is one that regatta's
// own code issues (as opposed to operations inside an open Pebble DB).
func regattaIssued(op crashfs.Op) bool {
	p := op.Path
	base := p[strings.LastIndex(p, "/")+1:]
	switch {
	case base == "current" || base == "current.updating":
		return true
	case strings.HasPrefix(base, "ingest-") && strings.HasSuffix(base, ".sst"):
		return true
	case op.Kind == "dirsync" && strings.HasSuffix(p, fmt.Sprintf("%s-%d", tableName, shardID)):
		return true
	}
	return false
}

func (w *world) fail(prop, oracle, sig string, format string, args ...any) {
	if w.propOverride != "" && (prop == "C01" || prop == "C02" || prop == "C03" || prop == "C09") {
		prop = w.propOverride
		oracle = "replay-" + oracle
	} else if w.cfg.Prop == "C05" && prop == "C07" {
		// the leader's recovery snapshot stream: a follower records the declared index as its leader index,
		// so a stream that is not the table at exactly that index breaks C05 as well
		prop = "C05"
	} else if w.cfg.Prop == "C12" && (prop == "C01" || prop == "C09") {
		// C12 is decided through the store: with adversarial keys any collision, order inversion, decode
		// mismatch or leak between the key spaces shows as a divergence from the sorted-map model
		prop = "C12"
	}
	if w.cfg.ReportAs != "" && (prop == "C01" || prop == "C02" || prop == "C09") {
		prop = w.cfg.ReportAs
	}
	w.out.Fail(prop, oracle, sig, w.step, format, args...)
}

func (w *world) failed() bool { return w.out.Violation != nil }

func (w *world) newFS(r *replica) *crashfs.FS {
	fs := crashfs.New()
	if err := fs.MakeDurable(baseDir); err != nil {
		panic(err)
	}
	w.instrument(r, fs)
	return fs
}

// instrument installs harvesting and fault injection on a replica's file system.
func (w *world) instrument(r *replica, fs *crashfs.FS) {
	fs.Inject = func(op crashfs.Op) error {
		p := w.ioErr
		if p == nil || p.fired || !regattaIssued(op) {
			return nil
		}
		p.seen++
		if p.seen == p.at {
			p.fired = true
			p.op = op
			w.out.Fault("io-error-" + p.kind)
			if p.kind == "enospc" {
				return crashfs.ErrInjectedNoSpc
			}
			return crashfs.ErrInjectedIO
		}
		return nil
	}
	if !w.cfg.Harvest {
		return
	}
	fs.OnOp = func(f *crashfs.FS, op crashfs.Op) {
		if op.Kind != "sync" && op.Kind != "dirsync" {
			return // only syncs change the durable view
		}
		// The durable view was constant since the previous sync: finalise the
		// pending image with the tightest lower bound of its window.
		w.finalise(r)
		if w.harvestBytes > harvestCap {
			// a table of many megabytes synced in many steps: every image keeps its own version of the growing
			// files alive; what was harvested so far is evaluated, the rest of this run is not harvested
			w.out.Probe("harvest-capped-by-size")
			return
		}
		img := f.CaptureLocked()
		w.harvestBytes += img.Size()
		r.pending = &pendingImage{img: img, upper: r.startedIdx.Load(), step: r.curStep, mid: true, during: r.during}
	}
}

// harvestCap bounds the file bytes all crash images of one run may refer to (an upper bound of their memory).
const harvestCap = 256 << 20

func (w *world) finalise(r *replica) {
	if r.pending == nil {
		return
	}
	r.images = append(r.images, evalImage{pendingImage: *r.pending, lower: r.syncedIdx.Load()})
	r.pending = nil
}

func (w *world) newFSM(r *replica, fs *crashfs.FS) *fsm.FSM {
	srt := fsm.RecoveryTypeSnapshot
	if r.format == 1 {
		srt = fsm.RecoveryTypeCheckpoint
	}
	var self *fsm.FSM
	// the applied-index listener (what a follower's notification queue hangs on): when it is told about
	// an index, a read on the same node must already observe it (C11, first sentence)
	af := func(applied uint64) {
		if r.inRecover {
			r.recNotifs = append(r.recNotifs, applied)
		}
		if self == nil || !r.inUpdate {
			return
		}
		res, err := self.Lookup(fsm.LocalIndexRequest{})
		if err != nil {
			return
		}
		r.notifs = append(r.notifs, [2]uint64{applied, res.(*fsm.IndexResponse).Index})
	}
	s := fsm.New(tableName, baseDir, fs, w.cache, nil, srt, af)(shardID, uint64(r.id+1))
	self = s.(*fsm.FSM)
	return self
}

func installKnobs(cfg *Cfg) {
	rp.VerifOptions = func(dbdir string, o *pebble.Options) {
		if cfg.MemTable > 0 {
			o.MemTableSize = cfg.MemTable
		}
		if cfg.L0Compact > 0 {
			o.L0CompactionThreshold = cfg.L0Compact
			o.L0CompactionFileThreshold = cfg.L0Compact
		}
		if cfg.BlockSize > 0 {
			for i := range o.Levels {
				o.Levels[i].BlockSize = cfg.BlockSize
			}
		}
		if cfg.NoAutoComp {
			o.DisableAutomaticCompactions = true
		}
	}
}

// quiesce lets Pebble's background work run to completion so that the
// file-system state between steps is a function of the schedule.
func quiesce() { synctest.Wait() }

// ---- calls into the code under test, panic-guarded ---------------------------

type callPanic struct {
	val   any
	stack string
}

func guard(f func()) (cp *callPanic) {
	defer func() {
		if r := recover(); r != nil {
			cp = &callPanic{val: r, stack: string(debug.Stack())}
		}
	}()
	f()
	return nil
}

func repoFrame(stack string) string {
	for _, ln := range strings.Split(stack, "\n") {
		ln = strings.TrimSpace(ln)
		if strings.HasPrefix(ln, "github.com/jamf/regatta/") {
			if i := strings.LastIndex(ln, "("); i > 0 {
				ln = ln[:i]
			}
			return strings.TrimPrefix(ln, "github.com/jamf/regatta/")
		}
	}
	return "?"
}

func shortPanic(v any) string {
	s := fmt.Sprint(v)
	if len(s) > 60 {
		s = s[:60]
	}
	return s
}

// ---- world -----------------------------------------------------------------

func newWorld(cfg *Cfg, out *core.Outcome) *world {
	w := &world{cfg: cfg, out: out, results: map[uint64]*applied{}, iters: map[int]*iterSlot{}}
	w.states = []*model.KV{model.NewKV()}
	w.leader = []uint64{0}
	w.cache = pebble.NewCache(8 << 20)
	installKnobs(cfg)
	n := cfg.Replicas
	if n < 1 {
		n = 1
	}
	for i := 0; i < n; i++ {
		r := &replica{id: i, ctxs: map[int]*snapCtx{}}
		if i < len(cfg.Formats) {
			r.format = cfg.Formats[i]
		}
		r.fs = w.newFS(r)
		w.reps = append(w.reps, r)
	}
	return w
}

func (w *world) openReplica(r *replica, during string) bool {
	r.during = during
	r.sm = w.newFSM(r, r.fs)
	var idx uint64
	var err error
	r.inStep.Store(true)
	cp := guard(func() { idx, err = r.sm.Open(nil) })
	r.inStep.Store(false)
	quiesce()
	if cp != nil {
		w.fail("C04", "open-panic", "open-panic:"+repoFrame(cp.stack), "Open panicked: %v\n%s", cp.val, cp.stack)
		return false
	}
	if err != nil {
		if w.ioErr != nil && w.ioErr.fired {
			return false // legitimately failed by an injected error
		}
		w.fail("C04", "open-failed", "open-failed:"+errClass(err), "replica %d: Open failed: %v", r.id, err)
		return false
	}
	r.open = true
	r.epoch++
	p := w.posOf(idx)
	if p < 0 {
		w.fail("C04", "open-index", "open-index-unknown", "replica %d: Open returned index %d which is no log entry", r.id, idx)
		return false
	}
	r.pos = p
	r.boundaries = append(r.boundaries, p)
	return true
}

func errClass(err error) string {
	s := err.Error()
	switch {
	case strings.Contains(s, "not exist") || strings.Contains(s, "no such file"):
		return "not-exist"
	case strings.Contains(s, "input/output"):
		return "eio"
	case strings.Contains(s, "no space"):
		return "enospc"
	}
	if len(s) > 40 {
		s = s[:40]
	}
	return s
}

// posOf maps a log index to a position (number of entries applied); -1 if unknown.
func (w *world) posOf(idx uint64) int {
	if idx == 0 {
		return 0
	}
	for i, e := range w.log {
		if e.index == idx {
			return i + 1
		}
	}
	return -1
}

func (w *world) idxAt(pos int) uint64 {
	if pos <= 0 {
		return 0
	}
	return w.log[pos-1].index
}

func (w *world) appendCmds(cmds []Cmd) {
	for i := range cmds {
		c := &cmds[i]
		w.nextIndex += uint64(1 + c.Gap)
		pc := w.cfg.command(c)
		raw, err := pc.MarshalVT()
		if err != nil {
			panic(err)
		}
		// the model consumes what the log holds: decode the bytes again
		dec := &regattapb.Command{}
		if err := dec.UnmarshalVT(raw); err != nil {
			panic(err)
		}
		w.log = append(w.log, &entry{index: w.nextIndex, spec: c, cmd: dec, raw: raw})
		st := w.states[len(w.states)-1].Clone()
		li := w.leader[len(w.leader)-1]
		if dec.Type == regattapb.Command_SEQUENCE && dec.LeaderIndex != nil && *dec.LeaderIndex <= li {
			// exactly once (C05): a replicated sequence that does not take the table beyond the leader
			// index it is already at repeats leader commands; it has no effect and answers like a no-op
			w.exp = append(w.exp, st.Apply(&regattapb.Command{Type: regattapb.Command_DUMMY}))
			w.out.Probe("stale-sequence-in-log")
		} else if dec.Type == regattapb.Command_SEQUENCE && dec.LeaderIndex != nil {
			// ... and of a longer one, the commands at or below that leader index (each replicated command
			// carries its own) are the ones already applied: only the rest takes effect
			eff := &regattapb.Command{Type: regattapb.Command_SEQUENCE, Table: dec.Table}
			head := true
			for _, sc := range dec.Sequence {
				if head && sc.LeaderIndex != nil && *sc.LeaderIndex <= li {
					w.out.Probe("stale-sequence-head-in-log")
					continue
				}
				head = false // leader commands are consecutive: what was applied before is a head, never a middle
				eff.Sequence = append(eff.Sequence, sc)
				if sc.Type == regattapb.Command_SEQUENCE {
					for _, in := range sc.Sequence {
						if in.LeaderIndex != nil && *in.LeaderIndex <= li {
							// the commands of a nested sequence carry the indices of another log: all of them apply
							w.out.Probe("nested-sequence-with-foreign-indices-below-table-index")
						}
					}
				}
			}
			w.exp = append(w.exp, st.Apply(eff))
			li = *dec.LeaderIndex
		} else {
			w.exp = append(w.exp, st.Apply(dec))
			if dec.LeaderIndex != nil {
				li = *dec.LeaderIndex
			}
		}
		w.states = append(w.states, st)
		w.leader = append(w.leader, li)
		if dec.LeaderIndex != nil {
			w.sawLI = true
		} else if w.sawLI {
			w.out.Probes["li-mixed-log"] = 1
		}
	}
}

func propOfEntry(e *entry) string {
	if hasTxn(e.spec) {
		return "C02"
	}
	return "C01"
}

// applyBatch hands entries [r.pos, r.pos+n) to Update in one call and checks the results.
func (w *world) applyBatch(r *replica, n int) bool {
	if n <= 0 {
		return true
	}
	ents := make([]sm.Entry, n)
	for i := 0; i < n; i++ {
		e := w.log[r.pos+i]
		ents[i] = sm.Entry{Index: e.index, Cmd: append([]byte(nil), e.raw...)}
	}
	r.startedIdx.Store(ents[n-1].Index)
	var res []sm.Entry
	var err error
	r.inStep.Store(true)
	r.notifs = r.notifs[:0]
	r.inUpdate = true
	cp := guard(func() { res, err = r.sm.Update(ents) })
	r.inUpdate = false
	r.inStep.Store(false)
	if cp == nil && err == nil {
		// judged in the C11 run only: in every other property's run the listener is still watched, but a
		// finding there must not end the run before that property's own oracles have looked (a change that
		// breaks both would otherwise be invisible to the other check)
		judge := w.cfg.Prop == "C11"
		if len(r.notifs) == 0 {
			if judge {
				w.fail("C11", "no-apply-notification", "no-apply-notification", "Update of entries up to %d did not notify the applied-index listener", ents[n-1].Index)
				return false
			}
			w.out.Probe("other-property:C11/no-apply-notification")
		}
		for _, nf := range r.notifs {
			if nf[1] < ents[n-1].Index {
				if judge {
					w.fail("C11", "notified-before-visible", "notified-before-visible", "the applied-index listener was told about index %d while a read on the same node still reports applied index %d (batch ends at %d): a waiter released now would not observe its write", nf[0], nf[1], ents[n-1].Index)
					return false
				}
				w.out.Probe("other-property:C11/notified-before-visible")
				break
			}
		}
		w.out.Probe("apply-notification-checked")
	}
	if cp != nil {
		w.fail("C01", "update-panic", "update-panic:"+repoFrame(cp.stack), "Update panicked: %v\n%s", cp.val, cp.stack)
		return false
	}
	if err != nil {
		w.fail("C01", "update-error", "update-error:"+errClass(err), "replica %d: Update returned error: %v", r.id, err)
		return false
	}
	if len(res) != n {
		w.fail("C01", "update-len", "update-len", "Update returned %d entries for %d", len(res), n)
		return false
	}
	if n > 1 {
		w.out.Probe("multi-entry-batch")
		hasLI, noLI := false, false
		for i := 0; i < n; i++ {
			sp := w.log[r.pos+i].spec
			if readDependent(sp) {
				w.out.Probe("batch-with-read-dependent-cmd")
			}
			if i > 0 && hasTxn(sp) {
				w.out.Probe("txn-mid-batch")
			}
			if sp.LI != nil {
				hasLI = true
			} else if hasLI {
				noLI = true
			}
		}
		if hasLI && noLI {
			w.out.Probe("li-mixed-batch")
		}
	}
	for i := 0; i < n; i++ {
		if hasTxn(w.log[r.pos+i].spec) {
			w.out.Probe("txn-applied")
		}
	}
	for i := 0; i < n; i++ {
		e := w.log[r.pos+i]
		prop := propOfEntry(e)
		var cr *regattapb.CommandResult
		if len(res[i].Result.Data) > 0 {
			cr = &regattapb.CommandResult{}
			if err := cr.UnmarshalVT(res[i].Result.Data); err != nil {
				w.fail(prop, "result-decode", "result-decode", "entry %d: result does not decode: %v", e.index, err)
				return false
			}
			if cr.Revision != e.index {
				if w.cfg.Prop == "C10" {
					w.fail("C10", "revision", "revision-mismatch", "entry %d (%s): result carries revision %d", e.index, e.spec.T, cr.Revision)
					return false
				}
				w.out.Probe("other-property:C10/revision-mismatch")
			}
		}
		if cat, msg := model.CheckResult(w.exp[r.pos+i], res[i].Result.Value, cr); cat != "" {
			if w.cfg.Prop == "C03" && w.propOverride == "" {
				// differential runs: keep going so that the replica comparison can show whether the answer
				// depends on batching; the model mismatch is reported at the end if nothing else fails
				if w.deferred == nil {
					w.deferred = &core.Violation{Prop: prop, Oracle: "result", Sig: "result:" + e.spec.T + ":" + cat, Step: w.step,
						Msg: fmt.Sprintf("replica %d entry %d (%s, batch of %d, offset %d): %s", r.id, e.index, e.spec.T, n, i, msg)}
				}
			} else {
				w.fail(prop, "result", "result:"+e.spec.T+":"+cat, "replica %d entry %d (%s, batch of %d, offset %d): %s", r.id, e.index, e.spec.T, n, i, msg)
				return false
			}
		}
		if e.spec.T == "txn" && len(res[i].Result.Data) == 0 {
			// C10: every acknowledged mutation reports a non-zero revision, including a
			// transaction whose executed branch performs no operation. The revision
			// travels in Result.Data.
			w.out.Probe("txn-empty-branch")
			if w.cfg.Prop == "C10" {
				w.fail("C10", "txn-revision", "txn-empty-branch-no-revision", "entry %d: transaction result carries no revision (empty Result.Data)", e.index)
				return false
			}
			w.out.Probe("other-property:C10/txn-empty-branch-no-revision")
		}
		// C03: results are identical whichever replica / batching produced them
		if prev, ok := w.results[e.index]; ok {
			if prev.value != res[i].Result.Value || !bytes.Equal(prev.data, res[i].Result.Data) {
				w.fail("C03", "result-diverge", "result-diverge:"+e.spec.T, "entry %d (%s): replica %d reports (%d,%x), replica %d reported (%d,%x)", e.index, e.spec.T, r.id, res[i].Result.Value, trunc(res[i].Result.Data), prev.by, prev.value, trunc(prev.data))
				return false
			}
		} else {
			w.results[e.index] = &applied{value: res[i].Result.Value, data: append([]byte(nil), res[i].Result.Data...), by: r.id}
		}
		w.dig.Add(res[i].Result.Value)
		w.dig.AddBytes(res[i].Result.Data)
	}
	r.pos += n
	r.boundaries = append(r.boundaries, r.pos)
	quiesce()
	return true
}

func trunc(b []byte) []byte {
	if len(b) > 32 {
		return b[:32]
	}
	return b
}

func (w *world) lookup(r *replica, req any) (res any, err error, cp *callPanic) {
	cp = guard(func() { res, err = r.sm.Lookup(req) })
	return
}

// fullScan reads every user pair through the streaming lookup.
func (w *world) fullScan(r *replica) ([]model.Pair, bool) {
	res, err, cp := w.lookup(r, fsm.IteratorRequest{RangeOp: &regattapb.RequestOp_Range{Key: []byte{0}, RangeEnd: []byte{0}}})
	if cp != nil || err != nil {
		w.fail("C01", "scan-error", "scan-error", "full scan failed: %v %v", err, cp)
		return nil, false
	}
	seq := res.(iter.Seq[*regattapb.ResponseOp_Range])
	var pairs []model.Pair
	cp = guard(func() {
		seq(func(ch *regattapb.ResponseOp_Range) bool {
			for _, kv := range ch.Kvs {
				pairs = append(pairs, model.Pair{Key: kv.Key, Value: kv.Value})
			}
			return true
		})
	})
	if cp != nil {
		w.fail("C01", "scan-panic", "scan-panic:"+repoFrame(cp.stack), "full scan panicked: %v\n%s", cp.val, cp.stack)
		return nil, false
	}
	return pairs, true
}

func (w *world) index(r *replica, req any) (uint64, bool) {
	res, err, cp := w.lookup(r, req)
	if cp != nil || err != nil {
		w.fail("C01", "index-error", "index-error", "index lookup failed: %v %v", err, cp)
		return 0, false
	}
	return res.(*fsm.IndexResponse).Index, true
}

// checkState compares a replica with the model at its position.
func (w *world) checkState(r *replica, prop, why string) bool {
	if !r.open || w.failed() {
		return !w.failed()
	}
	li, ok := w.index(r, fsm.LocalIndexRequest{})
	if !ok {
		return false
	}
	if li != w.idxAt(r.pos) {
		w.fail(prop, "applied-index", "applied-index:"+why, "replica %d (%s): reports applied index %d, last applied entry is %d", r.id, why, li, w.idxAt(r.pos))
		return false
	}
	pairs, ok := w.fullScan(r)
	if !ok {
		return false
	}
	if d := w.states[r.pos].Diff(pairs); d != "" {
		w.fail(prop, "content", "content:"+why, "replica %d (%s) at index %d differs from the sorted map: %s", r.id, why, li, d)
		return false
	}
	for i := 1; i < len(pairs); i++ {
		if bytes.Compare(pairs[i-1].Key, pairs[i].Key) >= 0 {
			w.fail("C09", "scan-order", "scan-order", "full scan not strictly ascending at #%d", i)
			return false
		}
	}
	ldi, ok := w.index(r, fsm.LeaderIndexRequest{})
	if !ok {
		return false
	}
	if ldi != w.leader[r.pos] {
		p := prop
		if p == "C01" || p == "C02" {
			p = "C03"
		}
		w.fail(p, "leader-index", "leader-index:"+why, "replica %d (%s) at index %d: leader index %d, the log up to there says %d", r.id, why, li, ldi, w.leader[r.pos])
		return false
	}
	return true
}

// crossCheck compares every pair of open replicas standing at the same position (C03).
func (w *world) crossCheck() {
	if w.failed() {
		return
	}
	for i := 0; i < len(w.reps); i++ {
		for j := i + 1; j < len(w.reps); j++ {
			a, b := w.reps[i], w.reps[j]
			if !a.open || !b.open || a.pos != b.pos {
				continue
			}
			var ha, hb uint64
			var ea, eb error
			if cp := guard(func() { ha, ea = a.sm.GetHash(); hb, eb = b.sm.GetHash() }); cp != nil || ea != nil || eb != nil {
				w.fail("C03", "hash-error", "hash-error", "GetHash failed: %v %v %v", ea, eb, cp)
				return
			}
			w.out.Probe("replica-pair-compared")
			if ha != hb {
				w.fail("C03", "hash-diverge", "hash-diverge", "replicas %d and %d both applied %d entries (index %d) but hash %x != %x", a.id, b.id, a.pos, w.idxAt(a.pos), ha, hb)
				return
			}
		}
	}
}

func (w *world) execRead(r *replica, spec *OpSpec) {
	req := w.cfg.reqRange(spec)
	res, err, cp := w.lookup(r, req)
	if cp != nil {
		w.fail("C01", "read-panic", "read-panic:"+repoFrame(cp.stack), "Lookup(range) panicked: %v\n%s", cp.val, cp.stack)
		return
	}
	if err != nil {
		w.fail("C01", "read-error", "read-error:"+errClass(err), "Lookup(range %s..%s) failed: %v", model.FmtBytes(req.Key), model.FmtBytes(req.RangeEnd), err)
		return
	}
	got := res.(*regattapb.ResponseOp_Range)
	e := w.states[r.pos].ReadRange(req)
	w.probeRange(req, e, r.pos)
	cat, msg, cut := model.CheckRange(e, got)
	if cut {
		w.out.Probe("unary-size-cut")
	}
	if cat != "" {
		prop := "C09"
		if req.RangeEnd == nil || cat == "pairs" {
			prop = "C01"
		}
		w.fail(prop, "read", "read:"+cat+rangeShape(req, e, w.states[r.pos]), "range read key=%s end=%s limit=%d keys_only=%v count_only=%v at index %d: %s", model.FmtBytes(req.Key), model.FmtBytes(req.RangeEnd), req.Limit, req.KeysOnly, req.CountOnly, w.idxAt(r.pos), msg)
		return
	}
	if sz := got.SizeVT(); sz > model.MessageLimit {
		w.fail("C09", "read-size", "read-size", "unary range answer encodes to %d bytes, above the message limit", sz)
	}
	w.dig.Add(uint64(got.Count))
	w.dig.Add(uint64(len(got.Kvs)))
}

// rangeShape classifies limit vs matches for signatures.
func rangeShape(req *regattapb.RequestOp_Range, e model.ExpRange, st *model.KV) string {
	if req.RangeEnd == nil || req.Limit <= 0 {
		return ""
	}
	m := len(st.Range(req.Key, req.RangeEnd))
	l := int(req.Limit)
	switch {
	case l == m-1:
		return ":limit=m-1"
	case l == m:
		return ":limit=m"
	case l < m:
		return ":limit<m-1"
	}
	return ":limit>m"
}

func (w *world) probeRange(req *regattapb.RequestOp_Range, e model.ExpRange, pos int) {
	if req.RangeEnd == nil {
		return
	}
	m := len(w.states[pos].Range(req.Key, req.RangeEnd))
	l := int(req.Limit)
	if l > 0 {
		switch {
		case l == m-1:
			w.out.Probe("limit=m-1")
		case l == m:
			w.out.Probe("limit=m")
		case l == m+1:
			w.out.Probe("limit=m+1")
		}
	}
	if bytes.Equal(req.RangeEnd, []byte{0}) {
		w.out.Probe("wildcard-end")
	}
	if m == 0 {
		w.out.Probe("empty-range")
	}
}

func (w *world) execTxnRead(r *replica, t *TxnSpec) {
	cmp, succ, fail := w.cfg.txn(t)
	req := &regattapb.TxnRequest{Table: []byte(tableName), Compare: cmp, Success: succ, Failure: fail}
	res, err, cp := w.lookup(r, req)
	if cp != nil {
		w.fail("C02", "txnread-panic", "txnread-panic:"+repoFrame(cp.stack), "Lookup(txn) panicked: %v\n%s", cp.val, cp.stack)
		return
	}
	if err != nil {
		w.fail("C02", "txnread-error", "txnread-error:"+errClass(err), "read-only transaction failed: %v", err)
		return
	}
	got := res.(*regattapb.TxnResponse)
	st := w.states[r.pos].Clone()
	ok, ops := st.Txn(cmp, succ, fail)
	if got.Succeeded != ok {
		w.fail("C02", "txnread-branch", "txnread-branch", "read-only transaction: succeeded=%v, model says %v", got.Succeeded, ok)
		return
	}
	v := uint64(0)
	if ok {
		v = 1
	}
	if cat, msg := model.CheckResult(model.ExpResult{Value: v, Ops: ops}, v, &regattapb.CommandResult{Responses: got.Responses}); cat != "" {
		w.fail("C02", "txnread", "txnread:"+cat, "read-only transaction at index %d: %s", w.idxAt(r.pos), msg)
		return
	}
	w.out.Probe("txn-read-only")
	w.dig.Add(v)
}

// ---- lazy iterators (streamed range reads) ---------------------------------------

func (w *world) iterOpen(r *replica, slot int, spec *OpSpec) {
	if _, ok := w.iters[slot]; ok {
		return
	}
	req := w.cfg.reqRange(spec)
	if req.RangeEnd == nil {
		req.RangeEnd = []byte{0}
	}
	res, err, cp := w.lookup(r, fsm.IteratorRequest{RangeOp: req})
	if cp != nil {
		w.fail("C09", "iter-open-panic", "iter-open-panic:"+repoFrame(cp.stack), "Lookup(iterator) panicked: %v\n%s", cp.val, cp.stack)
		return
	}
	if err != nil {
		w.fail("C09", "iter-open-error", "iter-open-error", "Lookup(iterator) failed: %v", err)
		return
	}
	seq := res.(iter.Seq[*regattapb.ResponseOp_Range])
	s := &iterSlot{rep: r.id, req: req, posOpen: r.pos, posFirst: -1, epochOpen: r.epoch, next: make(chan bool), out: make(chan *regattapb.ResponseOp_Range), done: make(chan struct{})}
	w.iters[slot] = s
	go func() {
		defer close(s.done)
		defer func() {
			if rec := recover(); rec != nil {
				s.panicVal = rec
				s.panicStk = string(debug.Stack())
			}
		}()
		if !<-s.next {
			return
		}
		seq(func(ch *regattapb.ResponseOp_Range) bool {
			s.out <- ch
			return <-s.next
		})
	}()
}

// iterPull pulls up to n chunks (n<=0: all). Returns when the consumer is parked again or done.
func (w *world) iterPull(slot int, n int) {
	s := w.iters[slot]
	if s == nil || s.finished {
		return
	}
	r := w.reps[s.rep]
	for k := 0; n <= 0 || k < n; k++ {
		if s.posFirst < 0 {
			s.posFirst = r.pos
		}
		select {
		case s.next <- true:
		case <-s.done:
			s.finished = true
			w.iterFinish(slot, s)
			return
		}
		select {
		case ch := <-s.out:
			s.chunks = append(s.chunks, ch)
		case <-s.done:
			s.finished = true
			w.iterFinish(slot, s)
			return
		}
	}
}

func (w *world) iterDrop(slot int) {
	s := w.iters[slot]
	if s == nil {
		return
	}
	if !s.finished {
		select {
		case s.next <- false:
		case <-s.done:
		}
		<-s.done
		s.finished = true
		if s.panicVal != nil {
			w.iterPanic(s)
		}
	}
	delete(w.iters, slot)
}

func (w *world) iterPanic(s *iterSlot) {
	r := w.reps[s.rep]
	if r.epoch != s.epochOpen {
		// one class, whatever Pebble happens to say when it is used after Close (the message depends on how far the
		// iterator had got: "pebble: closed" from NewIter, other panics from an iterator that was already open):
		// the panic is raised inside Pebble, on the database the install closed. A panic raised in regatta's own
		// frames keeps its own signature.
		what := shortPanic(s.panicVal)
		if strings.Contains(s.panicStk, "github.com/cockroachdb/pebble.") || strings.Contains(s.panicStk, "github.com/cockroachdb/pebble/") {
			what = "pebble: closed"
		}
		w.fail("C08", "read-overlap-panic", "lazy-iterator-after-install:panic:"+what, "streamed range read opened before a snapshot install/reopen and consumed after it panicked: %v\n%s", s.panicVal, s.panicStk)
	} else {
		w.fail("C09", "iter-panic", "iter-panic:"+repoFrame(s.panicStk), "streamed range read panicked: %v\n%s", s.panicVal, s.panicStk)
	}
}

// iterFinish checks a fully consumed streamed read.
func (w *world) iterFinish(slot int, s *iterSlot) {
	if s.panicVal != nil {
		w.iterPanic(s)
		return
	}
	r := w.reps[s.rep]
	overlapped := r.epoch != s.epochOpen
	var got []model.Pair
	var count int64
	for i, ch := range s.chunks {
		if sz := ch.SizeVT(); sz > model.MessageLimit {
			w.fail("C09", "iter-chunk-size", "iter-chunk-size", "streamed message %d encodes to %d bytes, above the message limit", i, sz)
			return
		}
		if i < len(s.chunks)-1 && !ch.More {
			w.fail("C09", "iter-more", "iter-more-missing", "streamed message %d of %d is not flagged more", i, len(s.chunks))
			return
		}
		for _, kv := range ch.Kvs {
			got = append(got, model.Pair{Key: kv.Key, Value: kv.Value})
		}
		count += ch.Count
	}
	if len(s.chunks) > 1 {
		w.out.Probe("iter-multi-chunk")
	}
	if len(s.chunks) == 0 {
		w.fail("C09", "iter-empty", "iter-no-message", "streamed read delivered no message")
		return
	}
	last := s.chunks[len(s.chunks)-1]
	// candidate positions: batch boundaries between open and first pull (single point-in-time view)
	lo, hi := s.posOpen, s.posFirst
	if hi < lo {
		hi = lo
	}
	var firstMsg string
	for p := lo; p <= hi; p++ {
		e := w.states[p].ReadRange(s.req)
		msg := ""
		switch {
		case s.req.CountOnly:
			if count != e.Count {
				msg = fmt.Sprintf("count_only stream: want %d got %d", e.Count, count)
			}
		default:
			want := e.Pairs
			if len(want) != len(got) {
				msg = fmt.Sprintf("want %d pairs got %d", len(want), len(got))
			} else {
				for i := range want {
					if !bytes.Equal(want[i].Key, got[i].Key) || (!s.req.KeysOnly && !bytes.Equal(want[i].Value, got[i].Value)) {
						msg = fmt.Sprintf("pair #%d: want %s got %s", i, model.FmtPair(want[i]), model.FmtPair(got[i]))
						break
					}
				}
			}
			if msg == "" && count != int64(len(got)) {
				msg = fmt.Sprintf("sum of counts %d != pairs %d", count, len(got))
			}
		}
		if msg == "" && last.More != e.More {
			msg = fmt.Sprintf("last message more=%v, model says %v", last.More, e.More)
		}
		if msg == "" {
			if hi > lo {
				w.out.Probe("iter-writes-between-open-and-pull")
			}
			w.dig.Add(uint64(len(got)))
			return
		}
		// Pebble materialises its view at the first pull: report that candidate's difference
		firstMsg = fmt.Sprintf("vs state at first pull: %s", msg)
	}
	if overlapped {
		// reads that overlap an install may see the old or the new state
		e := w.states[r.pos].ReadRange(s.req)
		if len(e.Pairs) == len(got) {
			same := true
			for i := range got {
				if !bytes.Equal(e.Pairs[i].Key, got[i].Key) {
					same = false
				}
			}
			if same {
				return
			}
		}
		w.fail("C08", "read-overlap-mix", "read-overlap-mix", "streamed read overlapping an install matches neither the old nor the new state: %s", firstMsg)
		return
	}
	w.fail("C09", "iter-content", "iter-content", "streamed read key=%s end=%s limit=%d (opened at index %d, first pulled at %d, %d messages): %s", model.FmtBytes(s.req.Key), model.FmtBytes(s.req.RangeEnd), s.req.Limit, w.idxAt(s.posOpen), w.idxAt(s.posFirst), len(s.chunks), firstMsg)
}

// ---- step execution ---------------------------------------------------------

func (w *world) rep(i int) *replica {
	if i < 0 {
		i = 0
	}
	return w.reps[i%len(w.reps)]
}

func (w *world) execStep(st *Step) {
	defer func() {
		// the image pending at the end of a step is the quiescent state after it, not a mid-operation one
		for _, r := range w.reps {
			if r.pending != nil {
				r.pending.mid = false
			}
		}
	}()
	r := w.rep(st.R)
	r.curStep = w.step
	switch st.Op {
	case "append":
		w.appendCmds(st.Cmds)
	case "apply":
		if !r.open {
			return
		}
		r.during = "apply"
		avail := len(w.log) - r.pos
		n := st.N
		if n > avail {
			n = avail
		}
		cuts := st.Cuts
		for n > 0 && !w.failed() {
			c := n
			if len(cuts) > 0 {
				c = cuts[0]
				cuts = cuts[1:]
				if c < 1 {
					c = 1
				}
				if c > n {
					c = n
				}
			}
			if !w.applyBatch(r, c) {
				return
			}
			n -= c
			w.checkState(r, "C01", "after-apply")
		}
		w.crossCheck()
	case "sync":
		if !r.open {
			return
		}
		r.during = "sync"
		covered := w.idxAt(r.pos)
		var err error
		r.inStep.Store(true)
		cp := guard(func() { err = r.sm.Sync() })
		r.inStep.Store(false)
		if cp != nil || err != nil {
			w.fail("C04", "sync-error", "sync-error", "Sync failed: %v %v", err, cp)
			return
		}
		r.syncedIdx.Store(covered)
		w.out.Probe("sync")
		quiesce()
	case "read":
		if r.open && st.Req != nil {
			w.execRead(r, st.Req)
		}
	case "txnread":
		if r.open && st.Txn != nil {
			w.execTxnRead(r, st.Txn)
		}
	case "iteropen":
		if r.open && st.Req != nil {
			w.iterOpen(r, st.Slot, st.Req)
		}
	case "iterpull":
		w.iterPull(st.Slot, st.Pull)
		quiesce()
	case "iterdrop":
		w.iterDrop(st.Slot)
		quiesce()
	case "close":
		w.closeReplica(r)
	case "reopen":
		if !r.open {
			w.openReplica(r, "reopen")
			w.checkState(r, "C03", "after-reopen")
			w.crossCheck()
		}
	case "crash":
		w.crashReplica(r)
	case "prepare":
		w.prepare(r, st.Slot)
	case "save":
		w.save(r, st)
	case "recover":
		w.recoverStep(r, st)
	case "snapread":
		w.snapRead(r, st)
	case "gc":
		runtime.GC()
		runtime.GC()
		quiesce()
	}
}

func (w *world) closeReplica(r *replica) {
	if !r.open {
		return
	}
	r.during = "close"
	covered := w.idxAt(r.pos)
	var err error
	r.inStep.Store(true)
	cp := guard(func() { err = r.sm.Close() })
	r.inStep.Store(false)
	quiesce()
	r.open = false
	for id, c := range r.ctxs {
		_ = c
		delete(r.ctxs, id)
	}
	if cp != nil {
		w.fail("C03", "close-panic", "close-panic:"+repoFrame(cp.stack), "Close panicked: %v\n%s", cp.val, cp.stack)
		return
	}
	if err != nil {
		w.fail("C03", "close-error", "close-error", "Close failed: %v", err)
		return
	}
	// Close flushes: everything applied is covered
	r.syncedIdx.Store(covered)
}

// crashReplica: the node dies now; only the durable view survives.
func (w *world) crashReplica(r *replica) {
	w.out.Fault("crash")
	w.finalise(r)
	img := r.fs.Capture()
	lower, upper := r.syncedIdx.Load(), r.startedIdx.Load()
	// abandon the old instance (its background goroutines are idle: we are quiescent)
	old := r.sm
	wasOpen := r.open
	r.open = false
	r.ctxs = map[int]*snapCtx{}
	r.fs.OnOp = nil
	r.fs.Inject = nil
	fs := crashfs.Mount(img)
	w.instrument(r, fs)
	r.fs = fs
	if wasOpen && old != nil {
		// release the handle so that finalizers/caches of the dead process do not linger;
		// its writes go to the abandoned file system.
		_ = guard(func() { _ = old.Close() })
		quiesce()
	}
	if !w.openReplica(r, "crash-reopen") {
		return
	}
	idx := w.idxAt(r.pos)
	if idx < lower || idx > upper {
		w.fail("C04", "crash-index", crashIdxSig(idx, lower, upper), "replica %d after crash: Open reports index %d, last completed sync covered %d, last applied %d", r.id, idx, lower, upper)
		return
	}
	if idx < upper {
		w.out.Probe("crash-lost-unsynced-suffix")
	}
	r.startedIdx.Store(idx)
	w.checkState(r, "C04", "after-crash")
}

func crashIdxSig(idx, lower, upper uint64) string {
	if idx < lower {
		if idx == 0 {
			return "crash-index-zero-below-sync"
		}
		return "crash-index-below-sync"
	}
	return "crash-index-ahead"
}

var errStopWrite = errors.New("harness: writer stopped")

// hookWriter lets the driver act between Write calls of a save / snapshot read.
type hookWriter struct {
	buf   bytes.Buffer
	n     int
	onN   func(n int)
	msgs  [][]byte
	split bool
}

func (h *hookWriter) Write(p []byte) (int, error) {
	h.n++
	if h.onN != nil {
		h.onN(h.n)
	}
	if h.split {
		h.msgs = append(h.msgs, append([]byte(nil), p...))
	}
	return h.buf.Write(p)
}

type hookReader struct {
	r     io.Reader
	n     int
	onN   func(n int)
	short int
}

func (h *hookReader) Read(p []byte) (int, error) {
	h.n++
	if h.onN != nil {
		h.onN(h.n)
	}
	if h.short > 0 && len(p) > h.short {
		p = p[:h.short]
	}
	return h.r.Read(p)
}

func (w *world) prepare(r *replica, slot int) {
	if !r.open {
		return
	}
	r.during = "prepare"
	var ctx any
	var err error
	r.inStep.Store(true)
	cp := guard(func() { ctx, err = r.sm.PrepareSnapshot() })
	r.inStep.Store(false)
	quiesce()
	if cp != nil || err != nil {
		w.fail("C08", "prepare-error", "prepare-error", "PrepareSnapshot failed: %v %v", err, cp)
		return
	}
	r.ctxs[slot] = &snapCtx{rep: r.id, ctx: ctx, pos: r.pos}
}

func (w *world) runInner(steps []Step) {
	for i := range steps {
		if w.failed() {
			return
		}
		w.execInnerStep(&steps[i])
	}
}

// execInnerStep runs a restricted step kind from inside a writer/reader callback
// (same goroutine; legal overlaps under the state-machine contract only).
func (w *world) execInnerStep(st *Step) {
	r := w.rep(st.R)
	switch st.Op {
	case "append":
		w.appendCmds(st.Cmds)
	case "apply":
		if !r.open {
			return
		}
		avail := len(w.log) - r.pos
		n := st.N
		if n > avail {
			n = avail
		}
		if n > 0 {
			w.applyBatchNoWait(r, n)
		}
	case "read":
		if r.open && st.Req != nil {
			w.execRead(r, st.Req)
		}
	}
}

// applyBatchNoWait is applyBatch without the quiescence wait (we are inside a call).
func (w *world) applyBatchNoWait(r *replica, n int) {
	ents := make([]sm.Entry, n)
	for i := 0; i < n; i++ {
		e := w.log[r.pos+i]
		ents[i] = sm.Entry{Index: e.index, Cmd: append([]byte(nil), e.raw...)}
	}
	r.startedIdx.Store(ents[n-1].Index)
	var err error
	cp := guard(func() { _, err = r.sm.Update(ents) })
	if cp != nil || err != nil {
		w.fail("C01", "update-error", "update-error-inner", "Update (inside save) failed: %v %v", err, cp)
		return
	}
	r.pos += n
	r.boundaries = append(r.boundaries, r.pos)
}

func (w *world) save(r *replica, st *Step) {
	c := r.ctxs[st.Slot]
	if c == nil || !r.open {
		return
	}
	delete(r.ctxs, st.Slot)
	r.during = "save"
	stop := make(chan struct{})
	stopped := false
	hw := &hookWriter{}
	hw.onN = func(n int) {
		if st.InnerAt > 0 && n == st.InnerAt {
			w.out.Probe("writes-during-save")
			w.runInner(st.Inner)
		}
		if st.StopAt > 0 && n == st.StopAt && !stopped {
			stopped = true
			close(stop)
			w.out.Fault("stop-during-save")
		}
	}
	var err error
	cp := guard(func() { err = r.sm.SaveSnapshot(c.ctx, hw, stop) })
	quiesce()
	if cp != nil {
		w.fail("C08", "save-panic", "save-panic:"+repoFrame(cp.stack), "SaveSnapshot panicked: %v\n%s", cp.val, cp.stack)
		return
	}
	if err != nil {
		if stopped && errors.Is(err, sm.ErrSnapshotStopped) {
			r.lastBuf = nil
			return
		}
		w.fail("C08", "save-error", "save-error", "SaveSnapshot failed: %v", err)
		return
	}
	if c.pos != r.pos {
		w.out.Probe("writes-between-prepare-and-save-end")
	}
	r.lastBuf = &snapBuf{data: append([]byte(nil), hw.buf.Bytes()...), pos: c.pos, format: r.format, ok: true}
}

func (w *world) recoverStep(r *replica, st *Step) {
	src := w.rep(st.From)
	b := src.lastBuf
	if b == nil || !b.ok || !r.open || src == r {
		return
	}
	if b.pos < r.pos {
		return // Raft never installs a snapshot behind the receiver
	}
	r.during = "recover"
	stop := make(chan struct{})
	stopped := false
	hr := &hookReader{r: bytes.NewReader(b.data), short: st.Short}
	hr.onN = func(n int) {
		if st.InnerAt > 0 && n == st.InnerAt {
			w.runInner(st.Inner)
		}
		if st.StopAt > 0 && n == st.StopAt && !stopped {
			stopped = true
			close(stop)
			w.out.Fault("stop-during-recover")
		}
	}
	if st.ErrAt > 0 {
		w.ioErr = &ioErrPlan{at: st.ErrAt, kind: st.ErrKind}
	}
	oldPos := r.pos
	r.startedIdx.Store(maxU(r.startedIdx.Load(), w.idxAt(b.pos)))
	var err error
	r.inStep.Store(true)
	r.inRecover, r.recNotifs = true, nil
	cp := guard(func() { err = r.sm.RecoverFromSnapshot(hr, stop) })
	r.inRecover = false
	r.inStep.Store(false)
	quiesce()
	plan := w.ioErr
	w.ioErr = nil
	if cp != nil {
		w.fail("C08", "recover-panic", "recover-panic:"+repoFrame(cp.stack), "RecoverFromSnapshot panicked: %v\n%s", cp.val, cp.stack)
		return
	}
	if b.format != r.format {
		w.out.Probe("cross-format-install")
	}
	if err != nil {
		switch {
		case plan != nil && plan.fired:
			// an injected I/O error: the node halts (dragonboat treats SM errors as fatal); what
			// must hold is that the durable state is old-or-new, which the crash oracle decides.
			w.out.Probe("recover-failed-by-io-error")
			w.crashReplica(r)
			return
		case stopped && errors.Is(err, sm.ErrSnapshotStopped):
			w.out.Probe("recover-stopped")
			// interrupted: not at all
			r.pos = oldPos
			w.checkState(r, "C08", "after-stopped-recover")
			return
		case stopped:
			w.fail("C08", "recover-stop-error", "recover-stop-error", "RecoverFromSnapshot interrupted by stop returned %v, want ErrSnapshotStopped", err)
			return
		}
		w.fail("C08", "recover-error", "recover-error:"+errClass(err), "RecoverFromSnapshot failed: %v", err)
		return
	}
	r.pos = b.pos
	r.epoch++
	r.boundaries = append(r.boundaries, r.pos)
	w.out.Probe("install-complete")
	if oldPos != b.pos {
		w.out.Probe("install-advanced")
	}
	// C11: a table that reaches a leader index through a snapshot install has applied it just as well as through
	// updates, and there may be no update for a long time: the applied-index listener has to hear it now
	if li := w.leader[b.pos]; li != 0 {
		told := false
		for _, n := range r.recNotifs {
			if n == li {
				told = true
			}
		}
		switch {
		case told:
			w.out.Probe("install-announced-leader-index")
		case w.cfg.Prop == "C11":
			w.fail("C11", "install-not-announced", "install-not-announced", "replica %d installed a snapshot that takes the table to leader index %d, but the applied-index listener was told %v: a caller waiting for a revision up to %d on this node stays unanswered until the next update or its deadline", r.id, li, r.recNotifs, li)
			return
		default:
			w.out.Probe("other-property:C11/install-not-announced")
		}
	}
	w.checkState(r, "C08", "after-install")
	w.crossCheck()
}

func maxU(a, b uint64) uint64 {
	if a > b {
		return a
	}
	return b
}

// snapRead: Lookup(SnapshotRequest) into a writer that may apply further batches between writes (C07, point-in-time half).
func (w *world) snapRead(r *replica, st *Step) {
	if !r.open {
		return
	}
	startPos := r.pos
	hw := &hookWriter{split: true}
	hw.onN = func(n int) {
		if st.InnerAt > 0 && n == st.InnerAt {
			w.out.Probe("writes-during-snapshot-stream")
			w.runInner(st.Inner)
		}
	}
	res, err, cp := w.lookup(r, fsm.SnapshotRequest{Writer: hw, Stopper: make(chan struct{})})
	quiesce()
	if cp != nil {
		w.fail("C07", "snapread-panic", "snapread-panic:"+repoFrame(cp.stack), "Lookup(snapshot) panicked: %v\n%s", cp.val, cp.stack)
		return
	}
	if err != nil {
		w.fail("C07", "snapread-error", "snapread-error", "Lookup(snapshot) failed: %v", err)
		return
	}
	idx := res.(*fsm.SnapshotResponse).Index
	if idx != w.idxAt(startPos) {
		w.fail("C07", "snapread-index", "snapread-index", "snapshot stream declares index %d, the table stood at %d when the call started", idx, w.idxAt(startPos))
		return
	}
	var got []model.Pair
	for i, m := range hw.msgs {
		c := &regattapb.Command{}
		if err := c.UnmarshalVT(m); err != nil {
			w.fail("C07", "snapread-decode", "snapread-decode", "snapshot stream message %d does not decode: %v", i, err)
			return
		}
		if c.Type != regattapb.Command_PUT || c.Kv == nil {
			w.fail("C07", "snapread-kind", "snapread-kind", "snapshot stream message %d is %v", i, c.Type)
			return
		}
		got = append(got, model.Pair{Key: c.Kv.Key, Value: c.Kv.Value})
	}
	if d := w.states[startPos].Diff(got); d != "" {
		w.fail("C07", "snapread-content", "snapread-content", "snapshot stream declaring index %d differs from the table at that index: %s", idx, d)
		return
	}
	w.out.Probe("snapshot-stream")
}

func readDependent(c *Cmd) bool {
	if c.Prev || c.Count || c.T == "txn" {
		return true
	}
	for i := range c.Seq {
		if readDependent(&c.Seq[i]) {
			return true
		}
	}
	return false
}
