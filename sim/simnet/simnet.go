// Package simnet is the simulated network for world W3: net.Listener / net.Conn
// pairs living inside a synctest bubble. Delivery delay, blackholes (partitions),
// refused dials and connection resets are decided by the harness; all timers are
// fake-clock timers.
package simnet

import (
	"context"
	"errors"
	"io"
	"net"
	"os"
	"sync"
	"time"
)

type addr string

func (a addr) Network() string { return "sim" }
func (a addr) String() string  { return string(a) }

// Network connects listeners and dialers by address.
type Network struct {
	mu        sync.Mutex
	listeners map[string]*Listener
	conns     []*pipeEnd
	// Delay, if set, returns the delivery delay for bytes written from->to.
	Delay func(from, to string) time.Duration
	// Blocked, if set, reports whether traffic between two addresses is blackholed.
	Blocked func(from, to string) bool
	// Refuse, if set, makes dials to an address fail.
	Refuse func(from, to string) bool
	Dials  int
	Resets int
	tick   uint64
}

func New() *Network { return &Network{listeners: map[string]*Listener{}} }

type Listener struct {
	n      *Network
	a      string
	ch     chan net.Conn
	closed chan struct{}
	once   sync.Once
}

func (n *Network) Listen(address string) (*Listener, error) {
	n.mu.Lock()
	defer n.mu.Unlock()
	if l := n.listeners[address]; l != nil {
		select {
		case <-l.closed:
		default:
			return nil, errors.New("simnet: address in use: " + address)
		}
	}
	l := &Listener{n: n, a: address, ch: make(chan net.Conn, 64), closed: make(chan struct{})}
	n.listeners[address] = l
	return l, nil
}

func (l *Listener) Accept() (net.Conn, error) {
	select {
	case c := <-l.ch:
		return c, nil
	case <-l.closed:
		return nil, net.ErrClosed
	}
}

func (l *Listener) Close() error {
	l.once.Do(func() { close(l.closed) })
	return nil
}

func (l *Listener) Addr() net.Addr { return addr(l.a) }

// Dial connects from -> to.
func (n *Network) Dial(ctx context.Context, from, to string) (net.Conn, error) {
	n.mu.Lock()
	l := n.listeners[to]
	n.Dials++
	refuse := n.Refuse != nil && n.Refuse(from, to)
	n.mu.Unlock()
	if l == nil || refuse {
		return nil, &net.OpError{Op: "dial", Net: "sim", Addr: addr(to), Err: errors.New("connection refused")}
	}
	select {
	case <-l.closed:
		return nil, &net.OpError{Op: "dial", Net: "sim", Addr: addr(to), Err: errors.New("connection refused")}
	default:
	}
	c, s := n.pair(from, to)
	select {
	case l.ch <- s:
		return c, nil
	case <-l.closed:
		return nil, &net.OpError{Op: "dial", Net: "sim", Addr: addr(to), Err: errors.New("connection refused")}
	case <-ctx.Done():
		return nil, ctx.Err()
	}
}

// ResetAll resets every open connection that has addr at either end ("" = all).
func (n *Network) ResetAll(a string) {
	n.mu.Lock()
	cs := append([]*pipeEnd(nil), n.conns...)
	n.mu.Unlock()
	for _, c := range cs {
		if a == "" || c.local == a || c.remote == a {
			if c.reset() {
				n.mu.Lock()
				n.Resets++
				n.mu.Unlock()
			}
		}
	}
}

type pipeEnd struct {
	n             *Network
	local, remote string
	peer          *pipeEnd

	mu       sync.Mutex
	cond     chan struct{} // closed and replaced whenever state changes
	buf      []byte
	eof      bool // peer closed its write side
	closed   bool
	resetErr bool
	rdl, wdl time.Time
	lastDue  time.Time
	outq     []pendingChunk
	armed    bool
}

func (n *Network) pair(from, to string) (*pipeEnd, *pipeEnd) {
	a := &pipeEnd{n: n, local: from, remote: to, cond: make(chan struct{})}
	b := &pipeEnd{n: n, local: to, remote: from, cond: make(chan struct{})}
	a.peer, b.peer = b, a
	n.mu.Lock()
	n.conns = append(n.conns, a, b)
	// drop closed ones now and then
	if len(n.conns) > 256 {
		var keep []*pipeEnd
		for _, c := range n.conns {
			c.mu.Lock()
			if !c.closed {
				keep = append(keep, c)
			}
			c.mu.Unlock()
		}
		n.conns = keep
	}
	n.mu.Unlock()
	return a, b
}

func (p *pipeEnd) wake() {
	close(p.cond)
	p.cond = make(chan struct{})
}

func (p *pipeEnd) reset() bool {
	did := false
	for _, e := range []*pipeEnd{p, p.peer} {
		e.mu.Lock()
		if !e.closed && !e.resetErr {
			e.resetErr = true
			did = true
			e.wake()
		}
		e.mu.Unlock()
	}
	return did
}

var errReset = &net.OpError{Op: "read", Net: "sim", Err: errors.New("connection reset by peer")}

// Yield, if set, is called at the start of every Read and Write of a connection (core.Yield).
var Yield func()

func (p *pipeEnd) Read(b []byte) (int, error) {
	if Yield != nil {
		Yield()
	}
	for {
		p.mu.Lock()
		switch {
		case p.closed:
			p.mu.Unlock()
			return 0, net.ErrClosed
		case p.resetErr:
			p.mu.Unlock()
			return 0, errReset
		case len(p.buf) > 0:
			n := copy(b, p.buf)
			p.buf = p.buf[n:]
			p.mu.Unlock()
			return n, nil
		case p.eof:
			p.mu.Unlock()
			return 0, io.EOF
		}
		ch := p.cond
		dl := p.rdl
		p.mu.Unlock()
		if dl.IsZero() {
			<-ch
			continue
		}
		d := time.Until(dl)
		if d <= 0 {
			return 0, os.ErrDeadlineExceeded
		}
		t := time.NewTimer(d)
		select {
		case <-ch:
			t.Stop()
		case <-t.C:
			return 0, os.ErrDeadlineExceeded
		}
	}
}

func (p *pipeEnd) deliver(data []byte) {
	q := p.peer
	q.mu.Lock()
	if !q.closed {
		q.buf = append(q.buf, data...)
		q.wake()
	}
	q.mu.Unlock()
}

func (p *pipeEnd) Write(b []byte) (int, error) {
	if Yield != nil {
		Yield()
	}
	p.mu.Lock()
	if p.closed {
		p.mu.Unlock()
		return 0, net.ErrClosed
	}
	if p.resetErr {
		p.mu.Unlock()
		return 0, &net.OpError{Op: "write", Net: "sim", Err: errors.New("broken pipe")}
	}
	if !p.wdl.IsZero() && !time.Now().Before(p.wdl) {
		p.mu.Unlock()
		return 0, os.ErrDeadlineExceeded
	}
	n := p.n
	var delay time.Duration
	if n.Blocked != nil && n.Blocked(p.local, p.remote) {
		p.mu.Unlock()
		return len(b), nil // blackhole: the bytes vanish
	}
	if n.Delay != nil {
		delay = n.Delay(p.local, p.remote)
	}
	data := append([]byte(nil), b...)
	if delay <= 0 && !p.armed && len(p.outq) == 0 {
		p.mu.Unlock()
		p.deliver(data)
		return len(b), nil
	}
	// a unique sub-microsecond offset per chunk: deliveries never tie with each other on the fake clock
	// (the order in which timers with equal deadlines fire is the runtime's, not the schedule's)
	n.mu.Lock()
	n.tick++
	off := time.Duration(n.tick%997) * time.Nanosecond
	n.mu.Unlock()
	due := time.Now().Add(delay + off)
	if due.Before(p.lastDue) {
		due = p.lastDue // FIFO per direction
	}
	p.lastDue = due
	// one delivery chain per direction: timers with equal deadlines fire in no particular order, so
	// every chunk goes through a queue that is drained in order
	p.outq = append(p.outq, pendingChunk{due: due, data: data})
	arm := !p.armed
	p.armed = true
	p.mu.Unlock()
	if arm {
		time.AfterFunc(time.Until(due), p.drain)
	}
	return len(b), nil
}

type pendingChunk struct {
	due  time.Time
	data []byte
}

func (p *pipeEnd) drain() {
	for {
		p.mu.Lock()
		if len(p.outq) == 0 {
			p.armed = false
			p.lastDue = time.Time{}
			p.mu.Unlock()
			return
		}
		head := p.outq[0]
		if d := time.Until(head.due); d > 0 {
			p.mu.Unlock()
			time.AfterFunc(d, p.drain)
			return
		}
		p.outq = p.outq[1:]
		p.mu.Unlock()
		p.deliver(head.data)
	}
}

func (p *pipeEnd) Close() error {
	p.mu.Lock()
	if p.closed {
		p.mu.Unlock()
		return nil
	}
	p.closed = true
	p.wake()
	p.mu.Unlock()
	q := p.peer
	q.mu.Lock()
	q.eof = true
	q.wake()
	q.mu.Unlock()
	return nil
}

func (p *pipeEnd) LocalAddr() net.Addr  { return addr(p.local) }
func (p *pipeEnd) RemoteAddr() net.Addr { return addr(p.remote) }
func (p *pipeEnd) SetDeadline(t time.Time) error {
	p.mu.Lock()
	p.rdl, p.wdl = t, t
	p.wake()
	p.mu.Unlock()
	return nil
}
func (p *pipeEnd) SetReadDeadline(t time.Time) error {
	p.mu.Lock()
	p.rdl = t
	p.wake()
	p.mu.Unlock()
	return nil
}
func (p *pipeEnd) SetWriteDeadline(t time.Time) error {
	p.mu.Lock()
	p.wdl = t
	p.mu.Unlock()
	return nil
}
