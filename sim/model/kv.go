// Package model holds the small executable reference models used as oracles.
// They are written from proto/*.proto and docs/user_guide, not from the
// implementation; the only regatta package imported is regattapb (message types).
package model

import (
	"bytes"
	"fmt"
	"sort"

	"github.com/jamf/regatta/regattapb"
)

type Pair struct {
	Key   []byte
	Value []byte
}

// KV is a plain sorted map from non-empty byte-string keys to byte-string values.
type KV struct {
	m map[string][]byte
}

func NewKV() *KV { return &KV{m: map[string][]byte{}} }

func (k *KV) Clone() *KV {
	c := NewKV()
	for a, b := range k.m {
		c.m[a] = b
	}
	return c
}

func (k *KV) Len() int { return len(k.m) }

func (k *KV) Get(key []byte) ([]byte, bool) {
	v, ok := k.m[string(key)]
	return v, ok
}

func (k *KV) Put(key, val []byte) { k.m[string(key)] = append([]byte(nil), val...) }

func (k *KV) Delete(key []byte) { delete(k.m, string(key)) }

// Sorted returns all pairs in ascending key order.
func (k *KV) Sorted() []Pair {
	keys := make([]string, 0, len(k.m))
	for a := range k.m {
		keys = append(keys, a)
	}
	sort.Strings(keys)
	out := make([]Pair, len(keys))
	for i, a := range keys {
		out[i] = Pair{Key: []byte(a), Value: k.m[a]}
	}
	return out
}

var wildcard = []byte{0}

// Range returns the pairs of the request's key set: the single key when end is
// nil, else [key,end), where end == "\0" means unbounded above.
func (k *KV) Range(key, end []byte) []Pair {
	if end == nil {
		if v, ok := k.m[string(key)]; ok {
			return []Pair{{Key: append([]byte(nil), key...), Value: v}}
		}
		return nil
	}
	var out []Pair
	for _, p := range k.Sorted() {
		if bytes.Compare(p.Key, key) < 0 {
			continue
		}
		if !bytes.Equal(end, wildcard) && bytes.Compare(p.Key, end) >= 0 {
			continue
		}
		out = append(out, p)
	}
	return out
}

func (k *KV) Equal(o *KV) bool {
	if len(k.m) != len(o.m) {
		return false
	}
	for a, b := range k.m {
		c, ok := o.m[a]
		if !ok || !bytes.Equal(b, c) {
			return false
		}
	}
	return true
}

// Diff describes the first difference between the model and a sorted pair list.
func (k *KV) Diff(got []Pair) string {
	want := k.Sorted()
	for i := 0; i < len(want) || i < len(got); i++ {
		switch {
		case i >= len(want):
			return fmt.Sprintf("extra pair #%d %s", i, FmtPair(got[i]))
		case i >= len(got):
			return fmt.Sprintf("missing pair #%d %s", i, FmtPair(want[i]))
		case !bytes.Equal(want[i].Key, got[i].Key) || !bytes.Equal(want[i].Value, got[i].Value):
			return fmt.Sprintf("pair #%d: want %s got %s", i, FmtPair(want[i]), FmtPair(got[i]))
		}
	}
	return ""
}

func FmtBytes(b []byte) string {
	if len(b) > 24 {
		return fmt.Sprintf("%q…(%d)", b[:24], len(b))
	}
	return fmt.Sprintf("%q", b)
}

func FmtPair(p Pair) string { return FmtBytes(p.Key) + "=" + FmtBytes(p.Value) }

// ---- expected responses -------------------------------------------------

// ExpRange is the model's answer to a range read before any size-based cut.
type ExpRange struct {
	Pairs               []Pair // pairs to be returned (after limit), with values even for keys_only
	Count               int64
	More                bool // pairs of the range remain beyond the limit
	KeysOnly, CountOnly bool
}

func (k *KV) ReadRange(req *regattapb.RequestOp_Range) ExpRange {
	all := k.Range(req.Key, req.RangeEnd)
	e := ExpRange{KeysOnly: req.KeysOnly, CountOnly: req.CountOnly}
	lim := int(req.Limit)
	if req.RangeEnd == nil {
		lim = 0 // single-key lookups have nothing to limit
	}
	if lim > 0 && len(all) > lim {
		e.Pairs = all[:lim]
		e.More = true
	} else {
		e.Pairs = all
	}
	e.Count = int64(len(e.Pairs))
	return e
}

// ExpOp is the expected response of one operation.
type ExpOp struct {
	Kind string // "put" | "delete" | "range"
	// put
	WantPrev bool
	Prev     *Pair
	// delete
	WantCount   bool
	WantPrevKvs bool
	Deleted     int64
	PrevKvs     []Pair
	// range
	Range ExpRange
}

func (k *KV) applyPut(key, val []byte, prev bool) ExpOp {
	e := ExpOp{Kind: "put", WantPrev: prev}
	if prev {
		if v, ok := k.Get(key); ok {
			e.Prev = &Pair{Key: append([]byte(nil), key...), Value: v}
		}
	}
	k.Put(key, val)
	return e
}

func (k *KV) applyDelete(key, end []byte, prev, count bool) ExpOp {
	e := ExpOp{Kind: "delete", WantCount: count, WantPrevKvs: prev}
	hit := k.Range(key, end)
	e.Deleted = int64(len(hit))
	e.PrevKvs = hit
	for _, p := range hit {
		k.Delete(p.Key)
	}
	return e
}

// Compare evaluates one predicate on the current state.
func (k *KV) Compare(c *regattapb.Compare) bool {
	var hit []Pair
	if c.RangeEnd != nil {
		hit = k.Range(c.Key, c.RangeEnd)
	} else {
		hit = k.Range(c.Key, nil)
	}
	if len(hit) == 0 {
		return false // missing key or empty range
	}
	if c.TargetUnion == nil {
		return true // existence only
	}
	want := c.GetValue()
	for _, p := range hit {
		r := bytes.Compare(p.Value, want) // stored value on the left-hand side
		ok := false
		switch c.Result {
		case regattapb.Compare_EQUAL:
			ok = r == 0
		case regattapb.Compare_NOT_EQUAL:
			ok = r != 0
		case regattapb.Compare_GREATER:
			ok = r > 0
		case regattapb.Compare_LESS:
			ok = r < 0
		}
		if !ok {
			return false
		}
	}
	return true
}

func (k *KV) applyOps(ops []*regattapb.RequestOp) []ExpOp {
	var out []ExpOp
	for _, op := range ops {
		switch o := op.Request.(type) {
		case *regattapb.RequestOp_RequestRange:
			out = append(out, ExpOp{Kind: "range", Range: k.ReadRange(o.RequestRange)})
		case *regattapb.RequestOp_RequestPut:
			out = append(out, k.applyPut(o.RequestPut.Key, o.RequestPut.Value, o.RequestPut.PrevKv))
		case *regattapb.RequestOp_RequestDeleteRange:
			d := o.RequestDeleteRange
			out = append(out, k.applyDelete(d.Key, d.RangeEnd, d.PrevKv, d.Count))
		}
	}
	return out
}

// Txn evaluates a transaction: conjunction of predicates on the state before
// it, then exactly one branch in order.
func (k *KV) Txn(compare []*regattapb.Compare, success, failure []*regattapb.RequestOp) (bool, []ExpOp) {
	ok := true
	for _, c := range compare {
		if !k.Compare(c) {
			ok = false
			break
		}
	}
	if ok {
		return true, k.applyOps(success)
	}
	return false, k.applyOps(failure)
}

// ExpResult is the expected result of one log command.
type ExpResult struct {
	Value uint64 // 1 success, 0 failure (only a failed transaction is 0)
	Ops   []ExpOp
	IsTxn bool
}

// Apply applies one committed command to the map and returns the expected result.
func (k *KV) Apply(cmd *regattapb.Command) ExpResult {
	switch cmd.Type {
	case regattapb.Command_PUT:
		return ExpResult{Value: 1, Ops: []ExpOp{k.applyPut(cmd.Kv.Key, cmd.Kv.Value, cmd.PrevKvs)}}
	case regattapb.Command_DELETE:
		return ExpResult{Value: 1, Ops: []ExpOp{k.applyDelete(cmd.Kv.Key, cmd.RangeEnd, cmd.PrevKvs, cmd.Count)}}
	case regattapb.Command_PUT_BATCH:
		r := ExpResult{Value: 1}
		for _, kv := range cmd.Batch {
			r.Ops = append(r.Ops, k.applyPut(kv.Key, kv.Value, false))
		}
		return r
	case regattapb.Command_DELETE_BATCH:
		r := ExpResult{Value: 1}
		for _, kv := range cmd.Batch {
			r.Ops = append(r.Ops, k.applyDelete(kv.Key, nil, false, false))
		}
		return r
	case regattapb.Command_TXN:
		ok, ops := k.Txn(cmd.Txn.Compare, cmd.Txn.Success, cmd.Txn.Failure)
		r := ExpResult{Ops: ops, IsTxn: true}
		if ok {
			r.Value = 1
		}
		return r
	case regattapb.Command_SEQUENCE:
		r := ExpResult{Value: 1}
		for _, c := range cmd.Sequence {
			sub := k.Apply(c)
			r.Ops = append(r.Ops, sub.Ops...)
		}
		return r
	case regattapb.Command_DUMMY:
		return ExpResult{Value: 1}
	}
	panic("model: unknown command type")
}
