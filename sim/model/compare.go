package model

import (
	"bytes"
	"fmt"

	"github.com/jamf/regatta/regattapb"
)

// MessageLimit is the documented transport message limit (4 MiB).
const MessageLimit = 4 * 1024 * 1024

// cutSlack: a size-based cut of a range answer is accepted as justified when
// the answer plus the next pair comes within this distance of MessageLimit.
const cutSlack = 64 * 1024

func pairsOf(kvs []*regattapb.KeyValue) []Pair {
	out := make([]Pair, len(kvs))
	for i, kv := range kvs {
		out[i] = Pair{Key: kv.Key, Value: kv.Value}
	}
	return out
}

func eqPairs(want []Pair, got []Pair, keysOnly bool) string {
	if len(want) != len(got) {
		return fmt.Sprintf("want %d pairs, got %d", len(want), len(got))
	}
	for i := range want {
		if !bytes.Equal(want[i].Key, got[i].Key) {
			return fmt.Sprintf("pair #%d key: want %s got %s", i, FmtBytes(want[i].Key), FmtBytes(got[i].Key))
		}
		if keysOnly {
			if len(got[i].Value) != 0 {
				return fmt.Sprintf("pair #%d: keys_only answer carries a value", i)
			}
			continue
		}
		if !bytes.Equal(want[i].Value, got[i].Value) {
			return fmt.Sprintf("pair #%d %s value: want %s got %s", i, FmtBytes(want[i].Key), FmtBytes(want[i].Value), FmtBytes(got[i].Value))
		}
	}
	return ""
}

// CheckRange compares a unary range answer with the model's. It returns a
// category (stable, for signatures) and a message; empty category = equal.
// cut reports that the answer was legitimately cut by the message size limit.
func CheckRange(e ExpRange, got *regattapb.ResponseOp_Range) (cat, msg string, cut bool) {
	if got == nil {
		return "nil-response", "nil range response", false
	}
	gp := pairsOf(got.Kvs)
	if e.CountOnly {
		if len(gp) != 0 {
			return "count-only-kvs", "count_only answer carries pairs", false
		}
		if got.Count != e.Count {
			return "count", fmt.Sprintf("count_only: want count %d got %d (more=%v)", e.Count, got.Count, got.More), false
		}
		if got.More != e.More {
			return "more", fmt.Sprintf("count_only: want more=%v got %v (count %d)", e.More, got.More, got.Count), false
		}
		return "", "", false
	}
	if got.Count != int64(len(gp)) {
		return "count", fmt.Sprintf("count %d != number of pairs returned %d", got.Count, len(gp)), false
	}
	if len(gp) < len(e.Pairs) {
		// possibly a size-based cut: must be a prefix, flagged more, and justified
		if m := eqPairs(e.Pairs[:len(gp)], gp, e.KeysOnly); m != "" {
			return "pairs", "cut answer is not a prefix: " + m, false
		}
		if !got.More {
			return "more", fmt.Sprintf("answer has %d of %d pairs but more=false", len(gp), len(e.Pairs)), false
		}
		sz := 0
		for _, p := range gp {
			sz += len(p.Key)
			if !e.KeysOnly {
				sz += len(p.Value)
			}
		}
		nx := e.Pairs[len(gp)]
		nsz := len(nx.Key)
		if !e.KeysOnly {
			nsz += len(nx.Value)
		}
		if sz+nsz < MessageLimit-cutSlack {
			return "short", fmt.Sprintf("answer has %d of %d pairs (%d bytes, next pair %d bytes): cut not justified by the message limit", len(gp), len(e.Pairs), sz, nsz), false
		}
		if len(gp) == 0 {
			return "empty-cut", "size-cut answer is empty", false
		}
		return "", "", true
	}
	if m := eqPairs(e.Pairs, gp, e.KeysOnly); m != "" {
		return "pairs", m, false
	}
	if got.More != e.More {
		return "more", fmt.Sprintf("want more=%v got %v (%d pairs returned)", e.More, got.More, len(gp)), false
	}
	return "", "", false
}

// CheckOp compares one response op with the expectation.
func CheckOp(e ExpOp, got *regattapb.ResponseOp) (cat, msg string) {
	if got == nil {
		return "nil-op", "nil response op"
	}
	switch e.Kind {
	case "put":
		r := got.GetResponsePut()
		if r == nil {
			return "op-kind", fmt.Sprintf("want put response, got %T", got.Response)
		}
		if !e.WantPrev {
			if r.PrevKv != nil {
				return "put-prev-unrequested", "previous pair returned though not requested"
			}
			return "", ""
		}
		if e.Prev == nil {
			if r.PrevKv != nil {
				return "put-prev", fmt.Sprintf("previous pair %s returned for a key that did not exist", FmtPair(Pair{r.PrevKv.Key, r.PrevKv.Value}))
			}
			return "", ""
		}
		if r.PrevKv == nil {
			return "put-prev", fmt.Sprintf("previous pair missing, want %s", FmtPair(*e.Prev))
		}
		if !bytes.Equal(r.PrevKv.Key, e.Prev.Key) || !bytes.Equal(r.PrevKv.Value, e.Prev.Value) {
			return "put-prev", fmt.Sprintf("previous pair: want %s got %s", FmtPair(*e.Prev), FmtPair(Pair{r.PrevKv.Key, r.PrevKv.Value}))
		}
		return "", ""
	case "delete":
		r := got.GetResponseDeleteRange()
		if r == nil {
			return "op-kind", fmt.Sprintf("want delete response, got %T", got.Response)
		}
		if e.WantCount && r.Deleted != e.Deleted {
			return "delete-count", fmt.Sprintf("deleted: want %d got %d", e.Deleted, r.Deleted)
		}
		if e.WantPrevKvs {
			if m := eqPairs(e.PrevKvs, pairsOf(r.PrevKvs), false); m != "" {
				return "delete-prev", "previous pairs: " + m
			}
		} else if len(r.PrevKvs) != 0 {
			return "delete-prev-unrequested", "previous pairs returned though not requested"
		}
		return "", ""
	case "range":
		r := got.GetResponseRange()
		if r == nil {
			return "op-kind", fmt.Sprintf("want range response, got %T", got.Response)
		}
		c, m, _ := CheckRange(e.Range, r)
		if c != "" {
			return "range-" + c, m
		}
		return "", ""
	}
	return "model", "unknown expectation kind " + e.Kind
}

// CheckResult compares the result of one applied log entry.
func CheckResult(e ExpResult, value uint64, res *regattapb.CommandResult) (cat, msg string) {
	if value != e.Value {
		return "value", fmt.Sprintf("result value: want %d got %d", e.Value, value)
	}
	var got []*regattapb.ResponseOp
	if res != nil {
		got = res.Responses
	}
	if len(got) != len(e.Ops) {
		return "responses", fmt.Sprintf("want %d responses got %d", len(e.Ops), len(got))
	}
	for i := range e.Ops {
		if c, m := CheckOp(e.Ops[i], got[i]); c != "" {
			return c, fmt.Sprintf("response #%d: %s", i, m)
		}
	}
	return "", ""
}
