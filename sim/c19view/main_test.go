//go:debug randautoseed=0
//go:debug randseednop=0
package c19view

import (
	"testing"

	"verif/sim/core"
)

var Specs = map[string]*core.Spec{
	"C19": {Prop: "C19", World: "W2 c19view", Gen: Gen, Decode: Decode, Exec: Exec, LightRuns: true,
		Rule: "3-5 real shard views behind the real memberlist delegate, 1-3 shards; seeded schedules (10-60 steps) of local Raft information changes (Notify, or picked up by the next LocalState), gossip exchanges LocalState->MergeRemoteState with loss, duplication, reordering (capture now / deliver later) and splitting (subset of a payload's shard entries), plus one multiset of raw updates handed to two fresh views in two different permutations with duplicates and different batching. Updates respect Raft: one leader per (shard, term), one membership per (shard, config-change index), a node's own term and config-change index never decrease, a term may be announced without a leader. Oracles after every step on every node and shard: no regression of (leader, term) and of the config-change index; view == canonical fold of every update that reached the node directly or inside payloads; at the end nodes reached by the same updates report equal views. non-trivial = two views reached by the same >=2 updates in different arrival orders were compared, or a payload was delivered out of order or more than once; distinct = digests of every view after every step",
		Real: []string{"storage/cluster shardView (update, mergeShardInfo, copy, shardInfo)", "storage/cluster delegate.LocalState / MergeRemoteState (JSON clusterState)", "Cluster.Notify refresh path (via VerifView.Notify)", "toShardViewList"},
		Stub: []string{"memberlist transport: the kernel moves LocalState payloads between delegates (push/pull body only)", "dragonboat NodeHost: ShardInfoList is a harness variable per node", "probe-pair updates are handed in as hand-encoded {\"shard_view\":[...]} payloads or through the local source"},
		RequiredProbes: []string{"reordered-delivery", "duplicate-delivery", "split-delivery", "transitive-delivery",
			"no-leader-update-after-leader", "no-leader-higher-term-after-leader", "older-term-update-after-newer", "older-term-payload-after-newer",
			"older-cci-update-after-newer", "permutation-pair-compared", "probe-pair-compared", "converged-main-nodes", "local-info-first-read-by-localstate"},
		Assumptions: []string{
			"config-change index 0 means no membership change has been applied yet, so it is always announced with an empty membership (dragonboat reports Pending shards that way); a view never replaces an empty membership at index 0",
			"updates that carry a leader have term >= 1 (Raft terms of elected leaders start at 1); term 0 appears only without a leader",
			"the term reported while no leader is known is not asserted beyond 'never decreases'",
			"raw update permutations on the two probe views ignore single-node monotonicity on purpose (they stand for updates of many nodes arriving in any order); main nodes keep it"}},
}

func TestRun(t *testing.T) { core.Main(t, Specs) }
