// Package c19view is a W2 component world for property C19: the gossiped shard
// view (storage/cluster: shardView.update / mergeShardInfo / copy / shardInfo
// behind the real memberlist delegate LocalState / MergeRemoteState and
// Cluster.Notify) converges and never regresses to an older leader.
//
// 3-5 real views ("main nodes") are fed by a harness-controlled "own Raft
// information" source and exchange real gossip payloads under loss,
// duplication, reordering and splitting decided by an explicit schedule; two
// further fresh views ("probe pair") receive the same multiset of raw updates
// in two different permutations. The reference model is written from the
// property text and never calls the code under test.
package c19view

import (
	"encoding/json"
	"fmt"
	mbits "math/bits"
	"runtime/debug"
	"strings"

	"github.com/jamf/regatta/storage/cluster"
	"github.com/lni/dragonboat/v4"
	"verif/sim/core"
)

const prop = "C19"

// shard index i of a schedule is Raft shard shardBase+i in the world.
const shardBase = 10001

// ---- schedule ---------------------------------------------------------------

// Upd is one shard update as Raft can announce it. The leader id is a pure
// function of (salt, shard, term) and the membership a pure function of
// (salt, shard, cci), so "one leader per term" and "one membership per
// config-change index" hold for every schedule, including shrunk ones.
type Upd struct {
	Shard int    `json:"shard"`
	CCI   uint64 `json:"cci"`
	Term  uint64 `json:"term"`
	Led   bool   `json:"led,omitempty"` // false: announced with LeaderID 0 (no leader)
}

type Step struct {
	Op string `json:"op"` // local notify gossip capture deliver inject
	// local / notify
	Node     int  `json:"node,omitempty"`
	Upd      *Upd `json:"upd,omitempty"`
	NoNotify bool `json:"no_notify,omitempty"` // set the source only; it is read at the next Notify/LocalState
	// gossip / capture / deliver / inject
	From  int   `json:"from,omitempty"`
	To    int   `json:"to,omitempty"`
	Slot  int   `json:"slot,omitempty"`
	Times int   `json:"times,omitempty"` // gossip: deliveries of the same payload (duplication)
	Lost  bool  `json:"lost,omitempty"`  // gossip: payload produced, never delivered
	Split bool  `json:"split,omitempty"` // deliver only the shard entries listed in Keep
	Keep  []int `json:"keep,omitempty"`
	// inject: raw updates handed to one view in the listed order
	Via string `json:"via,omitempty"` // merge (hand-encoded payload) | notify (local source + Notify; probe nodes only)
	Ups []Upd  `json:"ups,omitempty"`
}

type Sched struct {
	Nodes    int    `json:"nodes"`    // main nodes 0..Nodes-1; probe pair = Nodes, Nodes+1
	Shards   int    `json:"shards"`   // shard indices 0..Shards-1
	Replicas int    `json:"replicas"` // replica ids 1..Replicas
	Salt     uint64 `json:"salt"`
	Steps    []Step `json:"steps"`
}

func (s *Sched) Len() int { return len(s.Steps) }
func (s *Sched) Subset(keep []int) core.Schedule {
	c := &Sched{Nodes: s.Nodes, Shards: s.Shards, Replicas: s.Replicas, Salt: s.Salt}
	for _, i := range keep {
		c.Steps = append(c.Steps, s.Steps[i])
	}
	return c
}

func (s *Sched) Simplify() []core.Schedule {
	var out []core.Schedule
	clone := func() *Sched {
		c := *s
		c.Steps = append([]Step(nil), s.Steps...)
		return &c
	}
	for i := range s.Steps {
		st := &s.Steps[i]
		if st.Times > 1 {
			c := clone()
			c.Steps[i].Times = 1
			out = append(out, c)
		}
		if st.Split {
			c := clone()
			c.Steps[i].Split, c.Steps[i].Keep = false, nil
			out = append(out, c)
		}
		if st.NoNotify {
			c := clone()
			c.Steps[i].NoNotify = false
			out = append(out, c)
		}
		if st.Op == "inject" && len(st.Ups) > 1 {
			for j := range st.Ups {
				c := clone()
				ups := append([]Upd(nil), st.Ups[:j]...)
				ups = append(ups, st.Ups[j+1:]...)
				c.Steps[i].Ups = ups
				out = append(out, c)
			}
		}
		if st.Op == "inject" && st.Via == "notify" {
			c := clone()
			c.Steps[i].Via = "merge"
			out = append(out, c)
		}
	}
	return out
}

func Decode(raw json.RawMessage) (core.Schedule, error) {
	s := &Sched{}
	return s, json.Unmarshal(raw, s)
}

// ---- generator ----------------------------------------------------------------

func Gen(r *core.Rand, tier string) core.Schedule {
	s := &Sched{Nodes: r.Range(3, 5), Shards: r.Range(1, 3), Replicas: r.Range(3, 5), Salt: r.Uint64()}
	N, S := s.Nodes, s.Shards
	// swarm: which fault kinds and stimuli exist in this run
	enLoss := r.Chance(0.6)
	enDup := r.Chance(0.7)
	enReorder := r.Chance(0.75)
	enSplit := r.Chance(0.6)
	enNoNotify := r.Chance(0.5)
	enInject := r.Chance(0.75)
	enHeal := r.Chance(0.6)
	enPending := r.Chance(0.5)
	pLed := []float64{0.25, 0.6, 0.9}[r.Intn(3)]
	termBump := []int{1, 2, 5}[r.Intn(3)]
	cciBump := []int{1, 3, 10}[r.Intn(3)]
	n := r.Range(10, 60)
	if tier == "thorough" {
		n = r.Range(10, 120)
	}

	// ---- probe pair: one multiset of raw updates, two permutations with duplicates
	var injP, injQ []Step
	if enInject {
		k := r.Range(2, 8)
		maxT := r.Range(1, 6)
		maxC := r.Range(0, 5)
		pl := []float64{0.3, 0.6, 0.85}[r.Intn(3)]
		ms := make([]Upd, k)
		for i := range ms {
			u := Upd{Shard: r.Intn(S), Term: uint64(r.Range(0, maxT)), CCI: uint64(r.Range(0, maxC))}
			u.Led = u.Term > 0 && r.Chance(pl)
			ms[i] = u
		}
		order := func() []int {
			o := make([]int, k)
			for i := range o {
				o[i] = i
			}
			for i := k - 1; i > 0; i-- {
				j := r.Intn(i + 1)
				o[i], o[j] = o[j], o[i]
			}
			for d := r.Range(0, 3); d > 0; d-- { // duplicates anywhere
				at := r.Intn(len(o) + 1)
				o = append(o, 0)
				copy(o[at+1:], o[at:])
				o[at] = r.Intn(k)
			}
			return o
		}
		oa, ob := order(), order()
		same := len(oa) == len(ob)
		for i := 0; same && i < len(oa); i++ {
			same = oa[i] == ob[i]
		}
		if same { // make the second order differ: reverse it
			for i, j := 0, len(ob)-1; i < j; i, j = i+1, j-1 {
				ob[i], ob[j] = ob[j], ob[i]
			}
		}
		batches := func(o []int, to int) []Step {
			var out []Step
			for i := 0; i < len(o); {
				sz := r.Range(1, 3)
				st := Step{Op: "inject", To: to, Via: "merge"}
				if r.Chance(0.4) {
					st.Via = "notify"
				}
				seen := map[int]bool{}
				for ; sz > 0 && i < len(o); sz-- {
					u := ms[o[i]]
					if seen[u.Shard] { // one entry per shard in one merge, like a real payload / ShardInfoList
						break
					}
					seen[u.Shard] = true
					st.Ups = append(st.Ups, u)
					i++
				}
				out = append(out, st)
			}
			return out
		}
		injP, injQ = batches(oa, N), batches(ob, N+1)
	}
	healLen := 0
	if enHeal {
		healLen = 2*N - 2
	}
	mainLen := n - len(injP) - len(injQ) - healLen
	if mainLen < 6 {
		mainLen = 6
	}

	// ---- main world
	type loc struct {
		has  bool
		t, c uint64
	}
	cur := make([][]loc, N)
	for i := range cur {
		cur[i] = make([]loc, S)
	}
	frontT := make([]uint64, S)
	frontC := make([]uint64, S)
	pickUp := func(cur, front uint64, bump int) uint64 {
		var v uint64
		switch r.Pick([]int{35, 35, 30}) {
		case 0:
			v = cur
		case 1:
			v = front + uint64(r.Intn(bump+1))
		default:
			hi := front
			if cur > hi {
				hi = cur
			}
			v = cur + uint64(r.Intn(int(hi-cur)+bump+1))
		}
		if v < cur {
			v = cur
		}
		return v
	}
	type slotInfo struct {
		from      int
		delivered bool
	}
	var slots []slotInfo
	keepSet := func() []int {
		var k []int
		for i := 0; i < S; i++ {
			if r.Chance(0.5) {
				k = append(k, i)
			}
		}
		return k
	}
	other := func(a int) int {
		b := r.Intn(N - 1)
		if b >= a {
			b++
		}
		return b
	}
	var main []Step
	wLocal, wGossip, wCapture, wDeliver, wNotify := 35, 25, 0, 0, 4
	if enReorder {
		wCapture, wDeliver = 12, 18
	}
	if r.Chance(0.25) { // update-heavy runs: long per-node term histories
		wLocal = 70
	}
	for len(main) < mainLen {
		switch r.Pick([]int{wLocal, wGossip, wCapture, wDeliver, wNotify}) {
		case 0:
			nd, si := r.Intn(N), r.Intn(S)
			l := &cur[nd][si]
			u := Upd{Shard: si}
			if !l.has && enPending && r.Chance(0.3) {
				// nothing applied yet: no membership, no leader information
			} else {
				u.Term = pickUp(l.t, frontT[si], termBump)
				u.CCI = pickUp(l.c, frontC[si], cciBump)
				u.Led = u.Term > 0 && r.Chance(pLed)
			}
			l.has, l.t, l.c = true, u.Term, u.CCI
			if u.Term > frontT[si] {
				frontT[si] = u.Term
			}
			if u.CCI > frontC[si] {
				frontC[si] = u.CCI
			}
			main = append(main, Step{Op: "local", Node: nd, Upd: &u, NoNotify: enNoNotify && r.Chance(0.3)})
		case 1:
			st := Step{Op: "gossip", From: r.Intn(N), Times: 1}
			st.To = other(st.From)
			if enLoss && r.Chance(0.2) {
				st.Lost = true
			} else {
				if enDup && r.Chance(0.25) {
					st.Times = r.Range(2, 3)
				}
				if enSplit && r.Chance(0.3) {
					st.Split, st.Keep = true, keepSet()
				}
			}
			main = append(main, st)
		case 2:
			slots = append(slots, slotInfo{from: r.Intn(N)})
			main = append(main, Step{Op: "capture", From: slots[len(slots)-1].from, Slot: len(slots) - 1})
		case 3:
			var cand []int
			for i, sl := range slots {
				if enDup || !sl.delivered {
					cand = append(cand, i)
				}
			}
			if len(cand) == 0 {
				continue
			}
			sl := cand[r.Intn(len(cand))]
			if enLoss && !slots[sl].delivered && r.Chance(0.15) {
				slots[sl].delivered = true // lost: never delivered (unless duplicated later)
				continue
			}
			st := Step{Op: "deliver", Slot: sl, To: other(slots[sl].from)}
			if r.Chance(0.1) {
				st.To = r.Intn(N) // may come back to its sender
			}
			if enSplit && r.Chance(0.35) {
				st.Split, st.Keep = true, keepSet()
			}
			slots[sl].delivered = true
			main = append(main, st)
		default:
			main = append(main, Step{Op: "notify", Node: r.Intn(N)})
		}
	}
	if enHeal {
		// loss-free ring, twice around minus one hop: afterwards every main node holds everything
		for i := 0; i < 2*N-2; i++ {
			main = append(main, Step{Op: "gossip", From: i % N, To: (i + 1) % N, Times: 1})
		}
		// stale payloads arriving after convergence must change nothing
		for i := range slots {
			if enReorder && r.Chance(0.3) {
				main = append(main, Step{Op: "deliver", Slot: i, To: r.Intn(N)})
			}
		}
	}
	// interleave the three independent step lists, each keeping its own order
	lists := [][]Step{main, injP, injQ}
	for {
		w := []int{len(lists[0]), len(lists[1]), len(lists[2])}
		if w[0]+w[1]+w[2] == 0 {
			break
		}
		i := r.Pick(w)
		s.Steps = append(s.Steps, lists[i][0])
		lists[i] = lists[i][1:]
	}
	return s
}

// ---- reference model (from the property text) -----------------------------------

// fold is the canonical summary of a set of updates of one shard: the highest
// config-change index, and the highest term among updates that carry a leader.
type fold struct {
	any    bool
	cci    uint64
	hasLed bool
	term   uint64
}

func (f *fold) addUpd(u Upd) {
	f.any = true
	if u.CCI > f.cci {
		f.cci = u.CCI
	}
	if u.Led && (!f.hasLed || u.Term > f.term) {
		f.hasLed, f.term = true, u.Term
	}
}

// addFold merges a summary that arrived inside a gossip payload.
func (f *fold) addFold(g fold) {
	if !g.any {
		return
	}
	f.any = true
	if g.cci > f.cci {
		f.cci = g.cci
	}
	if g.hasLed && (!f.hasLed || g.term > f.term) {
		f.hasLed, f.term = true, g.term
	}
}

type bitset []uint64

func (b bitset) set(i int)      { b[i>>6] |= 1 << (uint(i) & 63) }
func (b bitset) has(i int) bool { return b[i>>6]&(1<<(uint(i)&63)) != 0 }
func (b bitset) eq(o bitset) bool {
	for i := range b {
		if b[i] != o[i] {
			return false
		}
	}
	return true
}
func (b bitset) count() int {
	n := 0
	for _, w := range b {
		n += mbits.OnesCount64(w)
	}
	return n
}

type obs struct {
	leader, term, cci uint64
	repl              uint64 // digest of the membership last observed
}

type node struct {
	vv       *cluster.VerifView
	cur      []int // per shard: id of the update its own Raft currently reports, -1 = shard not hosted
	override []dragonboat.ShardInfo
	ovRead   bool // the override list was read by the code under test
	reach    []bitset // per shard: ids of the updates that reached this node
	inc      []fold   // per shard: fold kept incrementally (fold of folds)
	seq      []uint64 // per shard: order-sensitive hash of the arrival sequence
	prev     []obs
	cause    []string // per shard: what the current step delivered
	dirty    bool
	lastRecv int
}

type upKey struct {
	si        int
	cci, term uint64
	led       bool
}

type payload struct {
	buf     []byte
	from    int
	step    int
	reach   []bitset
	fold    []fold
	sentTo  map[int]int
	present int
}

type world struct {
	sc       *Sched
	out      *core.Outcome
	dig      core.Digest
	N, S, R  int
	W        int // words per bitset
	nodes    []*node
	ups      []Upd
	origin   []uint32
	ids      map[upKey]int
	replicas map[[2]uint64]map[uint64]string
	slots    map[int]*payload
	step     int
	ctx      string // entry point of the code under test currently being called
}

func (w *world) fail(oracle, sig, f string, a ...any) { w.out.Fail(prop, oracle, sig, w.step, f, a...) }

func (w *world) shardID(si int) uint64 { return shardBase + uint64(si) }

func (w *world) leaderOf(si int, term uint64) uint64 {
	return 1 + core.Mix(w.sc.Salt, 0x1eade7, uint64(si), term)%uint64(w.R)
}

// replicasOf is THE membership of config-change index cci (nil before any change was applied).
func (w *world) replicasOf(si int, cci uint64) map[uint64]string {
	if cci == 0 {
		return nil
	}
	k := [2]uint64{uint64(si), cci}
	if m, ok := w.replicas[k]; ok {
		return m
	}
	m := map[uint64]string{}
	must := 1 + core.Mix(w.sc.Salt, 0x3e3b, uint64(si), cci)%uint64(w.R)
	for id := uint64(1); id <= uint64(w.R); id++ {
		if id == must || core.Mix(w.sc.Salt, 0x3e3c, uint64(si), cci, id)&1 == 1 {
			m[id] = fmt.Sprintf("r%d.s%d.c%d:5012", id, si, cci)
		}
	}
	w.replicas[k] = m
	return m
}

func (w *world) leaderID(u Upd) uint64 {
	if !u.Led {
		return 0
	}
	return w.leaderOf(u.Shard, u.Term)
}

func (w *world) info(nd int, u Upd) dragonboat.ShardInfo {
	return dragonboat.ShardInfo{ShardID: w.shardID(u.Shard), ReplicaID: uint64(nd + 1), Replicas: w.replicasOf(u.Shard, u.CCI),
		ConfigChangeIndex: u.CCI, LeaderID: w.leaderID(u), Term: u.Term}
}

func (w *world) view(u Upd) dragonboat.ShardView {
	return dragonboat.ShardView{ShardID: w.shardID(u.Shard), Replicas: w.replicasOf(u.Shard, u.CCI),
		ConfigChangeIndex: u.CCI, LeaderID: w.leaderID(u), Term: u.Term}
}

func (w *world) intern(u Upd) int {
	k := upKey{u.Shard, u.CCI, u.Term, u.Led}
	if id, ok := w.ids[k]; ok {
		return id
	}
	id := len(w.ups)
	w.ups = append(w.ups, u)
	w.origin = append(w.origin, 0)
	w.ids[k] = id
	return id
}

func firstRepoFrame(stack string) string {
	for _, ln := range strings.Split(stack, "\n") {
		ln = strings.TrimSpace(ln)
		if strings.HasPrefix(ln, "github.com/jamf/regatta/") {
			if i := strings.Index(ln, "("); i > 0 {
				ln = ln[:i]
			}
			return strings.TrimPrefix(ln, "github.com/jamf/regatta/")
		}
	}
	return "?"
}

// guard runs a call into code under test and turns a panic into a violation.
func (w *world) guard(what string, f func()) (ok bool) {
	w.ctx = what
	defer func() {
		w.ctx = ""
		if r := recover(); r != nil {
			st := string(debug.Stack())
			w.fail("panic", "panic:"+what+"@"+firstRepoFrame(st), "panic in %s: %v\n%s", what, r, st)
			ok = false
		}
	}()
	f()
	return true
}

// reachUpd: one raw update arrives at a node (own Raft information or an injected update).
func (w *world) reachUpd(nd, id int, explicit bool) {
	n := w.nodes[nd]
	u := w.ups[id]
	si := u.Shard
	f := n.inc[si]
	known := n.reach[si].has(id)
	if known && !explicit {
		return // the same local information merged again at a refresh: nothing arrives
	}
	if known {
		w.out.Probe("duplicate-update-redelivered")
	}
	switch {
	case !u.Led && f.hasLed:
		w.out.Probe("no-leader-update-after-leader")
		n.cause[si] = "no-leader-update"
		if u.Term > f.term {
			w.out.Probe("no-leader-higher-term-after-leader")
		}
	case u.Led && f.hasLed && u.Term < f.term:
		w.out.Probe("older-term-update-after-newer")
		n.cause[si] = "older-term-update"
	case u.Led && f.hasLed && u.Term == f.term:
		n.cause[si] = "same-term-update"
	case u.Led:
		n.cause[si] = "newer-leader-update"
	default:
		n.cause[si] = "no-leader-update"
	}
	if f.any && u.CCI < f.cci {
		w.out.Probe("older-cci-update-after-newer")
	}
	n.reach[si].set(id)
	n.inc[si].addUpd(u)
	n.seq[si] = core.Mix(n.seq[si], 1, uint64(id))
	n.dirty = true
	n.lastRecv = w.step
}

// refresh: the code under test just read the node's own Raft information (called
// from the information source itself, so the model does not assume which entry
// points read it): whatever the source reports now has reached the node.
func (w *world) refresh(nd int) {
	n := w.nodes[nd]
	for _, id := range n.cur {
		if id >= 0 {
			if w.ctx == "LocalState" && !n.reach[w.ups[id].Shard].has(id) {
				w.out.Probe("local-info-first-read-by-localstate")
			}
			w.reachUpd(nd, id, false)
		}
	}
}

func (w *world) snapshot(from int, buf []byte) *payload {
	n := w.nodes[from]
	p := &payload{buf: buf, from: from, step: w.step, sentTo: map[int]int{}}
	for si := 0; si < w.S; si++ {
		p.reach = append(p.reach, append(bitset(nil), n.reach[si]...))
		p.fold = append(p.fold, n.inc[si])
		if n.inc[si].any {
			p.present++
		}
	}
	return p
}

type wire struct {
	ShardView []dragonboat.ShardView `json:"shard_view"`
}

// mergePayload delivers a captured payload (or a subset of its shard entries) to a node.
func (w *world) mergePayload(to int, p *payload, split bool, keep []int) {
	n := w.nodes[to]
	buf := p.buf
	kept := make([]bool, w.S)
	for si := range kept {
		kept[si] = !split
	}
	if split {
		for _, si := range keep {
			if si >= 0 && si < w.S {
				kept[si] = true
			}
		}
		var in, outw wire
		if err := json.Unmarshal(buf, &in); err != nil {
			w.fail("payload", "payload-undecodable", "LocalState of node %d produced a payload that does not decode: %v", p.from, err)
			return
		}
		outw.ShardView = []dragonboat.ShardView{}
		for _, e := range in.ShardView {
			si := int(e.ShardID) - shardBase
			if si >= 0 && si < w.S && kept[si] {
				outw.ShardView = append(outw.ShardView, e)
			}
		}
		buf, _ = json.Marshal(&outw)
		k := 0
		for si := 0; si < w.S; si++ {
			if kept[si] && p.fold[si].any {
				k++
			}
		}
		if k < p.present {
			w.out.Probe("split-delivery")
			w.out.Fault("split")
		}
	}
	if n.lastRecv > p.step {
		w.out.Probe("reordered-delivery")
		w.out.Fault("reorder")
	}
	if p.sentTo[to] > 0 {
		w.out.Probe("duplicate-delivery")
		w.out.Fault("duplicate")
	}
	p.sentTo[to]++
	if !w.guard("MergeRemoteState", func() { n.vv.Delegate().MergeRemoteState(buf, false) }) {
		return
	}
	for si := 0; si < w.S; si++ {
		g := p.fold[si]
		if !kept[si] || !g.any {
			continue
		}
		f := n.inc[si]
		switch {
		case f.hasLed && !g.hasLed:
			w.out.Probe("no-leader-payload-after-leader")
			n.cause[si] = "no-leader-payload"
		case f.hasLed && g.hasLed && g.term < f.term:
			w.out.Probe("older-term-payload-after-newer")
			n.cause[si] = "older-term-payload"
		case g.hasLed && (!f.hasLed || g.term > f.term):
			n.cause[si] = "newer-leader-payload"
		default:
			n.cause[si] = "same-term-payload"
		}
		if f.any && g.cci < f.cci {
			w.out.Probe("older-cci-payload-after-newer")
		}
		fresh, transitive := false, false
		for i, word := range p.reach[si] {
			nw := word &^ n.reach[si][i]
			for nw != 0 {
				b := mbits.TrailingZeros64(nw)
				nw &^= 1 << uint(b)
				id := i<<6 + b
				fresh = true
				if w.origin[id]&(1<<uint(p.from)) == 0 {
					transitive = true
				}
				n.seq[si] = core.Mix(n.seq[si], 2, uint64(id))
			}
			n.reach[si][i] |= word
		}
		if transitive {
			w.out.Probe("transitive-delivery")
		}
		if !fresh {
			w.out.Probe("payload-entry-without-news")
		}
		n.inc[si].addFold(g)
		n.dirty = true
	}
	n.lastRecv = w.step
}

func replDigest(m map[uint64]string) uint64 {
	var h uint64
	for k, v := range m {
		h += core.Mix(k, core.HashString(v)) // commutative: map order must not matter
	}
	return h
}

func sameRepl(a, b map[uint64]string) bool {
	if len(a) != len(b) { // nil and empty are the same membership
		return false
	}
	for k, v := range a {
		if bv, ok := b[k]; !ok || bv != v {
			return false
		}
	}
	return true
}

// checkAll runs oracles (1) and (2) for every node and shard after a step.
func (w *world) checkAll() {
	for nd, n := range w.nodes {
		for si := 0; si < w.S; si++ {
			if w.out.Violation != nil {
				return
			}
			// (2a) model self-check: the fold of folds equals the fold of everything underneath
			exp := n.inc[si]
			if n.dirty {
				var scratch fold
				for id := range w.ups {
					if n.reach[si].has(id) {
						scratch.addUpd(w.ups[id])
					}
				}
				if scratch != exp {
					w.out.Fail("HARNESS", "model-self-check", "fold-of-folds-differs", w.step,
						"node %d shard %d: incremental fold %+v, fold of the %d underlying updates %+v", nd, si, exp, n.reach[si].count(), scratch)
					return
				}
			}
			var got dragonboat.ShardView
			if !w.guard("ShardInfo", func() { got = n.vv.ShardInfo(w.shardID(si)) }) {
				return
			}
			p := n.prev[si]
			cause := n.cause[si]
			if cause == "" {
				cause = "nothing-delivered"
			}
			// (1) no regression
			switch {
			case got.Term < p.term:
				w.fail("no-regression", "term-decreased:"+cause, "node %d shard %d: reported term moved backwards: leader %d term %d -> leader %d term %d (step delivered %s)",
					nd, si, p.leader, p.term, got.LeaderID, got.Term, cause)
			case p.leader != 0 && got.LeaderID == 0:
				w.fail("no-regression", "leader-forgotten:"+cause, "node %d shard %d: known leader %d (term %d) replaced by 'no leader' (term %d) (step delivered %s)",
					nd, si, p.leader, p.term, got.Term, cause)
			case p.leader != 0 && got.Term == p.term && got.LeaderID != p.leader:
				w.fail("no-regression", "leader-changed-within-term:"+cause, "node %d shard %d: leader of term %d changed %d -> %d (step delivered %s)",
					nd, si, p.term, p.leader, got.LeaderID, cause)
			case got.ConfigChangeIndex < p.cci:
				w.fail("no-regression", "membership-regressed:"+cause, "node %d shard %d: config-change index moved backwards %d -> %d", nd, si, p.cci, got.ConfigChangeIndex)
			}
			if w.out.Violation != nil {
				return
			}
			// (2) the view is the canonical fold of everything that reached the node
			switch {
			case !exp.any:
				if got.LeaderID != 0 || got.ConfigChangeIndex != 0 || len(got.Replicas) != 0 {
					w.fail("fold", "view-without-update", "node %d shard %d: no update reached the node but the view is %+v", nd, si, got)
				}
			case got.ShardID != w.shardID(si):
				w.fail("fold", "shard-missing", "node %d shard %d: %d updates reached the node but ShardInfo reports shard id %d", nd, si, n.reach[si].count(), got.ShardID)
			case got.ConfigChangeIndex != exp.cci:
				w.fail("fold", "cci-mismatch:"+cause, "node %d shard %d: config-change index %d, highest announced %d", nd, si, got.ConfigChangeIndex, exp.cci)
			case !sameRepl(got.Replicas, w.replicasOf(si, exp.cci)):
				w.fail("fold", "replicas-mismatch:"+cause, "node %d shard %d: membership %v at config-change index %d, announced for that index: %v", nd, si, got.Replicas, exp.cci, w.replicasOf(si, exp.cci))
			case !exp.hasLed && got.LeaderID != 0:
				w.fail("fold", "leader-invented:"+cause, "node %d shard %d: leader %d term %d reported but no update with a leader reached the node", nd, si, got.LeaderID, got.Term)
			case exp.hasLed && (got.LeaderID != w.leaderOf(si, exp.term) || got.Term != exp.term):
				sig := "leader-mismatch:"
				switch {
				case got.LeaderID == 0:
					sig = "leader-missing:"
				case got.Term < exp.term:
					sig = "older-leader-kept:"
				case got.LeaderID == w.leaderOf(si, exp.term) || got.Term > exp.term:
					sig = "term-without-its-leader:"
				}
				w.fail("fold", sig+cause, "node %d shard %d: view reports leader %d term %d; the leader announced with the highest term among the %d updates that reached the node is %d term %d (step delivered %s)",
					nd, si, got.LeaderID, got.Term, n.reach[si].count(), w.leaderOf(si, exp.term), exp.term, cause)
			}
			if w.out.Violation != nil {
				return
			}
			o := obs{leader: got.LeaderID, term: got.Term, cci: got.ConfigChangeIndex, repl: p.repl}
			if o.cci != p.cci || (p.repl == 0 && len(got.Replicas) > 0) {
				o.repl = replDigest(got.Replicas)
			}
			n.prev[si] = o
			w.dig.Add(o.leader)
			w.dig.Add(o.term)
			w.dig.Add(o.cci)
			w.dig.Add(o.repl)
		}
		n.dirty = false
		for si := range n.cause {
			n.cause[si] = ""
		}
	}
}

func sameView(a, b dragonboat.ShardView) bool {
	return a.ShardID == b.ShardID && a.ConfigChangeIndex == b.ConfigChangeIndex && a.LeaderID == b.LeaderID && a.Term == b.Term && sameRepl(a.Replicas, b.Replicas)
}

// comparePairs is oracle (3): two nodes that were reached by the same set of
// updates report equal views, whatever the order, grouping and repetition.
func (w *world) comparePairs() {
	T := len(w.nodes)
	for a := 0; a < T; a++ {
		for b := a + 1; b < T; b++ {
			na, nb := w.nodes[a], w.nodes[b]
			for si := 0; si < w.S; si++ {
				if !na.reach[si].eq(nb.reach[si]) || na.reach[si].count() == 0 {
					continue
				}
				var va, vb dragonboat.ShardView
				if !w.guard("ShardInfo", func() { va, vb = na.vv.ShardInfo(w.shardID(si)), nb.vv.ShardInfo(w.shardID(si)) }) {
					return
				}
				if !sameView(va, vb) {
					w.fail("permutation", "same-updates-different-view", "nodes %d and %d were reached by the same %d updates of shard %d but report %+v and %+v", a, b, na.reach[si].count(), si, va, vb)
					return
				}
				if na.seq[si] != nb.seq[si] && na.reach[si].count() >= 2 {
					w.out.Probe("permutation-pair-compared")
					if a >= w.N { // both are probe nodes
						w.out.Probe("probe-pair-compared")
					}
				}
			}
		}
	}
	// convergence: after a loss-free exchange all main nodes hold everything and agree
	total := 0
	for si := 0; si < w.S; si++ {
		for nd := 1; nd < w.N; nd++ {
			if !w.nodes[0].reach[si].eq(w.nodes[nd].reach[si]) {
				return
			}
		}
		total += w.nodes[0].reach[si].count()
	}
	if total >= 2 {
		w.out.Probe("converged-main-nodes")
	}
}

func clamp(v, lo, hi int) int {
	if v < lo {
		return lo
	}
	if v > hi {
		return hi
	}
	return v
}

// Exec runs one C19 schedule.
func Exec(s core.Schedule) *core.Outcome {
	sc := s.(*Sched)
	w := &world{sc: sc, out: core.NewOutcome(), N: clamp(sc.Nodes, 2, 8), S: clamp(sc.Shards, 1, 8), R: clamp(sc.Replicas, 1, 16),
		ids: map[upKey]int{}, replicas: map[[2]uint64]map[uint64]string{}, slots: map[int]*payload{}}
	nUpd := 1
	for i := range sc.Steps {
		if sc.Steps[i].Upd != nil {
			nUpd++
		}
		nUpd += len(sc.Steps[i].Ups)
	}
	w.W = (nUpd + 63) / 64
	T := w.N + 2
	for nd := 0; nd < T; nd++ {
		n := &node{cur: make([]int, w.S), reach: make([]bitset, w.S), inc: make([]fold, w.S), seq: make([]uint64, w.S),
			prev: make([]obs, w.S), cause: make([]string, w.S), lastRecv: -1}
		for si := range n.cur {
			n.cur[si] = -1
			n.reach[si] = make(bitset, w.W)
		}
		nd := nd
		n.vv = cluster.VerifNewView(func() cluster.Info {
			if n.override != nil {
				n.ovRead = true
				return cluster.Info{ShardInfoList: n.override}
			}
			w.refresh(nd)
			var l []dragonboat.ShardInfo
			for _, id := range n.cur {
				if id >= 0 {
					l = append(l, w.info(nd, w.ups[id]))
				}
			}
			return cluster.Info{ShardInfoList: l}
		})
		w.nodes = append(w.nodes, n)
	}
	validUpd := func(u Upd) bool { return u.Shard >= 0 && u.Shard < w.S }

	for i := range sc.Steps {
		if w.out.Violation != nil {
			break
		}
		w.step = i
		st := &sc.Steps[i]
		w.dig.AddString(st.Op)
		switch st.Op {
		case "local":
			if st.Node < 0 || st.Node >= w.N || st.Upd == nil || !validUpd(*st.Upd) {
				continue
			}
			n := w.nodes[st.Node]
			u := *st.Upd
			if c := n.cur[u.Shard]; c >= 0 {
				// a single Raft node never goes back in term or in applied membership
				if u.Term < w.ups[c].Term || u.CCI < w.ups[c].CCI {
					w.out.Probe("invalid-local-skipped")
					continue
				}
			}
			id := w.intern(u)
			w.origin[id] |= 1 << uint(st.Node)
			n.cur[u.Shard] = id
			if st.NoNotify {
				w.out.Probe("local-without-notify")
				break
			}
			if !w.guard("Notify", func() { n.vv.Notify() }) {
				break
			}
		case "notify":
			if st.Node < 0 || st.Node >= w.N {
				continue
			}
			if !w.guard("Notify", func() { w.nodes[st.Node].vv.Notify() }) {
				break
			}
		case "gossip", "capture":
			if st.From < 0 || st.From >= w.N {
				continue
			}
			var buf []byte
			if !w.guard("LocalState", func() { buf = w.nodes[st.From].vv.Delegate().LocalState(false) }) {
				break
			}
			p := w.snapshot(st.From, buf)
			if st.Op == "capture" {
				w.slots[st.Slot] = p
				break
			}
			if st.Lost || st.To < 0 || st.To >= T || st.To == st.From {
				w.out.Fault("loss")
				break
			}
			for k := 0; k < clamp(st.Times, 1, 4) && w.out.Violation == nil; k++ {
				w.mergePayload(st.To, p, st.Split, st.Keep)
			}
		case "deliver":
			p := w.slots[st.Slot]
			if p == nil || st.To < 0 || st.To >= T {
				continue
			}
			w.mergePayload(st.To, p, st.Split, st.Keep)
		case "inject":
			if st.To < 0 || st.To >= T {
				continue
			}
			n := w.nodes[st.To]
			var ups []Upd
			for _, u := range st.Ups {
				if validUpd(u) {
					ups = append(ups, u)
				}
			}
			if st.Via == "notify" && st.To >= w.N {
				l := make([]dragonboat.ShardInfo, 0, len(ups))
				for _, u := range ups {
					l = append(l, w.info(st.To, u))
				}
				n.override, n.ovRead = l, false
				ok := w.guard("Notify", func() { n.vv.Notify() })
				n.override = nil
				if !ok {
					break
				}
				if !n.ovRead { // nothing was handed over
					break
				}
				w.out.Probe("inject-via-notify")
			} else {
				msg := wire{ShardView: make([]dragonboat.ShardView, 0, len(ups))}
				for _, u := range ups {
					msg.ShardView = append(msg.ShardView, w.view(u))
				}
				buf, _ := json.Marshal(&msg)
				if !w.guard("MergeRemoteState", func() { n.vv.Delegate().MergeRemoteState(buf, false) }) {
					break
				}
				w.out.Probe("inject-via-merge")
			}
			for _, u := range ups {
				w.reachUpd(st.To, w.intern(u), true)
			}
		default:
			continue
		}
		w.checkAll()
	}
	if w.out.Violation == nil {
		w.step = len(sc.Steps)
		w.comparePairs()
	}
	undelivered := 0
	for _, p := range w.slots {
		if len(p.sentTo) == 0 {
			undelivered++
		}
	}
	if undelivered > 0 {
		w.out.Faults["loss"] += int64(undelivered)
	}
	w.out.NonTrivial = w.out.Probes["permutation-pair-compared"] > 0 || w.out.Probes["reordered-delivery"] > 0 || w.out.Probes["duplicate-delivery"] > 0
	// final views are already part of the digest (every view is fed after every step)
	w.dig.Add(uint64(len(w.ups)))
	w.out.Digest = w.dig.Sum()
	w.out.Steps = len(sc.Steps)
	return w.out
}
