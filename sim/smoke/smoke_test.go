package smoke

import (
	"testing"
	"testing/synctest"

	"github.com/cockroachdb/pebble/vfs"
	"github.com/jamf/regatta/regattapb"
	"github.com/jamf/regatta/storage/table/fsm"
	sm "github.com/lni/dragonboat/v4/statemachine"
)

func TestSmoke(t *testing.T) {
	defer func() { recover() }()
	synctest.Test(t, func(t *testing.T) {
		fs := vfs.NewMem()
		f := fsm.New("t", "/data", fs, nil, nil, fsm.RecoveryTypeSnapshot, nil)(10001, 1)
		idx, err := f.Open(nil)
		if err != nil {
			t.Fatal(err)
		}
		cmd := &regattapb.Command{Type: regattapb.Command_PUT, Kv: &regattapb.KeyValue{Key: []byte("a"), Value: []byte("b")}}
		b, _ := cmd.MarshalVT()
		res, err := f.Update([]sm.Entry{{Index: 1, Cmd: b}})
		if err != nil {
			t.Fatal(err)
		}
		synctest.Wait()
		t.Log(idx, res[0].Result.Value, len(res[0].Result.Data))
		r, err := f.Lookup(&regattapb.RequestOp_Range{Key: []byte("a")})
		t.Log(r, err)
		f.Close()
	})
}
