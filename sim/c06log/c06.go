// Package c06log (world W2): the real regattaserver.LogServer over the real
// logreader.Simple and logreader.Cached (+ShardCache), reading a simulated Raft
// log whose reader follows dragonboat's LogReader arithmetic.
package c06log

import (
	"context"
	"encoding/json"
	"errors"
	"fmt"
	"io"
	"runtime/debug"

	"github.com/jamf/regatta/regattapb"
	"github.com/jamf/regatta/regattaserver"
	serrors "github.com/jamf/regatta/storage/errors"
	"github.com/jamf/regatta/storage/logreader"
	"github.com/jamf/regatta/storage/table"
	"github.com/jamf/regatta/storage/table/fsm"
	"github.com/lni/dragonboat/v4"
	"github.com/lni/dragonboat/v4/client"
	"github.com/lni/dragonboat/v4/raftpb"
	sm "github.com/lni/dragonboat/v4/statemachine"
	"go.uber.org/zap"
	"google.golang.org/grpc"
	"google.golang.org/grpc/codes"
	"google.golang.org/grpc/status"
	"google.golang.org/protobuf/proto"
	"verif/sim/core"
)

const shardID = 10001

// ---- schedule -------------------------------------------------------------------

type Step struct {
	Op string `json:"op"` // append apply compact event replicate query
	// append
	Type int `json:"type,omitempty"` // 0 encoded command, 1 empty application entry, 2 config change, 3 metadata
	Size int `json:"size,omitempty"`
	N    int `json:"n,omitempty"`
	// compact: number of entries to drop from the front
	// replicate / query
	Start  uint64 `json:"start,omitempty"`
	Reader string `json:"reader,omitempty"` // simple cached both
	Last   uint64 `json:"last,omitempty"`
	Max    uint64 `json:"max,omitempty"`
	MidAt  int    `json:"mid_at,omitempty"` // compaction of MidN entries at the n-th Send
	MidN   int    `json:"mid_n,omitempty"`
}

type Sched struct {
	Cache      int    `json:"cache"`
	MaxMsg     uint64 `json:"max_msg"`
	LateEvents bool   `json:"late_events"`
	First      uint64 `json:"first"` // index of the first log entry (initial membership entries precede commands)
	Steps      []Step `json:"steps"`
}

func (s *Sched) Len() int { return len(s.Steps) }
func (s *Sched) Subset(keep []int) core.Schedule {
	c := *s
	c.Steps = nil
	for _, i := range keep {
		c.Steps = append(c.Steps, s.Steps[i])
	}
	return &c
}
func Decode(raw json.RawMessage) (core.Schedule, error) {
	s := &Sched{}
	return s, json.Unmarshal(raw, s)
}

func Gen(r *core.Rand, tier string) core.Schedule {
	s := &Sched{Cache: []int{1, 2, 3, 5, 8, 100}[r.Intn(6)], First: uint64(r.Range(1, 4))}
	s.MaxMsg = []uint64{0, 1, 64, 200, 300, 1024, 4096, 65536}[r.Intn(8)]
	s.LateEvents = r.Chance(0.3)
	sizes := []int{0, 1, 10, 50, 100, 180, 250, 400, 1000}
	if r.Chance(0.2) {
		sizes = append(sizes, 5000, 70000)
	}
	// generator-side view of the log
	first, last, applied := s.First, s.First-1, s.First-1
	n := r.Range(8, 50)
	noCompact := r.Chance(0.3)
	for len(s.Steps) < n {
		switch r.Pick([]int{30, 15, 8, 4, 35, 12}) {
		case 0:
			k := r.Range(1, 5)
			for i := 0; i < k; i++ {
				st := Step{Op: "append", Type: r.Pick([]int{70, 10, 10, 10}), Size: sizes[r.Intn(len(sizes))]}
				s.Steps = append(s.Steps, st)
				last++
			}
			if r.Chance(0.7) {
				s.Steps = append(s.Steps, Step{Op: "apply", N: int(last - applied)})
				applied = last
			}
		case 1:
			if last > applied {
				k := r.Range(1, int(last-applied))
				s.Steps = append(s.Steps, Step{Op: "apply", N: k})
				applied += uint64(k)
			}
		case 2:
			if !noCompact && applied >= first+1 {
				k := r.Range(1, int(applied-first))
				s.Steps = append(s.Steps, Step{Op: "compact", N: k})
				first += uint64(k)
			}
		case 3:
			s.Steps = append(s.Steps, Step{Op: "event"})
		case 4:
			st := Step{Op: "replicate", Reader: []string{"both", "both", "cached", "simple"}[r.Intn(4)]}
			switch r.Intn(10) {
			case 0:
				st.Start = 0
			case 1:
				st.Start = applied + 1
			case 2:
				st.Start = applied + uint64(r.Range(2, 4))
			case 3:
				if first > 1 {
					st.Start = uint64(r.Range(1, int(first-1)))
				} else {
					st.Start = first
				}
			case 4:
				st.Start = applied
			default:
				if applied >= first {
					st.Start = first + uint64(r.Intn(int(applied-first)+1))
				} else {
					st.Start = first
				}
			}
			if !noCompact && r.Chance(0.08) {
				st.MidAt = r.Range(1, 3)
				st.MidN = r.Range(1, 4)
			}
			s.Steps = append(s.Steps, st)
		default:
			st := Step{Op: "query", Reader: []string{"both", "cached", "simple"}[r.Intn(3)], Max: []uint64{0, 1, 100, 300, 1000, 1 << 20}[r.Intn(6)]}
			if applied >= first {
				st.Start = first + uint64(r.Intn(int(applied-first)+1))
				st.Last = st.Start + uint64(r.Range(0, int(applied-st.Start)+1))
			} else {
				st.Start, st.Last = first, first
			}
			s.Steps = append(s.Steps, st)
		}
	}
	return s
}

// ---- simulated log ---------------------------------------------------------------

type simLog struct {
	marker  uint64 // index of the last compacted entry
	ents    []raftpb.Entry
	applied uint64
	term    uint64
}

func (l *simLog) first() uint64 { return l.marker + 1 }
func (l *simLog) last() uint64  { return l.marker + uint64(len(l.ents)) }

type simReader struct{ l *simLog }

func (r simReader) GetRange() (uint64, uint64) { return r.l.first(), r.l.last() }
func (r simReader) NodeState() (raftpb.State, raftpb.Membership) {
	return raftpb.State{}, raftpb.Membership{}
}
func (r simReader) Term(index uint64) (uint64, error) { return r.l.term, nil }
func (r simReader) Snapshot() raftpb.Snapshot         { return raftpb.Snapshot{} }

var errCompacted = errors.New("entry compacted")
var errUnavailable = errors.New("entry unavailable")

// Entries mirrors internal/logdb LogReader.Entries: [low,high), errors for compacted /
// unavailable, entries until the cumulative size exceeds maxSize, dropping the last one if
// more than one (always at least one).
func (r simReader) Entries(low, high, maxSize uint64) ([]raftpb.Entry, error) {
	l := r.l
	if low > high {
		return nil, fmt.Errorf("high (%d) < low (%d)", high, low)
	}
	if low <= l.marker {
		return nil, errCompacted
	}
	if high > l.last()+1 {
		return nil, errUnavailable
	}
	var out []raftpb.Entry
	size := uint64(0)
	for i := low; i < high; i++ {
		e := l.ents[i-l.first()]
		out = append(out, e)
		size += uint64(e.SizeUpperLimit())
		if size > maxSize {
			break
		}
	}
	if size > maxSize && len(out) > 1 {
		out = out[:len(out)-1]
	}
	return out, nil
}

type querier struct{ l *simLog }

func (q querier) GetLogReader(shard uint64) (dragonboat.ReadonlyLogReader, error) {
	if shard != shardID {
		return nil, dragonboat.ErrLogDBNotCreatedOrClosed
	}
	return simReader{q.l}, nil
}

// raft handler of the table: only index lookups are needed by LogServer.
type handler struct{ l *simLog }

func (h handler) SyncRead(ctx context.Context, id uint64, req interface{}) (interface{}, error) {
	return h.StaleRead(id, req)
}
func (h handler) StaleRead(id uint64, req interface{}) (interface{}, error) {
	switch req.(type) {
	case fsm.LocalIndexRequest:
		return &fsm.IndexResponse{Index: h.l.applied}, nil
	}
	return nil, errors.New("stub: unsupported lookup")
}
func (h handler) SyncPropose(ctx context.Context, s *client.Session, b []byte) (sm.Result, error) {
	return sm.Result{}, errors.New("stub")
}
func (h handler) GetNoOPSession(id uint64) *client.Session { return nil }

type tables struct{ l *simLog }

func (t tables) GetTables() ([]table.Table, error) { return nil, nil }
func (t tables) GetTable(name string) (table.ActiveTable, error) {
	if name != "t" {
		return table.ActiveTable{}, serrors.ErrTableNotFound
	}
	return table.Table{Name: "t", ClusterID: shardID}.AsActive(handler{t.l}), nil
}
func (t tables) Restore(string, io.Reader) error         { return errors.New("stub") }
func (t tables) CreateTable(string) (table.Table, error) { return table.Table{}, errors.New("stub") }
func (t tables) DeleteTable(string) error                { return errors.New("stub") }

type stream struct {
	grpc.ServerStream
	ctx    context.Context
	msgs   []*regattapb.ReplicateResponse
	onSend func(n int)
}

func (s *stream) Context() context.Context { return s.ctx }
func (s *stream) Send(m *regattapb.ReplicateResponse) error {
	s.msgs = append(s.msgs, proto.Clone(m).(*regattapb.ReplicateResponse))
	if s.onSend != nil {
		s.onSend(len(s.msgs))
	}
	return nil
}

func guard(f func()) (pv any, stack string) {
	defer func() {
		if r := recover(); r != nil {
			pv, stack = r, string(debug.Stack())
		}
	}()
	f()
	return
}

// expected command for a log entry, per the replication protocol documentation
func expectedCommand(e raftpb.Entry) *regattapb.Command {
	idx := e.Index
	if e.Type == raftpb.EncodedEntry {
		c := &regattapb.Command{}
		if err := c.UnmarshalVT(e.Cmd[1:]); err != nil {
			panic(err)
		}
		c.LeaderIndex = &idx
		return c
	}
	return &regattapb.Command{Type: regattapb.Command_DUMMY, LeaderIndex: &idx}
}

func Exec(s core.Schedule) *core.Outcome {
	sc := s.(*Sched)
	out := core.NewOutcome()
	var dig core.Digest
	step := 0
	fail := func(oracle, sig, f string, a ...any) { out.Fail("C06", oracle, sig, step, f, a...) }
	first := sc.First
	if first < 1 {
		first = 1
	}
	l := &simLog{marker: first - 1, applied: first - 1, term: 1}
	cache := logreader.NewShardCache(sc.Cache)
	simple := &logreader.Simple{LogQuerier: querier{l}}
	cached := &logreader.Cached{LogQuerier: querier{l}, ShardCache: cache}
	lsSimple := regattaserver.NewLogServer(tables{l}, simple, zap.NewNop(), sc.MaxMsg)
	lsCached := regattaserver.NewLogServer(tables{l}, cached, zap.NewNop(), sc.MaxMsg)
	pendingEvent := false
	tag := 0

	compact := func(n int) {
		if n > int(l.applied)-int(l.marker) {
			n = int(l.applied) - int(l.marker)
		}
		if n <= 0 {
			return
		}
		l.ents = l.ents[n:]
		l.marker += uint64(n)
		out.Fault("log-compaction")
		if sc.LateEvents {
			pendingEvent = true
		} else {
			cache.LogCompacted(shardID)
		}
	}

	// replicate runs one Replicate call and checks it against the log as it stood at call time.
	replicate := func(ls *regattaserver.LogServer, name string, st *Step, lateCached bool) (cmds []*regattapb.ReplicateCommand, terminal string, ok bool) {
		applied := l.applied
		firstAtCall := l.first()
		snapshot := append([]raftpb.Entry(nil), l.ents...)
		markerAtCall := l.marker
		entryAt := func(i uint64) raftpb.Entry { return snapshot[i-markerAtCall-1] }
		str := &stream{ctx: context.Background()}
		midDone := false
		if st.MidAt > 0 && name == "cached" || st.MidAt > 0 && st.Reader == "simple" {
			str.onSend = func(n int) {
				if n == st.MidAt && !midDone {
					midDone = true
					compact(st.MidN)
					out.Probe("compaction-mid-stream")
				}
			}
		}
		var err error
		if pv, stk := guard(func() {
			err = ls.Replicate(&regattapb.ReplicateRequest{Table: []byte("t"), LeaderIndex: st.Start}, str)
		}); pv != nil {
			fail("replicate-panic", "replicate-panic", "Replicate(%d) via %s reader panicked: %v\n%s", st.Start, name, pv, stk)
			return nil, "", false
		}
		where := fmt.Sprintf("Replicate(start=%d) via %s reader (log [%d..%d], applied %d, max message %d, cache %d)", st.Start, name, firstAtCall, l.last(), applied, sc.MaxMsg, sc.Cache)
		if st.Start == 0 {
			if status.Code(err) != codes.InvalidArgument || len(str.msgs) != 0 {
				fail("zero-index", "zero-index", "%s: want InvalidArgument and no message, got err=%v and %d messages", where, err, len(str.msgs))
				return nil, "", false
			}
			return nil, "invalid", true
		}
		if err != nil {
			fail("replicate-error", "replicate-error", "%s: returned error %v", where, err)
			return nil, "", false
		}
		if len(str.msgs) == 0 {
			fail("no-message", "no-message", "%s: stream ended without any message", where)
			return nil, "", false
		}
		lastMsg := str.msgs[len(str.msgs)-1]
		errResp := lastMsg.GetErrorResponse()
		// terminal classification
		switch {
		case errResp != nil && errResp.Error == regattapb.ReplicateError_LEADER_BEHIND:
			terminal = "leader-behind"
		case errResp != nil && errResp.Error == regattapb.ReplicateError_USE_SNAPSHOT:
			terminal = "use-snapshot"
		case lastMsg.GetCommandsResponse() == nil || len(lastMsg.GetCommandsResponse().Commands) == 0:
			terminal = "up-to-date"
		default:
			fail("terminal", "no-terminal-message", "%s: last message carries commands; the stream must end with the index message or an error response", where)
			return nil, "", false
		}
		body := str.msgs[:len(str.msgs)-1]
		for i, m := range body {
			cr := m.GetCommandsResponse()
			if cr == nil || len(cr.Commands) == 0 {
				fail("empty-mid-message", "empty-mid-message", "%s: message %d of %d carries no command but is not the last", where, i, len(str.msgs))
				return nil, "", false
			}
			cmds = append(cmds, cr.Commands...)
		}
		switch {
		case st.Start > applied+1:
			if terminal != "leader-behind" || len(cmds) != 0 {
				fail("beyond-applied", "beyond-applied", "%s: want a single LEADER_BEHIND, got terminal %s after %d commands", where, terminal, len(cmds))
				return nil, "", false
			}
			out.Probe("leader-behind")
			return cmds, terminal, true
		case st.Start == applied+1:
			if terminal != "up-to-date" || len(cmds) != 0 || lastMsg.LeaderIndex != applied {
				fail("at-applied+1", "at-applied+1", "%s: want one empty message carrying index %d, got terminal %s, %d commands, index %d", where, applied, terminal, len(cmds), lastMsg.LeaderIndex)
				return nil, "", false
			}
			out.Probe("up-to-date")
			return cmds, terminal, true
		case st.Start < firstAtCall:
			if terminal == "use-snapshot" && len(cmds) == 0 {
				out.Probe("use-snapshot")
				return cmds, terminal, true
			}
			if !lateCached {
				fail("compacted", "compacted-not-use-snapshot", "%s: the requested index is compacted, want USE_SNAPSHOT, got terminal %s after %d commands", where, terminal, len(cmds))
				return nil, "", false
			}
			// the cache has not been told about the compaction yet: it may still serve the (immutable)
			// entries it holds; what it serves must be right. Checked below against the pre-compaction log
			// is impossible (entries are gone), so only labels/contiguity are checked.
			out.Probe("served-from-stale-cache")
			for i, c := range cmds {
				if c.LeaderIndex != st.Start+uint64(i) {
					fail("index-labels", "index-labels", "%s: command %d labelled %d, want %d", where, i, c.LeaderIndex, st.Start+uint64(i))
					return nil, "", false
				}
			}
			return cmds, terminal, true
		}
		// start inside the log: exact consecutive entries start..applied
		for i, c := range cmds {
			want := st.Start + uint64(i)
			if c.LeaderIndex != want {
				fail("index-labels", "index-labels", "%s: command %d labelled %d, want %d (no gap, no repeat)", where, i, c.LeaderIndex, want)
				return nil, "", false
			}
			if want > applied {
				fail("beyond-applied", "entry-beyond-applied", "%s: streamed entry %d beyond the applied index %d", where, want, applied)
				return nil, "", false
			}
			exp := expectedCommand(entryAt(want))
			if !proto.Equal(exp, c.Command) {
				fail("command-content", "command-content", "%s: entry %d streamed as %v, the log holds %v", where, want, c.Command, exp)
				return nil, "", false
			}
		}
		for i, m := range body {
			if m.LeaderIndex != applied {
				fail("message-index", "message-index", "%s: message %d carries leader index %d, applied index at call time is %d", where, i, m.LeaderIndex, applied)
				return nil, "", false
			}
		}
		got := uint64(len(cmds))
		need := applied - st.Start + 1
		switch terminal {
		case "up-to-date":
			if got != need {
				fail("stream-ended-early", "stream-ended-early", "%s: stream delivered %d of %d entries and then reported up to date (index %d)", where, got, need, lastMsg.LeaderIndex)
				return nil, "", false
			}
			if lastMsg.LeaderIndex != l.applied {
				fail("final-index", "final-index", "%s: final message carries index %d, applied is %d", where, lastMsg.LeaderIndex, l.applied)
				return nil, "", false
			}
		case "use-snapshot":
			if !midDone && !(lateCached) {
				fail("spurious-use-snapshot", "spurious-use-snapshot", "%s: USE_SNAPSHOT although index %d is in the log", where, st.Start)
				return nil, "", false
			}
		default:
			fail("spurious-terminal", "spurious-"+terminal, "%s: terminal %s after %d commands", where, terminal, got)
			return nil, "", false
		}
		if len(body) > 1 {
			out.Probe("multi-message-stream")
		}
		if len(body) >= 1 && len(str.msgs[0].GetCommandsResponse().GetCommands()) == 0 {
			fail("first-message-empty", "first-message-empty", "%s: first message is empty", where)
			return nil, "", false
		}
		dig.Add(got)
		return cmds, terminal, true
	}

	query := func(rd logreader.Interface, name string, st *Step) ([]raftpb.Entry, bool) {
		var ents []raftpb.Entry
		var err error
		if pv, stk := guard(func() {
			ents, err = rd.QueryRaftLog(context.Background(), shardID, dragonboat.LogRange{FirstIndex: st.Start, LastIndex: st.Last}, st.Max)
		}); pv != nil {
			fail("query-panic", "query-panic", "QueryRaftLog via %s panicked: %v\n%s", name, pv, stk)
			return nil, false
		}
		where := fmt.Sprintf("QueryRaftLog[%d,%d) max %d via %s (log [%d..%d], cache %d)", st.Start, st.Last, st.Max, name, l.first(), l.last(), sc.Cache)
		if err != nil {
			fail("query-error", "query-error", "%s: %v", where, err)
			return nil, false
		}
		if st.Start == st.Last {
			if len(ents) != 0 {
				fail("query-empty-range", "query-empty-range", "%s: empty range returned %d entries", where, len(ents))
				return nil, false
			}
			return ents, true
		}
		if len(ents) == 0 {
			fail("query-no-entry", "query-no-entry", "%s: a non-empty range of available entries yielded no entry", where)
			return nil, false
		}
		for i, e := range ents {
			want := st.Start + uint64(i)
			if e.Index != want || want >= st.Last {
				fail("query-contiguous", "query-contiguous", "%s: entry %d has index %d, want %d (< %d)", where, i, e.Index, want, st.Last)
				return nil, false
			}
			src := l.ents[want-l.first()]
			if e.Type != src.Type || string(e.Cmd) != string(src.Cmd) {
				fail("query-content", "query-content", "%s: entry %d differs from the log", where, want)
				return nil, false
			}
		}
		return ents, true
	}

	for i := range sc.Steps {
		if out.Violation != nil {
			break
		}
		step = i
		st := &sc.Steps[i]
		switch st.Op {
		case "append":
			idx := l.last() + 1
			e := raftpb.Entry{Index: idx, Term: l.term}
			switch st.Type {
			case 0:
				tag++
				val := make([]byte, st.Size)
				for j := range val {
					val[j] = byte(tag + j)
				}
				cmd := &regattapb.Command{Table: []byte("t"), Type: regattapb.Command_PUT, Kv: &regattapb.KeyValue{Key: []byte(fmt.Sprintf("k%d", tag)), Value: val}}
				if tag%5 == 0 {
					li := uint64(tag)
					cmd.LeaderIndex = &li // whatever the log holds, the stream labels with the entry's own index
				}
				raw, _ := cmd.MarshalVT()
				e.Type = raftpb.EncodedEntry
				e.Cmd = append([]byte{0}, raw...)
			case 1:
				e.Type = raftpb.ApplicationEntry
			case 2:
				e.Type = raftpb.ConfigChangeEntry
				e.Cmd = []byte{8, 1, 16, 1}
			default:
				e.Type = raftpb.MetadataEntry
				l.term++
			}
			l.ents = append(l.ents, e)
		case "apply":
			l.applied += uint64(st.N)
			if l.applied > l.last() {
				l.applied = l.last()
			}
		case "compact":
			compact(st.N)
		case "event":
			if pendingEvent {
				cache.LogCompacted(shardID)
				pendingEvent = false
				out.Probe("late-compaction-event-delivered")
			}
		case "replicate":
			var a, b []*regattapb.ReplicateCommand
			var ta, tb string
			ok := true
			if st.Reader == "simple" || st.Reader == "both" {
				a, ta, ok = replicate(lsSimple, "simple", st, false)
			}
			if ok && (st.Reader == "cached" || st.Reader == "both") {
				b, tb, ok = replicate(lsCached, "cached", st, pendingEvent)
			}
			if ok && st.Reader == "both" && !pendingEvent && st.MidAt == 0 {
				// the optional cache never changes the answer (message boundaries may differ)
				if ta != tb || len(a) != len(b) {
					fail("cache-differs", "cache-differs", "Replicate(start=%d): simple reader gives %d commands then %s, cached reader %d commands then %s", st.Start, len(a), ta, len(b), tb)
				}
				out.Probe("simple-vs-cached-compared")
			}
		case "query":
			// the end of the range is always applied+1 at call time, as the server computes it
			st := &Step{Op: "query", Start: st.Start, Last: l.applied + 1, Max: st.Max, Reader: st.Reader}
			if st.Start < l.first() || st.Last < st.Start {
				continue // only available ranges are asked (the server never asks for others)
			}
			if st.Reader == "simple" || st.Reader == "both" {
				if _, ok := query(simple, "simple", st); !ok {
					continue
				}
			}
			if st.Reader == "cached" || st.Reader == "both" {
				if pendingEvent {
					continue
				}
				if _, ok := query(cached, "cached", st); ok {
					out.Probe("cached-query")
				}
			}
		}
	}
	out.NonTrivial = out.Probes["multi-message-stream"] > 0 || out.Probes["simple-vs-cached-compared"] > 0 && sc.Cache < 100
	out.Digest = dig.Sum()
	out.Steps = len(sc.Steps)
	return out
}
