//go:debug randautoseed=0
//go:debug randseednop=0
package c06log

import (
	"testing"

	"verif/sim/core"
)

var Specs = map[string]*core.Spec{
	"C06": {Prop: "C06", World: "W2 c06log", Gen: Gen, Decode: Decode, Exec: Exec, LightRuns: true,
		Rule:           "seeded log contents (encoded commands of varied size, empty application entries, config-change and metadata entries), growing applied index, compaction points (cache told at once or late), Replicate requests at start indices 0 / compacted / inside / applied / applied+1 / beyond, message-size limits 1 B..4 MiB, cache sizes 1..100, raw QueryRaftLog calls; the same request goes to a Simple and a Cached reader; non-trivial = a stream of several messages or a simple-vs-cached comparison with a small cache; distinct = digests of delivered streams",
		Real:           []string{"regattaserver.LogServer.Replicate + entryToCommand", "storage/logreader Simple, Cached, ShardCache, cache"},
		Stub:           []string{"Raft log: simulated ReadonlyLogReader following dragonboat's LogReader arithmetic (GetRange, Entries incl. at-least-one-entry rule)", "table: raft handler answering the applied index", "gRPC server stream: in-memory recorder"},
		RequiredProbes: []string{"multi-message-stream", "use-snapshot", "leader-behind", "up-to-date", "simple-vs-cached-compared", "cached-query"},
		Assumptions:    []string{"when the cache has not yet been told about a compaction (late LogCompacted event) it may still serve the immutable entries it holds instead of USE_SNAPSHOT; only their labels are checked in that window"}},
}

func TestRun(t *testing.T) { core.Main(t, Specs) }
