//go:build !simdb

package conform

import (
	"net"
	"testing"

	"github.com/lni/dragonboat/v4/config"
	"github.com/lni/vfs"
)

const flavour = "real"

// prepare gives every NodeHost of a scenario a free loopback address and an in-memory file system.
func prepare(t *testing.T, n int) []func(*config.NodeHostConfig) {
	out := make([]func(*config.NodeHostConfig), n)
	for i := range out {
		l, err := net.Listen("tcp", "127.0.0.1:0")
		if err != nil {
			t.Fatal(err)
		}
		addr := l.Addr().String()
		_ = l.Close()
		fs := vfs.NewMem()
		out[i] = func(c *config.NodeHostConfig) {
			c.RaftAddress = addr
			if err := c.Prepare(); err != nil {
				t.Fatal(err)
			}
			c.Expert.FS = fs
			c.Expert.Engine.ExecShards = 1
			c.Expert.LogDB.Shards = 1
		}
	}
	return out
}
