// Package conform is a differential conformance test of /verif/simdragonboat against the real
// github.com/lni/dragonboat/v4: the same scenarios, written against the API subset regatta uses, are run
// once against each (two module files select which one `github.com/lni/dragonboat/v4` is), each run prints a
// list of contract-level facts - nothing that depends on timing, batching or absolute log positions - and
// the two lists must be identical (tools/conform.sh). See DESIGN appendix A for the contract.
package conform

import (
	"context"
	"encoding/json"
	"errors"
	"fmt"
	"io"
	"os"
	"sort"
	"strings"
	"sync"
	"testing"
	"time"

	dragonboat "github.com/lni/dragonboat/v4"
	"github.com/lni/dragonboat/v4/config"
	"github.com/lni/dragonboat/v4/raftio"
	sm "github.com/lni/dragonboat/v4/statemachine"
)

// ---- recording state machines -------------------------------------------------------------

type call struct {
	Kind    string
	Indexes []uint64
	Index   uint64
}

// disk is what survives a replica restart: the calls seen so far and what the state machine persisted.
type disk struct {
	mu        sync.Mutex
	calls     []call
	persisted map[string]string
	persIdx   uint64
	syncEvery bool // persist at every Update (true) or only at Sync (false)
}

func (d *disk) note(c call) {
	d.mu.Lock()
	d.calls = append(d.calls, c)
	d.mu.Unlock()
}

func (d *disk) snapshotCalls() []call {
	d.mu.Lock()
	defer d.mu.Unlock()
	return append([]call(nil), d.calls...)
}

type image struct {
	State map[string]string
	Index uint64
}

func copyMap(m map[string]string) map[string]string {
	o := make(map[string]string, len(m))
	for k, v := range m {
		o[k] = v
	}
	return o
}

func apply(state map[string]string, cmd []byte) sm.Result {
	kv := strings.SplitN(string(cmd), "=", 2)
	if len(kv) == 2 {
		state[kv[0]] = kv[1]
	}
	return sm.Result{Value: uint64(len(cmd)), Data: []byte(strings.ToUpper(string(cmd)))}
}

// diskSM is an on-disk state machine (what regatta's tables are).
type diskSM struct {
	d       *disk
	state   map[string]string
	applied uint64
}

func (s *diskSM) Open(stopc <-chan struct{}) (uint64, error) {
	s.d.mu.Lock()
	s.state = copyMap(s.d.persisted)
	s.applied = s.d.persIdx
	s.d.mu.Unlock()
	s.d.note(call{Kind: "open", Index: s.applied})
	return s.applied, nil
}

func (s *diskSM) Update(es []sm.Entry) ([]sm.Entry, error) {
	c := call{Kind: "update"}
	for i := range es {
		es[i].Result = apply(s.state, es[i].Cmd)
		s.applied = es[i].Index
		c.Indexes = append(c.Indexes, es[i].Index)
	}
	s.d.note(c)
	if s.d.syncEvery {
		s.persist()
	}
	return es, nil
}

func (s *diskSM) persist() {
	s.d.mu.Lock()
	s.d.persisted = copyMap(s.state)
	s.d.persIdx = s.applied
	s.d.mu.Unlock()
}

func (s *diskSM) Lookup(q interface{}) (interface{}, error) {
	if q == "index" {
		return s.applied, nil
	}
	return s.state[q.(string)], nil
}

func (s *diskSM) Sync() error {
	s.persist()
	s.d.note(call{Kind: "sync", Index: s.applied})
	return nil
}

func (s *diskSM) PrepareSnapshot() (interface{}, error) {
	s.d.note(call{Kind: "prepare", Index: s.applied})
	return image{State: copyMap(s.state), Index: s.applied}, nil
}

func (s *diskSM) SaveSnapshot(ctx interface{}, w io.Writer, stopc <-chan struct{}) error {
	im := ctx.(image)
	s.d.note(call{Kind: "save", Index: im.Index})
	return json.NewEncoder(w).Encode(im)
}

func (s *diskSM) RecoverFromSnapshot(r io.Reader, stopc <-chan struct{}) error {
	var im image
	if err := json.NewDecoder(r).Decode(&im); err != nil {
		return err
	}
	s.state, s.applied = im.State, im.Index
	s.persist()
	s.d.note(call{Kind: "recover", Index: im.Index})
	return nil
}

func (s *diskSM) Close() error { s.d.note(call{Kind: "close"}); return nil }

// memSM is a concurrent in-memory state machine (what regatta's metadata store is).
type memSM struct {
	d       *disk
	state   map[string]string
	applied uint64
}

func (s *memSM) Update(es []sm.Entry) ([]sm.Entry, error) {
	c := call{Kind: "update"}
	for i := range es {
		es[i].Result = apply(s.state, es[i].Cmd)
		s.applied = es[i].Index
		c.Indexes = append(c.Indexes, es[i].Index)
	}
	s.d.note(c)
	return es, nil
}
func (s *memSM) Lookup(q interface{}) (interface{}, error) {
	if q == "index" {
		return s.applied, nil
	}
	return s.state[q.(string)], nil
}
func (s *memSM) PrepareSnapshot() (interface{}, error) {
	return image{State: copyMap(s.state), Index: s.applied}, nil
}
func (s *memSM) SaveSnapshot(ctx interface{}, w io.Writer, _ sm.ISnapshotFileCollection, _ <-chan struct{}) error {
	im := ctx.(image)
	s.d.note(call{Kind: "save", Index: im.Index})
	return json.NewEncoder(w).Encode(im)
}
func (s *memSM) RecoverFromSnapshot(r io.Reader, _ []sm.SnapshotFile, _ <-chan struct{}) error {
	var im image
	if err := json.NewDecoder(r).Decode(&im); err != nil {
		return err
	}
	s.state, s.applied = im.State, im.Index
	s.d.note(call{Kind: "recover", Index: im.Index})
	return nil
}
func (s *memSM) Close() error { return nil }

// ---- plumbing ---------------------------------------------------------------------------------

type events struct {
	mu   sync.Mutex
	list []string
}

func (e *events) add(s string) { e.mu.Lock(); e.list = append(e.list, s); e.mu.Unlock() }
func (e *events) has(prefix string) bool {
	e.mu.Lock()
	defer e.mu.Unlock()
	for _, s := range e.list {
		if strings.HasPrefix(s, prefix) {
			return true
		}
	}
	return false
}

func (e *events) NodeHostShuttingDown()                            {}
func (e *events) NodeUnloaded(raftio.NodeInfo)                     {}
func (e *events) NodeDeleted(raftio.NodeInfo)                      {}
func (e *events) NodeReady(raftio.NodeInfo)                        {}
func (e *events) MembershipChanged(raftio.NodeInfo)                {}
func (e *events) ConnectionEstablished(raftio.ConnectionInfo)      {}
func (e *events) ConnectionFailed(raftio.ConnectionInfo)           {}
func (e *events) SendSnapshotStarted(raftio.SnapshotInfo)          {}
func (e *events) SendSnapshotCompleted(raftio.SnapshotInfo)        {}
func (e *events) SendSnapshotAborted(raftio.SnapshotInfo)          {}
func (e *events) SnapshotReceived(raftio.SnapshotInfo)             {}
func (e *events) SnapshotRecovered(i raftio.SnapshotInfo)          { e.add(fmt.Sprintf("recovered:%d:%d", i.ShardID, i.ReplicaID)) }
func (e *events) SnapshotCreated(i raftio.SnapshotInfo)            { e.add(fmt.Sprintf("created:%d:%d", i.ShardID, i.ReplicaID)) }
func (e *events) SnapshotCompacted(raftio.SnapshotInfo)            {}
func (e *events) LogCompacted(i raftio.EntryInfo)                  { e.add(fmt.Sprintf("compacted:%d:%d", i.ShardID, i.ReplicaID)) }
func (e *events) LogDBCompacted(raftio.EntryInfo)                  {}

type host struct {
	nh  *dragonboat.NodeHost
	ev  *events
	cfg func(*config.NodeHostConfig)
}

func startHost(t *testing.T, tweak func(*config.NodeHostConfig)) *host {
	ev := &events{}
	c := config.NodeHostConfig{WALDir: "wal", NodeHostDir: "nh", RTTMillisecond: 2, SystemEventListener: ev}
	tweak(&c)
	nh, err := dragonboat.NewNodeHost(c)
	if err != nil {
		t.Fatalf("NewNodeHost: %v", err)
	}
	return &host{nh: nh, ev: ev, cfg: tweak}
}

func shardCfg(shard, replica, snapEntries, overhead uint64) config.Config {
	return config.Config{ShardID: shard, ReplicaID: replica, ElectionRTT: 10, HeartbeatRTT: 1, CheckQuorum: true,
		SnapshotEntries: snapEntries, CompactionOverhead: overhead}
}

func waitFor(d time.Duration, f func() bool) bool {
	end := time.Now().Add(d)
	for time.Now().Before(end) {
		if f() {
			return true
		}
		time.Sleep(5 * time.Millisecond)
	}
	return f()
}

// retryStart: the real library unloads a stopped replica asynchronously; starting it again too early is
// ErrShardAlreadyExist for a moment (timing, not contract).
func retryStart(start func() error) error {
	var err error
	for try := 0; try < 300; try++ {
		if err = start(); !errors.Is(err, dragonboat.ErrShardAlreadyExist) {
			return err
		}
		time.Sleep(10 * time.Millisecond)
	}
	return err
}

func ctxT() (context.Context, context.CancelFunc) { return context.WithTimeout(context.Background(), 3*time.Second) }

func propose(nh *dragonboat.NodeHost, shard uint64, cmd string) (sm.Result, error) {
	var res sm.Result
	var err error
	for try := 0; try < 100; try++ {
		ctx, cancel := ctxT()
		res, err = nh.SyncPropose(ctx, nh.GetNoOPSession(shard), []byte(cmd))
		cancel()
		if err == nil || !dragonboat.IsTempError(err) {
			return res, err
		}
		time.Sleep(10 * time.Millisecond)
	}
	return res, err
}

func syncRead(nh *dragonboat.NodeHost, shard uint64, q string) (interface{}, error) {
	var v interface{}
	var err error
	for try := 0; try < 100; try++ {
		ctx, cancel := ctxT()
		v, err = nh.SyncRead(ctx, shard, q)
		cancel()
		if err == nil || !dragonboat.IsTempError(err) {
			return v, err
		}
		time.Sleep(10 * time.Millisecond)
	}
	return v, err
}

func errName(err error) string {
	if err == nil {
		return "nil"
	}
	for name, e := range map[string]error{
		"ErrShardNotFound": dragonboat.ErrShardNotFound, "ErrShardAlreadyExist": dragonboat.ErrShardAlreadyExist, "ErrClosed": dragonboat.ErrClosed,
		"ErrDeadlineNotSet": dragonboat.ErrDeadlineNotSet, "ErrInvalidSession": dragonboat.ErrInvalidSession, "ErrTimeout": dragonboat.ErrTimeout,
		"ErrShardNotReady": dragonboat.ErrShardNotReady, "ErrShardClosed": dragonboat.ErrShardClosed, "ErrInvalidDeadline": dragonboat.ErrInvalidDeadline,
		"ErrShardNotStopped": dragonboat.ErrShardNotStopped, "ErrCanceled": dragonboat.ErrCanceled,
	} {
		if errors.Is(err, e) {
			return name
		}
	}
	return "other:" + err.Error()
}

type facts struct {
	t    *testing.T
	list []string
}

func (f *facts) add(name string, v interface{}) { f.list = append(f.list, fmt.Sprintf("%s = %v", name, v)) }

func updateIndexes(cs []call) []uint64 {
	var out []uint64
	for _, c := range cs {
		if c.Kind == "update" {
			out = append(out, c.Indexes...)
		}
	}
	return out
}

func strictlyIncreasing(xs []uint64) bool {
	for i := 1; i < len(xs); i++ {
		if xs[i] <= xs[i-1] {
			return false
		}
	}
	return true
}

func count(cs []call, kind string) int {
	n := 0
	for _, c := range cs {
		if c.Kind == kind {
			n++
		}
	}
	return n
}

// ---- scenarios --------------------------------------------------------------------------------

// single: one replica of an on-disk state machine: results, reads, snapshot cycle, compaction, restarts.
func single(t *testing.T, f *facts) {
	tw := prepare(t, 1)
	h := startHost(t, tw[0])
	d := &disk{syncEvery: false}
	mk := func(uint64, uint64) sm.IOnDiskStateMachine { return &diskSM{d: d} }
	members := map[uint64]string{1: h.nh.RaftAddress()}
	if err := h.nh.StartOnDiskReplica(members, false, mk, shardCfg(100, 1, 10, 3)); err != nil {
		t.Fatal(err)
	}
	f.add("single/start-twice", errName(h.nh.StartOnDiskReplica(members, false, mk, shardCfg(100, 1, 10, 3))))
	okRes := true
	for i := 0; i < 33; i++ {
		cmd := fmt.Sprintf("k%d=v%d", i%7, i)
		res, err := propose(h.nh, 100, cmd)
		if err != nil || res.Value != uint64(len(cmd)) || string(res.Data) != strings.ToUpper(cmd) {
			okRes = false
		}
	}
	f.add("single/every-proposal-returns-its-own-result", okRes)
	v, err := syncRead(h.nh, 100, "k6")
	f.add("single/syncread-sees-last-write", fmt.Sprint(v, " ", errName(err)))
	sv, err := h.nh.StaleRead(100, "k6")
	f.add("single/staleread-after-syncread", fmt.Sprint(sv, " ", errName(err)))
	cs := d.snapshotCalls()
	f.add("single/open-is-first-call", len(cs) > 0 && cs[0].Kind == "open")
	f.add("single/update-indexes-strictly-increasing", strictlyIncreasing(updateIndexes(cs)))
	f.add("single/number-of-command-entries-applied", len(updateIndexes(cs)))
	waitFor(3*time.Second, func() bool { return h.ev.has("created:100:1") && h.ev.has("compacted:100:1") })
	f.add("single/snapshot-created-event", h.ev.has("created:100:1"))
	f.add("single/log-compacted-event", h.ev.has("compacted:100:1"))
	cs = d.snapshotCalls()
	f.add("single/periodic-snapshot-of-on-disk-sm-calls-Sync", count(cs, "sync") > 0)
	f.add("single/periodic-snapshot-of-on-disk-sm-calls-SaveSnapshot", count(cs, "save") > 0)
	rd, err := h.nh.GetLogReader(100)
	if err == nil {
		waitFor(3*time.Second, func() bool { first, _ := rd.GetRange(); return first > 1 })
		first, last := rd.GetRange()
		f.add("single/logreader-first-moved-by-compaction", first > 1)
		f.add("single/logreader-last-at-least-applied", last >= updateIndexes(cs)[len(updateIndexes(cs))-1])
		_, e1 := rd.Entries(1, 2, 1<<20)
		f.add("single/logreader-entries-below-first-is-error", e1 != nil)
		es, e2 := rd.Entries(first, last+1, 1<<20)
		f.add("single/logreader-entries-of-retained-range", fmt.Sprint(len(es) == int(last-first+1), " ", errName(e2)))
	} else {
		f.add("single/logreader", errName(err))
	}
	// restart: the state machine persisted only at Sync, so Open reports an index below what was applied
	before := updateIndexes(d.snapshotCalls())
	lastApplied := before[len(before)-1]
	if err := h.nh.StopShard(100); err != nil {
		t.Fatal(err)
	}
	_, perr := propose(h.nh, 100, "x=y")
	f.add("single/propose-on-stopped-shard", errName(perr))
	d.mu.Lock()
	openIdx := d.persIdx
	d.mu.Unlock()
	// whether a Sync happened to land just before the stop is timing; the facts below hold either way
	t.Logf("restart with open index %d, last applied %d", openIdx, lastApplied)
	nBefore := len(d.snapshotCalls())
	if err := retryStart(func() error { return h.nh.StartOnDiskReplica(nil, false, mk, shardCfg(100, 1, 10, 3)) }); err != nil {
		t.Fatalf("restart: %v", err)
	}
	if _, err := propose(h.nh, 100, "after=restart"); err != nil {
		t.Fatalf("propose after restart: %v", err)
	}
	after := d.snapshotCalls()[nBefore:]
	ai := updateIndexes(after)
	f.add("single/restart-open-called-again", count(after, "open") == 1)
	reapplied := 0
	for _, x := range ai {
		if x <= lastApplied {
			reapplied++
		}
	}
	f.add("single/restart-first-update-is-the-command-after-open-index", len(ai) > 0 && ai[0] > openIdx && (reapplied == 0 || ai[0] <= lastApplied))
	f.add("single/restart-reapplies-exactly-the-commands-above-the-open-index", reapplied == countAbove(before, openIdx))
	f.add("single/restart-update-indexes-strictly-increasing", strictlyIncreasing(ai))
	v, err = syncRead(h.nh, 100, "after")
	f.add("single/syncread-after-restart", fmt.Sprint(v, " ", errName(err)))
	// misuse
	ctx := context.Background()
	_, e := h.nh.SyncPropose(ctx, h.nh.GetNoOPSession(100), []byte("a=b"))
	f.add("single/propose-without-deadline", errName(e))
	_, e = propose(h.nh, 999, "a=b")
	f.add("single/propose-on-unknown-shard", errName(e))
	_, e = syncRead(h.nh, 999, "a")
	f.add("single/read-on-unknown-shard", errName(e))
	_, e = h.nh.StaleRead(999, "a")
	f.add("single/staleread-on-unknown-shard", errName(e))
	// node info bookkeeping (the table manager decides between "bootstrap" and "restart" with it) and removal
	d2 := &disk{syncEvery: true}
	mk2 := func(uint64, uint64) sm.IOnDiskStateMachine { return &diskSM{d: d2} }
	f.add("single/has-node-info-before-first-start", h.nh.HasNodeInfo(101, 1))
	if err := h.nh.StartOnDiskReplica(members, false, mk2, shardCfg(101, 1, 0, 0)); err != nil {
		t.Fatal(err)
	}
	if _, err := propose(h.nh, 101, "q=1"); err != nil {
		t.Fatal(err)
	}
	f.add("single/has-node-info-while-running", h.nh.HasNodeInfo(101, 1))
	rctx, rcancel := ctxT()
	f.add("single/remove-data-of-running-replica", errName(h.nh.SyncRemoveData(rctx, 101, 1)))
	rcancel()
	if err := h.nh.StopShard(101); err != nil {
		t.Fatal(err)
	}
	f.add("single/has-node-info-after-stop", h.nh.HasNodeInfo(101, 1))
	var rerr error
	waitFor(5*time.Second, func() bool {
		rctx, rcancel := ctxT()
		rerr = h.nh.SyncRemoveData(rctx, 101, 1)
		rcancel()
		return rerr == nil
	})
	f.add("single/remove-data-after-stop", errName(rerr))
	f.add("single/has-node-info-after-remove", h.nh.HasNodeInfo(101, 1))
	f.add("single/stop-unknown-shard", errName(h.nh.StopShard(998)))
	h.nh.Close()
	cctx, cancel := ctxT()
	_, e = h.nh.SyncPropose(cctx, h.nh.GetNoOPSession(100), []byte("a=b"))
	cancel()
	f.add("single/propose-after-close", errName(e))
}

func countAbove(xs []uint64, idx uint64) int {
	n := 0
	for _, x := range xs {
		if x > idx {
			n++
		}
	}
	return n
}

// three: three replicas; a stopped replica that falls behind the compaction point comes back through a
// snapshot streamed from a peer.
func three(t *testing.T, f *facts) {
	tw := prepare(t, 3)
	hs := []*host{startHost(t, tw[0]), startHost(t, tw[1]), startHost(t, tw[2])}
	members := map[uint64]string{}
	for i, h := range hs {
		members[uint64(i+1)] = h.nh.RaftAddress()
	}
	ds := []*disk{{syncEvery: true}, {syncEvery: true}, {syncEvery: true}}
	mk := func(i int) sm.CreateOnDiskStateMachineFunc {
		return func(uint64, uint64) sm.IOnDiskStateMachine { return &diskSM{d: ds[i]} }
	}
	for i, h := range hs {
		if err := h.nh.StartOnDiskReplica(members, false, mk(i), shardCfg(200, uint64(i+1), 8, 2)); err != nil {
			t.Fatal(err)
		}
	}
	ok := true
	for i := 0; i < 12; i++ {
		cmd := fmt.Sprintf("a%d=%d", i%3, i)
		res, err := propose(hs[i%3].nh, 200, cmd)
		if err != nil || res.Value != uint64(len(cmd)) {
			ok = false
		}
	}
	f.add("three/proposals-through-every-replica-return-their-result", ok)
	v, err := syncRead(hs[1].nh, 200, "a2")
	f.add("three/syncread-on-any-node-sees-acknowledged-writes", fmt.Sprint(v, " ", errName(err)))
	waitFor(3*time.Second, func() bool {
		return len(updateIndexes(ds[0].snapshotCalls())) == 12 && len(updateIndexes(ds[1].snapshotCalls())) == 12 && len(updateIndexes(ds[2].snapshotCalls())) == 12
	})
	same := fmt.Sprint(updateIndexes(ds[0].snapshotCalls())) == fmt.Sprint(updateIndexes(ds[1].snapshotCalls())) && fmt.Sprint(updateIndexes(ds[1].snapshotCalls())) == fmt.Sprint(updateIndexes(ds[2].snapshotCalls()))
	f.add("three/all-replicas-apply-the-same-indexes", same)
	leaders := 0
	var lid uint64
	waitFor(3*time.Second, func() bool { id, _, valid, _ := hs[0].nh.GetLeaderID(200); lid = id; return valid })
	// the shard info of a host is refreshed on its own schedule: give it time (timing, not contract)
	waitFor(5*time.Second, func() bool {
		leaders = 0
		for _, h := range hs {
			info := h.nh.GetNodeHostInfo(dragonboat.NodeHostInfoOption{SkipLogInfo: true})
			for _, si := range info.ShardInfoList {
				if si.ShardID == 200 && si.IsLeader {
					leaders++
				}
			}
		}
		return leaders == 1
	})
	f.add("three/exactly-one-host-reports-IsLeader", leaders == 1)
	f.add("three/leader-id-is-a-member", lid >= 1 && lid <= 3)
	// replica 3 goes away; the others move beyond the compaction point
	if err := hs[2].nh.StopShard(200); err != nil {
		t.Fatal(err)
	}
	lastSeenBy3 := updateIndexes(ds[2].snapshotCalls())
	for i := 0; i < 40; i++ {
		if _, err := propose(hs[i%2].nh, 200, fmt.Sprintf("b%d=%d", i%5, i)); err != nil {
			t.Fatalf("propose with one replica down: %v", err)
		}
	}
	waitFor(3*time.Second, func() bool { return hs[0].ev.has("compacted:200:1") && hs[1].ev.has("compacted:200:2") })
	n3 := len(ds[2].snapshotCalls())
	if err := retryStart(func() error { return hs[2].nh.StartOnDiskReplica(nil, false, mk(2), shardCfg(200, 3, 8, 2)) }); err != nil {
		t.Fatalf("restart replica 3: %v", err)
	}
	caught := waitFor(10*time.Second, func() bool {
		v, err := hs[2].nh.StaleRead(200, "b4")
		return err == nil && v == "39"
	})
	f.add("three/returning-replica-catches-up", caught)
	c3 := ds[2].snapshotCalls()[n3:]
	f.add("three/returning-replica-behind-compaction-uses-RecoverFromSnapshot", count(c3, "recover") >= 1)
	saved := count(ds[0].snapshotCalls(), "save") + count(ds[1].snapshotCalls(), "save")
	prepared := count(ds[0].snapshotCalls(), "prepare") + count(ds[1].snapshotCalls(), "prepare")
	f.add("three/a-peer-prepared-and-saved-a-snapshot-for-it", saved >= 1 && prepared >= 1)
	var recIdx uint64
	for _, c := range c3 {
		if c.Kind == "recover" {
			recIdx = c.Index
		}
	}
	noOld := true
	for _, x := range updateIndexes(c3) {
		if x <= recIdx {
			noOld = false
		}
	}
	f.add("three/no-update-at-or-below-the-recovered-index", noOld)
	f.add("three/recovered-index-beyond-what-it-had", len(lastSeenBy3) > 0 && recIdx > lastSeenBy3[len(lastSeenBy3)-1])
	if _, err := propose(hs[2].nh, 200, "z=z"); err != nil {
		t.Fatalf("propose through the returned replica: %v", err)
	}
	v, err = syncRead(hs[0].nh, 200, "z")
	f.add("three/write-through-returned-replica-visible-elsewhere", fmt.Sprint(v, " ", errName(err)))
	for _, h := range hs {
		h.nh.Close()
	}
}

// memory: a concurrent in-memory state machine restarts from its last snapshot plus the log.
func memory(t *testing.T, f *facts) {
	tw := prepare(t, 1)
	h := startHost(t, tw[0])
	d := &disk{}
	mk := func(uint64, uint64) sm.IConcurrentStateMachine { return &memSM{d: d, state: map[string]string{}} }
	members := map[uint64]string{1: h.nh.RaftAddress()}
	if err := h.nh.StartConcurrentReplica(members, false, mk, shardCfg(300, 1, 10, 3)); err != nil {
		t.Fatal(err)
	}
	for i := 0; i < 27; i++ {
		if _, err := propose(h.nh, 300, fmt.Sprintf("m%d=%d", i%4, i)); err != nil {
			t.Fatal(err)
		}
	}
	waitFor(3*time.Second, func() bool { return h.ev.has("created:300:1") })
	cs := d.snapshotCalls()
	f.add("memory/periodic-snapshot-calls-SaveSnapshot", count(cs, "save") >= 1)
	var lastSave uint64
	for _, c := range cs {
		if c.Kind == "save" {
			lastSave = c.Index
		}
	}
	all := updateIndexes(cs)
	if err := h.nh.StopShard(300); err != nil {
		t.Fatal(err)
	}
	n := len(d.snapshotCalls())
	if err := retryStart(func() error { return h.nh.StartConcurrentReplica(nil, false, mk, shardCfg(300, 1, 10, 3)) }); err != nil {
		t.Fatalf("restart: %v", err)
	}
	v, err := syncRead(h.nh, 300, "m2")
	f.add("memory/state-rebuilt-after-restart", fmt.Sprint(v, " ", errName(err)))
	after := d.snapshotCalls()[n:]
	f.add("memory/restart-recovers-from-the-last-snapshot", count(after, "recover") == 1)
	var rec uint64
	for _, c := range after {
		if c.Kind == "recover" {
			rec = c.Index
		}
	}
	// which of the saved snapshots is timing (the real library may be stopped while the last one is still
	// being finalised); that it is one of them, and that the log above it is replayed, is contract
	wasSaved := false
	for i, c := range d.snapshotCalls() {
		if i >= n && c.Kind == "recover" {
			break // (the real library may still finish a save after StopShard returned)
		}
		if c.Kind == "save" && c.Index == rec {
			wasSaved = true
		}
	}
	_ = lastSave
	all = updateIndexes(d.snapshotCalls()[:n])
	f.add("memory/recovered-snapshot-is-one-that-was-saved", wasSaved)
	f.add("memory/log-above-the-snapshot-is-replayed", fmt.Sprint(updateIndexes(after)) == fmt.Sprint(above(all, rec)))
	h.nh.Close()
}

func above(xs []uint64, idx uint64) []uint64 {
	var out []uint64
	for _, x := range xs {
		if x > idx {
			out = append(out, x)
		}
	}
	return out
}

func TestConform(t *testing.T) {
	f := &facts{t: t}
	single(t, f)
	three(t, f)
	memory(t, f)
	sort.Strings(f.list)
	out := os.Getenv("CONFORM_OUT")
	body := strings.Join(f.list, "\n") + "\n"
	if out != "" {
		if err := os.WriteFile(out, []byte(body), 0o644); err != nil {
			t.Fatal(err)
		}
	}
	t.Logf("%s dragonboat: %d facts\n%s", flavour, len(f.list), body)
}
