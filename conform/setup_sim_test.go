//go:build simdb

package conform

import (
	"fmt"
	"testing"

	dragonboat "github.com/lni/dragonboat/v4"
	"github.com/lni/dragonboat/v4/config"
)

const flavour = "stand-in"

func prepare(t *testing.T, n int) []func(*config.NodeHostConfig) {
	dragonboat.SetUniverse(dragonboat.NewUniverse(7))
	out := make([]func(*config.NodeHostConfig), n)
	for i := range out {
		addr := fmt.Sprintf("10.9.0.%d:5012", i+1)
		out[i] = func(c *config.NodeHostConfig) { c.RaftAddress = addr }
	}
	return out
}
